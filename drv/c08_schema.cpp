// c08_schema - bounded-exhaustive check of XML Schema 1.0 *structures* validation (property C08).
//
//   --space particles --tier quick|thorough [--len L]
//        every particle tree of the stated family (see build_particle_space) is one case: the schema is put into the VFS,
//        the fixed batch instance (one <t:e> per line, one line per child word) is validated under
//        {IGXMLScanner,SGXMLScanner} x {SAX2,DOM} x full checking {on,off}; the set of lines with validity errors must be the set
//        of words rejected by the reference (Brzozowski derivatives with occurrence counters + processContents rules),
//        schemas violating Unique Particle Attribution (Glushkov determinism test) or cos-all-limited must be rejected.
//   other spaces: see c08_spaces.hpp
#include "c08_common.hpp"
#include "c08_ref.hpp"
#include <array>
using namespace xv;
using namespace c08;

// =============================================================================================== particle space
static std::vector<Particle> PSPACE;
static int g_len = 6, g_full = 4, g_shallow_len = 3;
static size_t g_wordcap = 6000, g_alldeep_max = 800;
static const int NS_ALPHA = 5;  // a b c x d
static const int LADDER_LEN = 13;
static const std::vector<std::vector<int>> LADDERS = {{SA}, {SB}, {SX}, {SA, SB}, {SB, SA}, {SA, SX}, {SX, SA}};

static std::string word_str(const std::vector<int>& w) { std::string s; for (int x : w) s += SYM_CH[x]; return s; }
static std::string word_line(const std::vector<int>& w) { std::string d = "<t:e>"; for (int s : w) d += SYM_XML[s]; return d + "</t:e>"; }
static std::string make_doc(const std::vector<std::vector<int>>& words, size_t n) {
    std::string d = DOC_HEAD;
    for (size_t i = 0; i < n; i++) { d += word_line(words[i]); d += "\n"; }
    d += "</t:r>\n";
    return d;
}

static std::string particle_schema(const Particle& top) {
    std::string s = XSD_HEAD;
    s += "<xs:element name=\"r\"><xs:complexType><xs:sequence><xs:element ref=\"t:e\" minOccurs=\"0\" maxOccurs=\"unbounded\"/></xs:sequence></xs:complexType></xs:element>\n";
    s += "<xs:element name=\"a\" type=\"xs:string\"/>\n<xs:element name=\"b\" type=\"xs:string\"/>\n<xs:element name=\"c\" type=\"xs:string\"/>\n";
    s += "<xs:element name=\"e\"><xs:complexType>\n" + render(top) + "\n</xs:complexType></xs:element>\n</xs:schema>\n";
    return s;
}

// ---- enumeration of the particle family -------------------------------------------------------------------------
struct TermT { Kind k; int term; };
static std::vector<Occ> occs(std::initializer_list<int> idx) { std::vector<Occ> v; for (int i : idx) v.push_back(OCC8[i]); return v; }
static Particle leafp(TermT t, Occ o) { Particle p; p.kind = t.k; p.term = t.term; p.occ = o; return p; }

static void build_particle_space(const std::string& tier, const std::string& family) {
    auto fam = [&](const char* f) { return family == "all" || family == f; };
    const std::vector<Occ> FULL = occs({0, 1, 2, 3, 4, 5, 6, 7});
    const std::vector<Occ> CORE = occs({1, 0, 2, 5});        // (1,1) (0,1) (0,inf) (2,3)
    const std::vector<Occ> MINI = occs({1, 0});              // (1,1) (0,1)
    const std::vector<Occ> REP3 = occs({1, 2, 5});           // (1,1) (0,inf) (2,3)
    const std::vector<Occ> LEAF3 = occs({1, 0, 5});          // (1,1) (0,1) (2,3)
    const std::vector<Occ> ONE = occs({1});
    const Kind COMP[2] = {SEQ, CHOICE};
    std::vector<TermT> allTerms = {{ELEM, 0}};
    for (int ns = 0; ns < 3; ns++) for (int pc = 0; pc < 3; pc++) allTerms.push_back({WILD, ns * 3 + pc});
    bool T = tier == "thorough";

    // P1: group{o1}( leaf{o2} ), all 8x8 occurrence pairs, element a and all nine wildcards        (counter path: o1=(1,1) or o2=(1,1))
    // (quick: element a and one wildcard per namespace constraint / per processContents value: ##any/strict, ##other/lax, ##targetNamespace/skip)
    std::vector<TermT> p1Terms = allTerms;
    if (!T) p1Terms = {{ELEM, 0}, {WILD, W_ANY * 3 + PC_STRICT}, {WILD, W_OTHER * 3 + PC_LAX}, {WILD, W_TNS * 3 + PC_SKIP}};
    if (fam("p1")) for (Kind c : COMP) for (Occ o1 : FULL) for (TermT t : p1Terms) for (Occ o2 : FULL)
        PSPACE.push_back(Particle::group(c, o1, {leafp(t, o2)}));
    // P1n: group{o1}( group{o2}( leaf{o3} ) ): nested repetition of a single leaf
    if (fam("p1n")) {
        const std::vector<Occ>& O = T ? FULL : CORE;
        std::vector<TermT> ts = {{ELEM, 0}};
        for (Kind c : COMP) for (Kind c2 : COMP) for (Occ o1 : O) for (Occ o2 : O) for (TermT t : ts) for (Occ o3 : O)
            PSPACE.push_back(Particle::group(c, o1, {Particle::group(c2, o2, {leafp(t, o3)})}));
    }
    // P2: group{o1}( l1{o2} l2{o3} ): two leaves in one group (subtree-expansion path when o1 != (1,1))
    if (fam("p2")) {
        std::vector<std::pair<TermT, TermT>> pairs = {
            {{ELEM, 0}, {ELEM, 1}}, {{ELEM, 0}, {ELEM, 0}},
            {{ELEM, 0}, {WILD, W_OTHER * 3 + PC_STRICT}}, {{WILD, W_OTHER * 3 + PC_LAX}, {ELEM, 0}},
            {{ELEM, 0}, {WILD, W_ANY * 3 + PC_LAX}}};
        if (T) {
            pairs.push_back({{WILD, W_TNS * 3 + PC_SKIP}, {WILD, W_OTHER * 3 + PC_SKIP}});
            pairs.push_back({{ELEM, 0}, {WILD, W_TNS * 3 + PC_STRICT}});
            pairs.push_back({{WILD, W_OTHER * 3 + PC_STRICT}, {WILD, W_TNS * 3 + PC_LAX}});
            pairs.push_back({{WILD, W_OTHER * 3 + PC_LAX}, {WILD, W_OTHER * 3 + PC_STRICT}});
        }
        const std::vector<Occ>& OG = T ? FULL : REP3;
        const std::vector<Occ>& OL = FULL;
        for (Kind c : COMP) for (Occ o1 : OG) for (auto& pr : pairs) for (Occ o2 : OL) for (Occ o3 : OL)
            PSPACE.push_back(Particle::group(c, o1, {leafp(pr.first, o2), leafp(pr.second, o3)}));
    }
    // P2n: nested two-leaf shapes: g{o1}( g'{o2}(l1 l2) ), g{o1}( g'{o2}(l1) l2 ), g{o1}( l1 g'{o2}(l2) )
    if (fam("p2n")) {
        std::vector<std::pair<TermT, TermT>> pairs = {{{ELEM, 0}, {ELEM, 1}}, {{ELEM, 0}, {WILD, W_OTHER * 3 + PC_LAX}}};
        const std::vector<Occ>& OG = T ? FULL : REP3;
        const std::vector<Occ>& OL = T ? LEAF3 : MINI;
        const std::vector<Occ>& OG2 = T ? CORE : REP3;   // inner group
        for (Kind c : COMP) for (Kind c2 : COMP) for (Occ o1 : OG) for (Occ o2 : OG2) for (auto& pr : pairs) for (Occ o3 : OL) for (Occ o4 : OL) {
            PSPACE.push_back(Particle::group(c, o1, {Particle::group(c2, o2, {leafp(pr.first, o3), leafp(pr.second, o4)})}));
            PSPACE.push_back(Particle::group(c, o1, {Particle::group(c2, o2, {leafp(pr.first, o3)}), leafp(pr.second, o4)}));
            PSPACE.push_back(Particle::group(c, o1, {leafp(pr.first, o3), Particle::group(c2, o2, {leafp(pr.second, o4)})}));
        }
    }
    // P3 (thorough): three leaves: g{o1}(l1 l2 l3), g{o1}( g'{o2}(l1 l2) l3 ), g{o1}( l1 g'{o2}(l2 l3) )
    if (T && fam("p3")) {
        std::vector<std::vector<TermT>> triples = {
            {{ELEM, 0}, {ELEM, 1}, {ELEM, 2}}, {{ELEM, 0}, {ELEM, 1}, {ELEM, 0}}, {{ELEM, 0}, {WILD, W_OTHER * 3 + PC_LAX}, {ELEM, 1}},
            {{ELEM, 0}, {ELEM, 1}, {WILD, W_ANY * 3 + PC_LAX}}};
        for (Kind c : COMP) for (Occ o1 : CORE) for (auto& tr : triples) for (Occ o2 : CORE) for (Occ o3 : CORE) for (Occ o4 : CORE)
            PSPACE.push_back(Particle::group(c, o1, {leafp(tr[0], o2), leafp(tr[1], o3), leafp(tr[2], o4)}));
        for (Kind c : COMP) for (Kind c2 : COMP) for (Occ o1 : CORE) for (Occ og : REP3) for (auto& tr : triples) for (Occ o2 : MINI) for (Occ o3 : MINI) for (Occ o4 : MINI) {
            PSPACE.push_back(Particle::group(c, o1, {Particle::group(c2, og, {leafp(tr[0], o2), leafp(tr[1], o3)}), leafp(tr[2], o4)}));
            PSPACE.push_back(Particle::group(c, o1, {leafp(tr[0], o2), Particle::group(c2, og, {leafp(tr[1], o3), leafp(tr[2], o4)})}));
        }
    }
    // PA: all groups (top level): all{og}( m1{o} [m2{o} [m3{o}]] ), members over {a,b,c} including duplicates, every occurrence pair
    // (pairs other than (0,1),(1,1) violate cos-all-limited and must be rejected)
    if (fam("pa")) {
        for (Occ og : FULL) for (Occ o : FULL) PSPACE.push_back(Particle::group(ALL, og, {Particle::elem(0, o)}));
        const std::vector<Occ>& OM = T ? FULL : CORE;
        for (Occ og : (T ? FULL : CORE)) for (int e1 = 0; e1 < 2; e1++) for (int e2 = 0; e2 < 2; e2++) for (Occ o1 : OM) for (Occ o2 : OM)
            PSPACE.push_back(Particle::group(ALL, og, {Particle::elem(e1, o1), Particle::elem(e2, o2)}));
        for (Occ og : MINI) for (int e1 = 0; e1 < 3; e1++) for (int e2 = 0; e2 < 3; e2++) for (int e3 = 0; e3 < 3; e3++) {
            if (!T && !(e1 == 0 && e2 == 1 && e3 == 2) && !(e1 == 2 && e2 == 0 && e3 == 1) && !(e1 == 0 && e2 == 1 && e3 == 0)) continue;
            for (Occ o1 : MINI) for (Occ o2 : MINI) for (Occ o3 : MINI)
                PSPACE.push_back(Particle::group(ALL, og, {Particle::elem(e1, o1), Particle::elem(e2, o2), Particle::elem(e3, o3)}));
        }
    }
    // PL: structural ladder: large bounds for the counter path and the expansion path
    if (fam("pl")) {
        for (int M : {5, 12}) for (int m : {0, 2, M}) {
            PSPACE.push_back(Particle::group(SEQ, {1, 1}, {Particle::elem(0, {m, M})}));                                   // counter (Loop node)
            PSPACE.push_back(Particle::group(SEQ, {m, M}, {Particle::elem(0, {1, 1})}));                                   // counter, on the group
            PSPACE.push_back(Particle::group(SEQ, {m, M}, {Particle::elem(0, {1, 1}), Particle::elem(1, {0, 1})}));         // expansion of a 2-child group
            PSPACE.push_back(Particle::group(SEQ, {1, 1}, {Particle::elem(0, {m, M}), Particle::elem(1, {m, M})}));         // two counters
            PSPACE.push_back(Particle::group(SEQ, {1, 1}, {Particle::wild(W_OTHER, PC_LAX, {m, M}), Particle::elem(0, {m, M})}));
        }
    }
}

// ---- one case -----------------------------------------------------------------------------------------------------
// Words of one schema (breadth first = shortest first): every word of length <= g_full over {a,b,c,x,d}; beyond that and up to
// length `len` every word all of whose proper prefixes are *viable* for the reference (non-empty residual language), i.e. the
// first non-viable symbol ends the word; plus the ladder words (unary / period-2 words up to length 13).
struct Expect {
    Upa upa = UPA_OK;
    bool allOk = true;
    int len = 0;
    std::vector<std::vector<int>> words;
    std::vector<char> invalid;    // per word: 1 = the <t:e> line must carry a validity error
    size_t shallow = 0;           // number of words of length <= g_shallow_len (a prefix of `words`)
    size_t dfa_states = 0;
    uint64_t accepted = 0, rejected_cm = 0, rejected_strict = 0, crosschecked = 0, cross_mismatch = 0, same_particle_steps = 0;
    std::string cross_word;
};

// Lazily built deterministic automaton over the derivative states: a state is the ACI-normalised set of residual expressions
// (sorted, de-duplicated by their serialisation), so every derivative is computed once per (state, symbol).
static void ser(const R& e, std::string& o) {
    switch (e->k) {
    case Rx::NONE: o += '0'; return;
    case Rx::EPS: o += 'e'; return;
    case Rx::LEAF: o += 'L'; o += std::to_string(e->leaf); return;
    case Rx::CAT: o += '('; ser(e->a, o); o += '.'; ser(e->b, o); o += ')'; return;
    case Rx::ALT: o += '('; ser(e->a, o); o += '|'; ser(e->b, o); o += ')'; return;
    case Rx::REP: o += '('; ser(e->a, o); o += '{'; o += std::to_string(e->min); o += ','; o += std::to_string(e->max); o += "})"; return;
    case Rx::ALLG: o += 'A'; for (auto& m : e->members) { o += std::to_string(m.leaf); o += m.required ? '!' : '?'; } o += '#'; o += std::to_string(e->used); return;
    }
}
struct Dfa {
    const std::vector<LeafInfo>* L = nullptr;
    std::map<std::string, int> ids;
    std::vector<std::vector<R>> alts;          // state -> alternatives
    std::vector<char> accepting;
    std::vector<std::array<int, NSYM>> next;   // -2 not computed, -1 dead
    std::vector<std::array<int, NSYM>> leaf;   // consuming leaf particle of the transition
    uint64_t multiLeaf = 0, sameParticleSteps = 0;
    int intern(std::vector<std::pair<std::string, R>>& v) {
        std::sort(v.begin(), v.end(), [](const std::pair<std::string, R>& a, const std::pair<std::string, R>& b) { return a.first < b.first; });
        std::string key;
        std::vector<R> as;
        for (size_t i = 0; i < v.size(); i++) {
            if (i && v[i].first == v[i - 1].first) continue;
            key += v[i].first; key += ';';
            as.push_back(v[i].second);
        }
        auto it = ids.find(key);
        if (it != ids.end()) return it->second;
        int id = (int)alts.size();
        ids[key] = id;
        bool acc = false;
        for (auto& r : as) if (nullable(r)) acc = true;
        alts.push_back(as); accepting.push_back(acc);
        std::array<int, NSYM> u; u.fill(-2);
        next.push_back(u); leaf.push_back(u);
        return id;
    }
    int start(const R& root) {
        std::vector<std::pair<std::string, R>> v;
        std::string k; ser(root, k);
        v.push_back({k, root});
        return intern(v);
    }
    int step(int st, int s) {
        if (st < 0) return -1;
        if (next[st][s] != -2) return next[st][s];
        std::vector<Step> steps;
        for (auto& r : alts[st]) deriv(r, s, *L, steps);
        int res = -1, lf = -1;
        if (!steps.empty()) {
            lf = steps[0].leaf;
            std::vector<std::pair<std::string, R>> v;
            for (auto& sp : steps) {
                if (sp.leaf != lf) multiLeaf++;
                if (sp.next->k == Rx::NONE) continue;
                std::string k; ser(sp.next, k);
                v.push_back({k, sp.next});
            }
            if (steps.size() > 1) sameParticleSteps++;
            if (!v.empty()) res = intern(v);
        }
        next[st][s] = res; leaf[st][s] = lf;
        return res;
    }
};

struct WState { int st; bool strictFail; };

static WState step_state(Dfa& D, const WState& ps, int s) {
    if (ps.st < 0) return {-1, false};
    int nx = D.step(ps.st, s);
    if (nx < 0) return {-1, false};
    const LeafInfo& li = (*D.L)[D.leaf[ps.st][s]];
    bool sf = ps.strictFail;
    // a child matched by a strict wildcard needs a global declaration: only a, b, c have one
    if (li.kind == WILD && li.term % 3 == PC_STRICT && !(s == SA || s == SB || s == SC)) sf = true;
    return {nx, sf};
}

static void generate(const Particle& top, const std::vector<LeafInfo>& L, const R& root, int len, Expect& ex) {
    ex.words.clear(); ex.invalid.clear();
    ex.accepted = ex.rejected_cm = ex.rejected_strict = ex.crosschecked = 0;
    ex.len = len;
    Dfa D; D.L = &L;
    DenotMemo memo;
    Particle numbered = top;
    int nodes = number_nodes(numbered);
    std::vector<WState> st;
    auto push = [&](const std::vector<int>& w, const WState& s) {
        bool acc = s.st >= 0 && D.accepting[s.st];
        bool acc2 = accepts_denot(numbered, w, memo, nodes);   // self-validation of the oracle on every word
        ex.crosschecked++;
        if (acc != acc2) { ex.cross_mismatch++; ex.cross_word = word_str(w); }
        char inv = 0;
        if (!acc) { inv = 1; ex.rejected_cm++; }
        else if (s.strictFail) { inv = 1; ex.rejected_strict++; }
        else ex.accepted++;
        ex.words.push_back(w); ex.invalid.push_back(inv); st.push_back(s);
    };
    push({}, {D.start(root), false});
    size_t head = 0;
    while (head < ex.words.size()) {
        size_t i = head++;
        int n = (int)ex.words[i].size();
        if (n >= len) continue;
        if (n >= g_full && st[i].st < 0) continue;
        for (int s = 0; s < NS_ALPHA; s++) {
            std::vector<int> w = ex.words[i]; w.push_back(s);
            push(w, step_state(D, st[i], s));
        }
    }
    ex.shallow = 0;
    for (auto& w : ex.words) if ((int)w.size() <= g_shallow_len) ex.shallow++;
    // ladders beyond the enumerated length
    for (auto& unit : LADDERS) {
        WState cur{D.start(root), false};
        std::vector<int> w;
        for (int n = 1; n <= LADDER_LEN; n++) {
            int s = unit[(n - 1) % unit.size()];
            w.push_back(s);
            cur = step_state(D, cur, s);
            if (n > len) push(w, cur);
        }
    }
    if (D.multiLeaf) { ex.cross_mismatch++; ex.cross_word = "attribution to two different particles in a schema classified as UPA-clean"; }
    ex.same_particle_steps = D.sameParticleSteps;
    ex.dfa_states = D.alts.size();
}

static void compute_expect(const Particle& top, Expect& ex) {
    std::vector<LeafInfo> L;
    collect_leaves(top, L);
    ex.allOk = all_limited_ok(top);
    ex.upa = ex.allOk ? upa(top, L) : UPA_OK;
    if (!ex.allOk || ex.upa == UPA_VIOLATION) {   // only the schema verdict is claimed; a short fixed batch keeps the parse meaningful
        ex.len = g_shallow_len;
        for (uint64_t i = 0; i < words_upto(NS_ALPHA, g_shallow_len); i++) ex.words.push_back(word_at(i, NS_ALPHA, g_shallow_len));
        ex.invalid.assign(ex.words.size(), 0);
        ex.shallow = ex.words.size();
        return;
    }
    int nl = 0;
    R root = to_rx(top, nl);
    int len = g_len;
    generate(top, L, root, len, ex);
    while (ex.words.size() > g_wordcap && len > g_full) generate(top, L, root, --len, ex);
}

// Known defect C08-D1 (see docs/c08.md): without full checking DFAContentModel::buildDFA merges leaves that carry the same element name
// (or the same wildcard) into one element-map entry and keeps one occurrence counter per entry, so two particles with the same name of
// which at least one needs a counter share / lose their bounds.  Predicate: counter-type occurrence somewhere + the same leaf term twice.
// (the list KNOWN_DEFECTS with all diagnosed defects lives in c08_spaces.hpp; D1 is entry 0)
extern const char* const KNOWN_DEFECTS[];
extern bool g_skip_known;
extern bool g_defect_active[6];
static bool has_counter_occ(const Particle& p) {
    bool simple = (p.occ.max == 1 && p.occ.min <= 1) || (p.occ.max == UNB && p.occ.min <= 1);
    if (!simple) return true;
    for (auto& k : p.kids) if (has_counter_occ(k)) return true;
    return false;
}
// Known defect C08-D6: two wildcards with the same namespace constraint but different processContents, the first one with a counter:
// IGXMLScanner/SGXMLScanner::laxElementValidation take processContents from the leaf they tried first although
// DFAContentModel::handleRepetitions moved on to the other leaf when the counter was exhausted (with or without full checking).
static bool d6_predicate(const Particle& top) {
    if (top.kind == ALL || !has_counter_occ(top)) return false;
    std::vector<LeafInfo> L;
    collect_leaves(top, L);
    for (size_t i = 0; i < L.size(); i++) for (size_t j = i + 1; j < L.size(); j++)
        if (L[i].kind == WILD && L[j].kind == WILD && L[i].term / 3 == L[j].term / 3 && L[i].term != L[j].term) return true;
    return false;
}
static bool d1_predicate(const Particle& top, bool fullChecking) {
    if (fullChecking || top.kind == ALL || !has_counter_occ(top)) return false;
    std::vector<LeafInfo> L;
    collect_leaves(top, L);
    for (size_t i = 0; i < L.size(); i++) for (size_t j = i + 1; j < L.size(); j++) if (L[i].kind == L[j].kind && L[i].term == L[j].term) return true;
    return false;
}

struct Cfg8 { int scanner, api; bool full; bool deep; };
static std::vector<Cfg8> g_cfgs;
static unsigned g_cfgmask = 0xff;
static int g_ncfg = 8;

static const char* upa_name(Upa u) { return u == UPA_OK ? "ok" : u == UPA_SAME_PARTICLE ? "same-particle" : "violation"; }

static void run_particle(uint64_t idx, Ctx& c) {
    const Particle& top = PSPACE[idx];
    std::string xsd = particle_schema(top);
    Expect ex;
    compute_expect(top, ex);
    if (ex.cross_mismatch) {  // the two reference engines disagree: harness problem, reported loudly (never attributed to the library)
        c.violation("oracle-self-check", "\"particle\":" + jstr(show(top)) + ",\"word\":" + jstr(ex.cross_word));
        return;
    }
    c.count(std::string("schemas_upa_") + upa_name(ex.upa));
    if (!ex.allOk) c.count("schemas_all_limited_violation");
    bool mustReject = !ex.allOk;
    bool claimInstances = ex.allOk && ex.upa != UPA_VIOLATION;
    if (claimInstances) {
        c.count("ref_words", ex.words.size());
        c.count("ref_words_accepted", ex.accepted);
        c.count("ref_words_rejected_content_model", ex.rejected_cm);
        c.count("ref_words_rejected_strict_wildcard", ex.rejected_strict);
        c.count("oracle_crosschecked_words", ex.crosschecked);
        if (ex.accepted && ex.rejected_cm) c.count("schemas_with_both_verdicts");
        if (ex.len < g_len) c.count("schemas_len_capped");
        c.count("schemas_len_" + std::to_string(ex.len));
    }
    bool allDeep = ex.words.size() <= g_alldeep_max;
    std::string docDeep = make_doc(ex.words, ex.words.size());
    std::string docShallow = allDeep ? std::string() : make_doc(ex.words, ex.shallow);
    std::string desc = "\"particle\":" + jstr(show(top)) + ",\"upa\":" + jstr(upa_name(ex.upa));
    int selPos = -1;
    for (size_t ci = 0; ci < g_cfgs.size(); ci++) {
        if (!(g_cfgmask & (1u << ci))) continue;
        const Cfg8& k = g_cfgs[ci];
        if (g_ncfg == 4) {
            // quick tier: four of the eight configurations per schema - the odd-parity set {IG/SAX2/full, IG/DOM/nofull, SG/SAX2/nofull, SG/DOM/full}
            // for even case indexes, the complementary set for odd ones; each set contains every scanner, API and full-checking value twice
            int parity = ((k.scanner == IG) ? 1 : 0) ^ ((k.api == SAX2) ? 1 : 0) ^ (k.full ? 1 : 0);
            if (parity != (int)((idx + 1) % 2)) continue;
        }
        selPos++;
        Config cfg; cfg.api = k.api; cfg.scanner = k.scanner; cfg.ns = true; cfg.schema = true; cfg.val = 1; cfg.fullcheck = k.full;
        g_vfs->clear();
        g_vfs->put("/v/s.xsd", xsd);
        // big schemas: two of the eight configurations see every word; the pair rotates with the case index and always contains both
        // scanners, both APIs and both full-checking values (pairs: {0,7} {1,6} {2,5} {3,4} in the order of g_cfgs)
        bool deep = allDeep || (g_ncfg == 4 ? (((idx / 2) % 2 == 0) ? (selPos == 0 || selPos == 3) : (selPos == 1 || selPos == 2)) : (ci == (idx % 4) || ci == 7 - (idx % 4)));
        const std::string& doc = deep ? docDeep : docShallow;
        size_t nwords = deep ? ex.words.size() : ex.shallow;
        Parsed P = parse8(cfg, doc, false, false);
        c.count("parses");
        std::string cs = "\"config\":" + jstr(cfg.str());
        if (!P.r.exc.empty() || P.r.fatals) {
            c.violation("fatal-or-exception", desc + "," + cs + ",\"exc\":" + jstr(P.r.exc) + ",\"first\":" + jstr(P.r.errors.empty() ? "" : P.r.errors[0]) + ",\"schema\":" + jstr(xsd));
            continue;
        }
        std::vector<char> got(nwords, 0);
        size_t schemaErrs = 0, stray = 0;
        std::string firstSchemaErr, strayErr;
        for (auto& e : P.r.errors) {
            ErrRec er = split_err(e);
            // errors found while traversing the schema carry the schema's system id; the checks done on the finished grammar
            // (unique particle attribution, particle derivation) are reported at the place of the instance where the grammar was
            // loaded: the root start tag on line 1, which is itself always valid here
            if (ends_with(er.sysid, "s.xsd") || er.line == 1) { if (er.sev != 'W') { if (!schemaErrs) firstSchemaErr = e; schemaErrs++; } continue; }
            if (er.sev == 'W') continue;
            long w = er.line - 2;
            if (w < 0 || (size_t)w >= nwords) { if (!stray) strayErr = e; stray++; continue; }
            got[w] = 1;
        }
        bool expectSchemaErr = mustReject || (ex.upa == UPA_VIOLATION && k.full);
        bool noClaimSchema = (ex.upa == UPA_VIOLATION && !k.full) || (ex.upa == UPA_SAME_PARTICLE);
        if (c.verbose) printf("config %s: schema errors %zu (%s) instance error lines %zu\n", cfg.str().c_str(), schemaErrs, firstSchemaErr.c_str(), (size_t)std::count(got.begin(), got.end(), 1));
        if (expectSchemaErr) {
            c.count(mustReject ? "expect_reject_all_limited" : "expect_reject_upa");
            if (!schemaErrs) c.violation(mustReject ? "invalid-all-group-accepted" : "upa-violation-accepted", desc + "," + cs + ",\"schema\":" + jstr(xsd));
            continue;
        }
        if (schemaErrs && !noClaimSchema) {
            c.violation("valid-schema-rejected", desc + "," + cs + ",\"error\":" + jstr(firstSchemaErr) + ",\"schema\":" + jstr(xsd));
            continue;
        }
        if (schemaErrs) { c.count(ex.upa == UPA_SAME_PARTICLE ? "noclaim_same_particle_schema_rejected" : "noclaim_upa_violation_rejected_without_full_checking"); continue; }
        if (!claimInstances) { c.count("noclaim_upa_violation_accepted_without_full_checking"); continue; }
        if (ex.upa == UPA_SAME_PARTICLE) c.count("same_particle_schema_accepted_and_compared");
        if (stray) { c.violation("error-outside-instance-lines", desc + "," + cs + ",\"error\":" + jstr(strayErr) + ",\"schema\":" + jstr(xsd)); continue; }
        c.count(deep ? "deep_docs_compared" : "shallow_docs_compared");
        c.count("instance_verdicts_compared", nwords);
        for (size_t w = 0; w < nwords; w++) {
            if ((bool)got[w] == (bool)ex.invalid[w]) continue;
            std::string fields = desc + "," + cs + ",\"word\":" + jstr(word_str(ex.words[w])) + ",\"instance\":" + jstr(word_line(ex.words[w])) + ",\"schema\":" + jstr(xsd);
            if (g_defect_active[0] && d1_predicate(top, k.full)) {
                if (g_skip_known) { c.count(std::string("known_defect:") + KNOWN_DEFECTS[0]); break; }
                fields += std::string(",\"defect\":") + jstr(KNOWN_DEFECTS[0]);
                c.count(std::string("tagged:") + KNOWN_DEFECTS[0]);
            } else if (g_defect_active[5] && d6_predicate(top)) {
                if (g_skip_known) { c.count(std::string("known_defect:") + KNOWN_DEFECTS[5]); break; }
                fields += std::string(",\"defect\":") + jstr(KNOWN_DEFECTS[5]);
                c.count(std::string("tagged:") + KNOWN_DEFECTS[5]);
            }
            c.violation(ex.invalid[w] ? "invalid-instance-accepted" : "valid-instance-rejected", fields);
            if (c.verbose) {
                printf("config %s word '%s' expected %s observed %s\n", cfg.str().c_str(), word_str(ex.words[w]).c_str(), ex.invalid[w] ? "invalid" : "valid", got[w] ? "invalid" : "valid");
                for (auto& e : P.r.errors) if (split_err(e).line == (long)w + 2) printf("   %s\n", e.c_str());
            }
            break;  // first (shortest) disagreeing word per configuration
        }
    }
    if (c.verbose) printf("particle %s\nupa=%s allOk=%d words=%zu len=%d accepted=%llu rejected=%llu strict=%llu\nschema:\n%s\n", show(top).c_str(), upa_name(ex.upa), ex.allOk, ex.words.size(), ex.len,
                          (unsigned long long)ex.accepted, (unsigned long long)ex.rejected_cm, (unsigned long long)ex.rejected_strict, xsd.c_str());
    if (idx % 1499 == 0) c.sample("{\"particle\":" + jstr(show(top)) + ",\"upa\":" + jstr(upa_name(ex.upa)) + ",\"words\":" + std::to_string(ex.words.size()) + ",\"accepted_words\":" + std::to_string(ex.accepted) + "}");
}

#include "c08_spaces.hpp"

int main(int argc, char** argv) {
    Args a(argc, argv);
    std::string space = a.str("space", "particles");
    std::string tier = a.str("tier", "quick");
    xml_init();
    Runner R;
    R.name = space;
    if (space == "particles") {
        g_len = (int)a.num("len", 6);
        g_full = (int)a.num("full", 4);
        g_shallow_len = (int)a.num("shallow", 3);
        g_wordcap = (size_t)a.num("wordcap", 6000);
        g_alldeep_max = (size_t)a.num("alldeepmax", 800);
        g_cfgmask = (unsigned)a.num("cfgs", 0xff);
        g_skip_known = a.str("known", "skip") == "skip";
        probe_defects();
        for (int i = 0; i < 6; i++) if (a.num("assume-fixed", 0) & (1 << i)) g_defect_active[i] = false;   // development aid: pretend the witness of defect i passes
        g_ncfg = (int)a.num("ncfg", tier == "thorough" ? 8 : 4);
        build_particle_space(tier, a.str("family", "all"));
        // schemas with many words: all words on IG/SAX2/full and SG/DOM/nofull, the other six configurations on the words of length <= shallow
        for (int sc : {IG, SG}) for (int api : {SAX2, DOM}) for (int full = 1; full >= 0; full--)
            g_cfgs.push_back({sc, api, full != 0, (sc == IG && api == SAX2 && full) || (sc == SG && api == DOM && !full)});
        if (a.has("grep")) {   // development aid: keep only the particles whose compact form contains all '+'-separated substrings
            std::vector<Particle> keep; std::string g = a.str("grep");
            for (auto& p : PSPACE) { std::string sh = show(p); bool ok = true; size_t st = 0;
                while (st <= g.size()) { size_t e = g.find('+', st); std::string part = g.substr(st, e == std::string::npos ? e : e - st); if (sh.find(part) == std::string::npos) ok = false; if (e == std::string::npos) break; st = e + 1; }
                if (ok) keep.push_back(p); }
            PSPACE = keep;
        }
        if (a.has("from")) { uint64_t f = a.num("from"), n = a.num("count", 1); PSPACE = std::vector<Particle>(PSPACE.begin() + f, PSPACE.begin() + std::min<uint64_t>(PSPACE.size(), f + n)); }
        R.total = PSPACE.size();
        R.fn = run_particle;
        R.describe = [](uint64_t i) { return "{\"particle\":" + jstr(show(PSPACE[i])) + ",\"schema\":" + jstr(particle_schema(PSPACE[i])) + "}"; };
        R.extra_json = "\"alphabet\":5,\"k\":" + std::to_string(g_len) + ",\"bounds\":{\"schemas\":" + std::to_string(PSPACE.size()) + ",\"full_len\":" + std::to_string(g_full) +
                       ",\"viable_prefix_len\":" + std::to_string(g_len) + ",\"ladder_len\":" + std::to_string(LADDER_LEN) + "}";
        if (a.has("count-only")) { printf("schemas=%zu\n", PSPACE.size()); return 0; }
    } else if (!setup_space(space, tier, a, R)) {
        fprintf(stderr, "unknown space %s\n", space.c_str());
        return 2;
    }
    return R.main_tail(a);
}
