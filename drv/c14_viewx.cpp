// c14_viewx - explicit-state exploration of live DOM views (NodeIterator, TreeWalker, live lists, NamedNodeMap,
// getElementById, XPath snapshots, Range) under tree mutation, in lock-step with an independent reference model.
//
//   --space explore --views V --depth K     breadth-first search by depth over operation histories; a state is a history
//                                            replayed on a fresh document; states are merged on a canonical key (tree dump by
//                                            node identity + hidden and observable state of every view)
//   --space witnesses                        executes the witness history of every KNOWN_DEFECTS entry without guards
//   --history "op;op;..."                    verbose replay of one history (explorer-free path)
//   --guard auto|on|off                      KNOWN_DEFECTS guards: auto = on only while the witness still fails (default)
//
// One "case" of the sharded runner = the expansion of one frontier state (all enabled operations tried from it).
#include "c14_world.hpp"

#include <array>
#include <dirent.h>
#include <unordered_set>

using namespace xv;
using namespace c14;

struct H128 {
    uint64_t a, b;
    bool operator==(const H128& o) const { return a == o.a && b == o.b; }
    bool operator<(const H128& o) const { return a != o.a ? a < o.a : b < o.b; }
};
struct H128Hash { size_t operator()(const H128& h) const { return (size_t)(h.a ^ (h.b * 0x9E3779B97F4A7C15ULL)); } };
static H128 hash128(const std::string& s) {
    H128 h;
    h.a = fnv(s);
    uint64_t x = 0xcbf29ce484222325ULL ^ 0x5bd1e9955bd1e995ULL;
    for (unsigned char c : s) { x = (x ^ c) * 0x100000001b3ULL; x ^= x >> 29; }
    h.b = x;
    return h;
}
static std::string hex128(const H128& h) { char b[40]; snprintf(b, sizeof b, "%016llx%016llx", (unsigned long long)h.a, (unsigned long long)h.b); return b; }

// ---------------------------------------------------------------- exploration state shared with the workers (inherited over fork)
static std::vector<std::string> g_frontier;              // histories of the states to expand at the current level
static std::unordered_set<H128, H128Hash> g_visited;     // keys of every state discovered so far
static Alpha g_alpha;
static bool g_lastLevel = false;
static std::string g_succPrefix;                         // successor side files: <prefix><pid>
static FILE* g_succ = nullptr;
static std::unordered_set<H128, H128Hash> g_seenLocal;   // successor keys already written by this worker at this level
struct InFlight { volatile uint64_t idx; char op[120]; };
static InFlight* g_inflight = nullptr;                   // per worker: the op being executed (crash attribution)

static void note_inflight(uint64_t idx, const std::string& op) {
    if (!g_inflight) return;
    int w = xv::g_worker >= 0 && xv::g_worker < 64 ? xv::g_worker : 0;
    g_inflight[w].idx = idx;
    snprintf(g_inflight[w].op, sizeof g_inflight[w].op, "%s", op.c_str());
}

static void expand_case(uint64_t idx, Ctx& c) {
    const std::string& hist = g_frontier[idx];
    std::vector<VOp> h = parse_history(hist);
    note_inflight(idx, "<replay>");
    int failedAt = -1;
    World* w = build_world(h, nullptr, false, &failedAt);
    if (!w) { c.violation("replay-divergence", "\"history\":" + jstr(hist) + ",\"failed_at\":" + std::to_string(failedAt)); return; }
    std::string key0 = w->key();
    std::vector<VOp> ops = enabled_ops(w->ref, g_alpha);
    c.count("states_expanded");
    c.count("enabled_ops", ops.size());
    if (c.verbose) printf("state [%s]\n  key %s\n  %zu enabled operations\n", hist.c_str(), key0.c_str(), ops.size());
    if (!g_succ && !c.verbose && !g_succPrefix.empty()) {
        std::string p = g_succPrefix + std::to_string((long)getpid());
        g_succ = fopen(p.c_str(), "a");
        g_seenLocal.clear();
    }
    for (const VOp& op : ops) {
        if (!w) {
            w = build_world(h, nullptr, false);
            if (!w) { c.violation("replay-divergence", "\"history\":" + jstr(hist)); return; }
        }
        note_inflight(idx, op.str());
        Sink S; S.ctx = &c; S.history = hist;
        size_t nodes0 = w->ref.n.size();
        ApplyResult r = w->apply(op, S, true);
        if (r == AR_SKIPPED) { c.count("ops_not_applicable"); continue; }
        if (r == AR_GUARDED) { c.count("transitions_guarded"); continue; }   // world untouched
        c.count("transitions");
        if (r == AR_VIOLATION) {  // the state is corrupted: do not explore beyond it
            c.count("transitions_violating");
            delete w; w = nullptr;
            continue;
        }
        std::string key1 = w->key();
        if (c.verbose) printf("  %-40s -> %s\n", op.str().c_str(), key1 == key0 ? "(same state)" : key1.c_str());
        if (key1 == key0 && w->ref.n.size() == nodes0) { c.count("transitions_selfloop"); continue; }  // state unchanged: keep using this world
        H128 hk = hash128(key1);
        c.count("transitions_state_changing");
        if (!g_visited.count(hk) && g_seenLocal.insert(hk).second) {
            if (g_succ) {
                if (g_lastLevel) fprintf(g_succ, "%s %c\n", hex128(hk).c_str(), w->anyLiveView() ? 'V' : '-');
                else fprintf(g_succ, "%s %c %s%s%s\n", hex128(hk).c_str(), w->anyLiveView() ? 'V' : '-', hist.c_str(), hist.empty() ? "" : ";", op.str().c_str());
            }
        }
        delete w; w = nullptr;
    }
    delete w;
    if (g_succ) fflush(g_succ);
    if (idx % 997 == 0 && !hist.empty()) c.sample("{\"state_history\":" + jstr(hist) + ",\"enabled_ops\":" + std::to_string(ops.size()) + ",\"key\":" + jstr(key0) + "}");
}

// ---------------------------------------------------------------- known-defect witnesses
static int run_history_verbose(const std::string& hist, Ctx& c, bool verbose, const std::string& tag = "") {
    std::vector<VOp> h = parse_history(hist);
    World w;
    Sink S; S.ctx = &c; S.tag = tag;
    std::string done;
    for (size_t i = 0; i < h.size(); i++) {
        S.history = done;
        ApplyResult r = w.apply(h[i], S, true);
        if (verbose) printf("  step %zu %-36s %s\n      state: %s\n      ref:   %s\n", i, h[i].str().c_str(),
                            r == AR_OK ? "ok" : r == AR_SKIPPED ? "NOT APPLICABLE" : r == AR_GUARDED ? "GUARDED (known defect)" : "VIOLATION", w.key().c_str(), w.treeR().c_str());
        if (r == AR_SKIPPED || r == AR_GUARDED || r == AR_VIOLATION) break;   // beyond a violation the two sides have diverged
        if (!done.empty()) done += ";";
        done += h[i].str();
    }
    return S.nviol;
}
static void witness_case(uint64_t idx, Ctx& c) {
    bool saved[8];
    for (int i = 0; i < 8; i++) { saved[i] = g_guard[i]; g_guard[i] = false; }
    note_inflight(idx, KNOWN_DEFECTS[idx].history);
    int before = (int)c.cnt["violations"];
    run_history_verbose(KNOWN_DEFECTS[idx].history, c, c.verbose, "\"known_defect\":" + jstr(KNOWN_DEFECTS[idx].id));
    c.count((int)c.cnt["violations"] != before ? std::string("witness_fails:") + KNOWN_DEFECTS[idx].id : std::string("witness_passes:") + KNOWN_DEFECTS[idx].id);
    for (int i = 0; i < 8; i++) g_guard[i] = saved[i];
}
// executes the witness of defect i in a forked child; true if the defect is still present (violation or crash)
static bool defect_present(int i) {
    fflush(nullptr);
    pid_t p = fork();
    if (p == 0) {
        int fd = open("/dev/null", O_WRONLY);
        if (fd >= 0) { dup2(fd, 2); dup2(fd, 1); }
        for (int k = 0; k < 8; k++) g_guard[k] = false;
        Ctx c;
        int v = run_history_verbose(KNOWN_DEFECTS[i].history, c, false);
        _exit(v ? 1 : 0);
    }
    int st = 0;
    waitpid(p, &st, 0);
    return !(WIFEXITED(st) && WEXITSTATUS(st) == 0);
}

// ---------------------------------------------------------------- tiny JSON helpers for merging the per-level runner outputs
static std::string slurp(const std::string& p) {
    FILE* f = fopen(p.c_str(), "r");
    if (!f) return "";
    std::string s; char b[65536]; size_t n;
    while ((n = fread(b, 1, sizeof b, f)) > 0) s.append(b, n);
    fclose(f);
    return s;
}
static size_t skip_value(const std::string& s, size_t i) {  // i at first char of a JSON value -> index after it
    if (s[i] == '"') { for (i++; i < s.size() && s[i] != '"'; i++) if (s[i] == '\\') i++; return i + 1; }
    if (s[i] == '{' || s[i] == '[') {
        int d = 0;
        for (; i < s.size(); i++) {
            if (s[i] == '"') { i = skip_value(s, i) - 1; continue; }
            if (s[i] == '{' || s[i] == '[') d++;
            if (s[i] == '}' || s[i] == ']') { d--; if (d == 0) return i + 1; }
        }
        return i;
    }
    while (i < s.size() && s[i] != ',' && s[i] != '}' && s[i] != ']') i++;
    return i;
}
static std::string top_field(const std::string& s, const std::string& key) {  // raw text of a top-level field
    size_t i = 1;
    while (i < s.size() && s[i] != '}') {
        if (s[i] == ',' || s[i] == ' ' || s[i] == '\n') { i++; continue; }
        size_t ke = skip_value(s, i);
        std::string k = s.substr(i + 1, ke - i - 2);
        i = ke + 1;  // past ':'
        size_t ve = skip_value(s, i);
        if (k == key) return s.substr(i, ve - i);
        i = ve;
    }
    return "";
}
static std::vector<std::string> array_items(const std::string& arr) {
    std::vector<std::string> r;
    size_t i = 1;
    while (i < arr.size() && arr[i] != ']') {
        if (arr[i] == ',' || arr[i] == ' ') { i++; continue; }
        size_t e = skip_value(arr, i);
        r.push_back(arr.substr(i, e - i));
        i = e;
    }
    return r;
}
static void merge_counters(const std::string& obj, std::map<std::string, uint64_t>& cnt) {
    size_t i = 1;
    while (i < obj.size() && obj[i] != '}') {
        if (obj[i] == ',') { i++; continue; }
        size_t ke = skip_value(obj, i);
        std::string k = obj.substr(i + 1, ke - i - 2);
        i = ke + 1;
        size_t ve = skip_value(obj, i);
        cnt[k] += strtoull(obj.substr(i, ve - i).c_str(), nullptr, 10);
        i = ve;
    }
}

struct SuccRec { H128 k; char flag; std::string hist; };

int main(int argc, char** argv) {
    Args a(argc, argv);
    std::string space = a.str("space", "explore");
    std::string guard = a.str("guard", "auto");
    int depth = (int)a.num("depth", 3);
    g_alpha.maxViews = (int)a.num("views", 1);
    g_alpha.maxCreated = (int)a.num("created", 1);
    g_alpha.profile = a.str("alphabet", "full") == "reduced" ? 1 : a.str("alphabet", "full") == "medium" ? 2 : a.str("alphabet", "full") == "traversal" ? 3 : 0;
    g_alpha.attrOpsAlways = a.num("attrs-always", 0) != 0;
    xml_init(false, true);

    // KNOWN_DEFECTS: decide which guards are active
    std::string guardJson = "{";
    for (int i = 0; i < N_KNOWN; i++) {
        bool on = guard == "on" ? true : guard == "off" ? false : defect_present(i);
        g_guard[i] = on;
        guardJson += std::string(i ? "," : "") + jstr(KNOWN_DEFECTS[i].id) + ":" + (on ? "1" : "0");
    }
    guardJson += "}";

    if (a.has("bench")) {
        std::vector<VOp> h = parse_history(a.str("bench"));
        int N = 20000;
        struct timespec t1, t2;
        clock_gettime(CLOCK_MONOTONIC, &t1);
        for (int i = 0; i < N; i++) { World w; }
        clock_gettime(CLOCK_MONOTONIC, &t2);
        printf("empty world: %.1f us\n", ((t2.tv_sec - t1.tv_sec) * 1e9 + (t2.tv_nsec - t1.tv_nsec)) / 1e3 / N);
        clock_gettime(CLOCK_MONOTONIC, &t1);
        for (int i = 0; i < N; i++) { World* w = build_world(h, nullptr, false); delete w; }
        clock_gettime(CLOCK_MONOTONIC, &t2);
        printf("replay no probe: %.1f us\n", ((t2.tv_sec - t1.tv_sec) * 1e9 + (t2.tv_nsec - t1.tv_nsec)) / 1e3 / N);
        clock_gettime(CLOCK_MONOTONIC, &t1);
        for (int i = 0; i < N; i++) { World* w = build_world(h, nullptr, true); std::string k = w->key(); delete w; }
        clock_gettime(CLOCK_MONOTONIC, &t2);
        printf("replay probe+key: %.1f us\n", ((t2.tv_sec - t1.tv_sec) * 1e9 + (t2.tv_nsec - t1.tv_nsec)) / 1e3 / N);
        return 0;
    }
    if (a.has("history")) {
        if (a.num("noguard", 0)) for (int i = 0; i < 8; i++) g_guard[i] = false;
        Ctx c; c.verbose = true;
        int v = run_history_verbose(a.str("history"), c, true);
        for (auto& s : c.viol) printf("violation: %s\n", s.c_str());
        printf("violations=%d\n", v);
        return v ? 1 : 0;
    }

    g_inflight = (InFlight*)mmap(nullptr, sizeof(InFlight) * 64, PROT_READ | PROT_WRITE, MAP_SHARED | MAP_ANONYMOUS, -1, 0);
    memset((void*)g_inflight, 0, sizeof(InFlight) * 64);
    int workers = (int)a.num("workers", 16);
    std::string out = a.str("out", "/dev/stdout");

    if (space == "witnesses") {
        Runner R; R.name = space; R.total = N_KNOWN; R.fn = witness_case;
        R.describe = [](uint64_t i) { return "{\"known_defect\":" + jstr(KNOWN_DEFECTS[i].id) + ",\"what\":" + jstr(KNOWN_DEFECTS[i].what) + ",\"history\":" + jstr(KNOWN_DEFECTS[i].history) + "}"; };
        R.extra_json = "\"known_defects_present\":" + guardJson;
        return R.main_tail(a);
    }
    if (space == "idtable") {
        // getElementById under ID churn with keys that are FORCED to collide in the document's open-addressing ID table (997 slots, double
        // hashing: a key with k = hash(id, 996) + 1 probes k, 2k, 3k ...).  Five elements carry fixed ID strings chosen with the public
        // XMLString::hash so that two share a probe sequence (k = b), one sits on their second probe (k = 2b), one on the third (k = 3b) and
        // one is unrelated; operations: give element i its ID attribute / remove it / re-value it to a spare colliding string.  EVERY history
        // of <= depth operations is executed; after every step getElementById of every string ever used must return exactly the element that
        // currently carries it.
        static std::vector<std::u16string> IDS;   // 0,1: k=b   2: k=2b   3: k=3b   4: unrelated   5: spare with k=b
        if (IDS.empty()) {
            const XMLSize_t b = 1;
            std::map<XMLSize_t, std::vector<std::u16string>> byK;
            for (int n = 0; n < 400000 && (byK[b].size() < 3 || byK[2 * b].empty() || byK[3 * b].empty() || byK[500].empty()); n++) {
                std::string t = "n" + std::to_string(n); std::u16string u(t.begin(), t.end());
                XMLSize_t k = XMLString::hash((const XMLCh*)u.c_str(), 996) + 1;
                if (k == b || k == 2 * b || k == 3 * b || k == 500) byK[k].push_back(u);
            }
            if (byK[b].size() < 3 || byK[2 * b].empty() || byK[3 * b].empty() || byK[500].empty()) { fprintf(stderr, "idtable: no colliding strings found\n"); return 3; }
            IDS = {byK[b][0], byK[b][1], byK[2 * b][0], byK[3 * b][0], byK[500][0], byK[b][2]};
        }
        static int idDepth = 5;
        idDepth = (int)a.num("depth", 5);
        static const int NOPS = 15;   // 0..4 add id to element i, 5..9 remove it, 10..14 re-value element i to the spare string (or back)
        Runner R; R.name = space; R.total = words_upto(NOPS, idDepth);
        R.fn = [](uint64_t idx, Ctx& c) {
            std::vector<int> ops = word_at(idx, NOPS, idDepth);
            static const XMLCh ls[] = {'L', 'S', 0};
            DOMImplementation* impl = DOMImplementationRegistry::getDOMImplementation(ls);
            DOMDocument* d = impl->createDocument();
            static const XMLCh rN[] = {'r', 0}, eN[] = {'e', 0}, idN[] = {'i', 'd', 0};
            DOMElement* r = d->createElement(rN); d->appendChild(r);
            DOMElement* e[5]; int cur[5];   // cur[i]: index into IDS of the value element i carries as ID, -1 none
            for (int i = 0; i < 5; i++) { e[i] = d->createElement(eN); r->appendChild(e[i]); cur[i] = -1; }
            std::string hist;
            for (int op : ops) {
                int i = op % 5, kind = op / 5;
                hist += (kind == 0 ? "add" : kind == 1 ? "remove" : "revalue") + std::to_string(i) + ";";
                if (kind == 0) { if (cur[i] >= 0) { c.count("idtable_skipped_noop"); continue; } e[i]->setAttribute(idN, (const XMLCh*)IDS[i].c_str()); e[i]->setIdAttribute(idN, true); cur[i] = i; }
                else if (kind == 1) { if (cur[i] < 0) { c.count("idtable_skipped_noop"); continue; } e[i]->removeAttribute(idN); cur[i] = -1; }
                else {
                    if (cur[i] < 0) { c.count("idtable_skipped_noop"); continue; }
                    int nv = cur[i] == 5 ? i : 5;
                    bool taken = false; for (int j = 0; j < 5; j++) if (j != i && cur[j] == nv) taken = true;
                    if (taken) { c.count("idtable_skipped_duplicate_value"); continue; }
                    e[i]->setAttribute(idN, (const XMLCh*)IDS[nv].c_str()); cur[i] = nv;
                }
                for (int v = 0; v < 6; v++) {
                    DOMElement* want = nullptr; for (int j = 0; j < 5; j++) if (cur[j] == v) want = e[j];
                    DOMElement* got = d->getElementById((const XMLCh*)IDS[v].c_str());
                    c.count("id_lookups"); if (want) c.count("id_lookups_hit");
                    if (got != want) { c.violation("idtable-getElementById", "\"history\":" + jstr(hist) + ",\"value_index\":" + std::to_string(v) + ",\"expected\":" + (want ? "\"element\"" : "\"null\"") + ",\"observed\":" + (got ? "\"element\"" : "\"null\"")); break; }
                }
            }
            c.count("idtable_histories");
            d->release();
        };
        R.describe = [](uint64_t i) { std::string h; for (int o : word_at(i, NOPS, idDepth)) h += std::to_string(o) + ","; return "{\"ops\":" + jstr(h) + "}"; };
        R.extra_json = "\"depth\":" + std::to_string(idDepth) + ",\"alphabet\":15";
        return R.main_tail(a);
    }
    if (space == "longtext") {
        // Range content operations on one long Text node: lengths and offsets around the 4000-character stack buffers of
        // DOMRangeImpl::traverseTextNode.  doc -> r -> [t(len L), e]; range A = (t,o)-(r,2), range B = (r,0)-(t,o); operation in
        // {cloneContents, extractContents, deleteContents, toString}; range C = (t,o)-(t,L); expected strings by substring arithmetic.
        static const size_t LENS[] = {10, 3998, 3999, 4000, 4001, 7999, 8001, 12000};
        static const int NL = sizeof(LENS) / sizeof(LENS[0]);
        struct LT {
            static std::vector<size_t> offs(size_t L) {
                std::set<size_t> o = {0, 1, 2, L / 2, L - 2, L - 1, L};
                for (size_t x : {3997u, 3998u, 3999u, 4000u, 4001u, 4002u}) { if (x <= L) o.insert(x); if (L >= x) o.insert(L - x); }
                return std::vector<size_t>(o.begin(), o.end());
            }
        };
        static std::vector<std::array<size_t, 4>> CASES;   // len index, offset, side, op
        for (int li = 0; li < NL; li++) for (size_t o : LT::offs(LENS[li])) for (size_t side = 0; side < 3; side++) for (size_t op = 0; op < 4; op++) CASES.push_back({(size_t)li, o, side, op});
        Runner R; R.name = space; R.total = CASES.size();
        R.fn = [](uint64_t i, Ctx& c) {
            auto cs = CASES[i];
            size_t L = LENS[cs[0]], o = cs[1]; bool left = cs[2] != 1, same = cs[2] == 2; int op = (int)cs[3];   // side 2: both boundary points in the text node, (t,o)-(t,L)
            std::u16string txt; for (size_t k = 0; k < L; k++) txt += (char16_t)(u'a' + (k % 23));
            static const XMLCh ls[] = {'L', 'S', 0};
            DOMImplementation* impl = DOMImplementationRegistry::getDOMImplementation(ls);
            DOMDocument* d = impl->createDocument();
            static const XMLCh rN[] = {'r', 0}, eN[] = {'e', 0};
            DOMElement* r = d->createElement(rN); d->appendChild(r);
            DOMText* t = d->createTextNode((const XMLCh*)txt.c_str());
            DOMElement* e = d->createElement(eN);
            if (left) { r->appendChild(t); r->appendChild(e); } else { r->appendChild(e); r->appendChild(t); }
            DOMRange* rg = d->createRange();
            if (same) { rg->setStart(t, o); rg->setEnd(t, L); } else if (left) { rg->setStart(t, o); rg->setEnd(r, 2); } else { rg->setStart(r, 0); rg->setEnd(t, o); }
            std::u16string sel = left ? txt.substr(o) : txt.substr(0, o), rest = left ? txt.substr(0, o) : txt.substr(o);
            std::string where = "\"len\":" + std::to_string(L) + ",\"offset\":" + std::to_string(o) + ",\"side\":" + (same ? "\"both-in-text\"" : left ? "\"start-in-text\"" : "\"end-in-text\"") + ",\"op\":" + std::to_string(op);
            DOMDocumentFragment* f = nullptr;
            if (op == 3) {
                std::u16string str = (const char16_t*)rg->toString();
                if (str != sel) c.violation("longtext-toString", where + ",\"problem\":\"toString has length " + std::to_string(str.size()) + " expected " + std::to_string(sel.size()) + "\"");
            }
            else if (op == 0) f = rg->cloneContents(); else if (op == 1) f = rg->extractContents(); else rg->deleteContents();
            std::u16string after = (const char16_t*)t->getData();
            if (after != (op == 0 || op == 3 ? txt : rest)) c.violation("longtext-source-node", where + ",\"problem\":\"text left in the tree has length " + std::to_string(after.size()) + "\"");
            if (f) {
                DOMNode* k = left ? f->getFirstChild() : f->getLastChild();
                std::u16string got = k && k->getNodeType() == DOMNode::TEXT_NODE ? std::u16string((const char16_t*)k->getNodeValue()) : (!k && sel.empty()) ? u"" : u"<no text node>";   // a collapsed range gives an empty fragment
                if (got != sel) c.violation("longtext-fragment", where + ",\"problem\":\"fragment text has length " + std::to_string(got.size()) + " expected " + std::to_string(sel.size()) + "\"");
                c.count("fragments_compared");
            }
            c.count("range_content_ops_on_long_text");
            d->release();
        };
        R.describe = [](uint64_t i) { auto cs = CASES[i]; return "{\"len\":" + std::to_string(LENS[cs[0]]) + ",\"offset\":" + std::to_string(cs[1]) + ",\"side\":" + std::to_string(cs[2]) + ",\"op\":" + std::to_string(cs[3]) + "}"; };
        return R.main_tail(a);
    }
    if (space != "explore") { fprintf(stderr, "unknown space\n"); return 2; }

    // ------------------------------------------------------------ replay of one global case index
    bool replay = a.has("only");
    uint64_t only = (uint64_t)a.num("only", 0);

    struct timespec ts;
    clock_gettime(CLOCK_MONOTONIC, &ts);
    double t0 = ts.tv_sec + ts.tv_nsec * 1e-9;
    double deadline = a.has("deadline") ? (double)a.num("deadline") : 0;

    std::map<std::string, uint64_t> cnt;
    std::vector<std::string> viols, samples;
    std::string levelsJson = "[";
    uint64_t caseOffset = 0, statesWithView = 0, totalCases = 0;
    g_frontier = {""};
    {
        World w0;
        g_visited.insert(hash128(w0.key()));
    }
    bool flaky = false;
    std::string tmpBase = (out == "/dev/stdout" ? std::string("/verif/build/run/c14-") + std::to_string((long)getpid()) : out);
    for (int L = 0; L < depth; L++) {
        g_lastLevel = L == depth - 1;
        if (replay) {
            if (only < caseOffset + g_frontier.size()) {
                Ctx c; c.verbose = true; c.idx = only;
                g_succPrefix.clear();
                expand_case(only - caseOffset, c);
                for (auto& v : c.viol) printf("  violation: %s\n", v.c_str());
                printf("  violations=%llu\n", (unsigned long long)c.cnt["violations"]);
                return c.cnt["violations"] ? 1 : 0;
            }
        }
        g_succPrefix = tmpBase + ".succ.L" + std::to_string(L) + ".";
        clock_gettime(CLOCK_MONOTONIC, &ts);
        double tl0 = ts.tv_sec + ts.tv_nsec * 1e-9;
        Runner R;
        R.name = "explore-L" + std::to_string(L);
        R.total = g_frontier.size();
        R.fn = expand_case;
        R.workers = replay ? 1 : workers;
        R.out = tmpBase + ".L" + std::to_string(L) + ".json";
        if (a.has("case-timeout")) R.case_timeout_s = (double)a.num("case-timeout");
        if (deadline > 0) {
            clock_gettime(CLOCK_MONOTONIC, &ts);
            double left = deadline - (ts.tv_sec + ts.tv_nsec * 1e-9 - t0);
            R.deadline_s = left > 1 ? left : 1;
        }
        R.describe = [](uint64_t i) {
            std::string op = "?";
            for (int w = 0; w < 64; w++) if (g_inflight[w].idx == i && g_inflight[w].op[0]) op = (const char*)g_inflight[w].op;
            return "{\"state_history\":" + jstr(g_frontier[i]) + ",\"op_in_flight\":" + jstr(op) + "}";
        };
        for (int w = 0; w < 64; w++) { g_inflight[w].idx = UINT64_MAX; g_inflight[w].op[0] = 0; }
        int rr = R.run();
        if (rr == -2) flaky = true;
        std::string js = slurp(R.out);
        unlink(R.out.c_str());
        std::map<std::string, uint64_t> lc;
        merge_counters(top_field(js, "counters"), lc);
        for (auto& kv : lc) cnt[kv.first] += kv.second;
        for (auto& v : array_items(top_field(js, "violations"))) {
            std::string vv = v;
            // rewrite the level-local case number into the global one (used by --only)
            if (vv.compare(0, 8, "{\"case\":") == 0) {
                size_t e = vv.find_first_of(",}", 8);
                long long cn = atoll(vv.substr(8, e - 8).c_str());
                if (cn >= 0) vv = "{\"case\":" + std::to_string((unsigned long long)(cn + caseOffset)) + ",\"level\":" + std::to_string(L) + vv.substr(e);
            }
            if (viols.size() < 60) viols.push_back(vv);
        }
        for (auto& s : array_items(top_field(js, "samples"))) if (samples.size() < 8) samples.push_back(s);
        // collect successor side files
        std::vector<SuccRec> recs;
        {
            size_t slash = g_succPrefix.rfind('/');
            std::string dir = g_succPrefix.substr(0, slash), base = g_succPrefix.substr(slash + 1);
            DIR* d = opendir(dir.c_str());
            std::vector<std::string> files;
            if (d) {
                while (struct dirent* e = readdir(d)) if (strncmp(e->d_name, base.c_str(), base.size()) == 0) files.push_back(dir + "/" + e->d_name);
                closedir(d);
            }
            for (auto& fpath : files) {
                FILE* f = fopen(fpath.c_str(), "r");
                if (f) {
                    char* line = nullptr; size_t cap = 0; ssize_t n;
                    while ((n = getline(&line, &cap, f)) > 0) {
                        if (n < 35) continue;
                        if (line[n - 1] == '\n') line[--n] = 0;
                        SuccRec r;
                        char h1[17], h2[17];
                        memcpy(h1, line, 16); h1[16] = 0; memcpy(h2, line + 16, 16); h2[16] = 0;
                        r.k.a = strtoull(h1, nullptr, 16); r.k.b = strtoull(h2, nullptr, 16);
                        r.flag = line[33];
                        if (n > 35) r.hist = line + 35;
                        recs.push_back(std::move(r));
                    }
                    free(line);
                    fclose(f);
                }
                unlink(fpath.c_str());
            }
        }
        std::sort(recs.begin(), recs.end(), [](const SuccRec& x, const SuccRec& y) { return x.k == y.k ? x.hist < y.hist : x.k < y.k; });
        std::vector<std::string> next;
        uint64_t newStates = 0;
        for (size_t i = 0; i < recs.size(); i++) {
            if (i && recs[i].k == recs[i - 1].k) continue;
            if (!g_visited.insert(recs[i].k).second) continue;
            newStates++;
            if (recs[i].flag == 'V') statesWithView++;
            if (!g_lastLevel) next.push_back(recs[i].hist);
        }
        std::sort(next.begin(), next.end());
        char lb[256];
        snprintf(lb, sizeof lb, "%s{\"depth\":%d,\"states_expanded\":%llu,\"transitions\":%llu,\"new_states\":%llu,\"wall_s\":%.1f}", L ? "," : "", L,
                 (unsigned long long)g_frontier.size(), (unsigned long long)lc["transitions"], (unsigned long long)newStates,
                 (clock_gettime(CLOCK_MONOTONIC, &ts), ts.tv_sec + ts.tv_nsec * 1e-9 - tl0));
        levelsJson += lb;
        caseOffset += g_frontier.size();
        totalCases += g_frontier.size();
        g_frontier.swap(next);
        if (cnt["deadline_skipped"]) break;
    }
    levelsJson += "]";
    cnt["states"] = g_visited.size();
    cnt["states_with_live_view"] = statesWithView;
    clock_gettime(CLOCK_MONOTONIC, &ts);
    double wall = ts.tv_sec + ts.tv_nsec * 1e-9 - t0;
    if (replay) { printf("case %llu not found\n", (unsigned long long)only); return 2; }
    FILE* f = fopen(out.c_str(), "w");
    if (!f) { perror("out"); return 2; }
    fprintf(f, "{\"space\":%s,\"total\":%llu,\"workers\":%d,\"wall_s\":%.3f,\"depth\":%d,\"bounds\":{\"views\":%d,\"depth\":%d,\"levels\":%s,\"known_defects_guarded\":%s},",
            jstr("explore-v" + std::to_string(g_alpha.maxViews) + "-d" + std::to_string(depth) + (g_alpha.profile == 1 ? "-reduced" : g_alpha.profile == 2 ? "-medium" : g_alpha.profile == 3 ? "-traversal" : "-full")).c_str(), (unsigned long long)totalCases, workers, wall, depth,
            g_alpha.maxViews, depth, levelsJson.c_str(), guardJson.c_str());
    fprintf(f, "\"counters\":{");
    bool first = true;
    for (auto& kv : cnt) { fprintf(f, "%s%s:%llu", first ? "" : ",", jstr(kv.first).c_str(), (unsigned long long)kv.second); first = false; }
    fprintf(f, "},\"violations\":[");
    for (size_t i = 0; i < viols.size(); i++) fprintf(f, "%s%s", i ? "," : "", viols[i].c_str());
    fprintf(f, "],\"samples\":[");
    for (size_t i = 0; i < samples.size(); i++) fprintf(f, "%s%s", i ? "," : "", samples[i].c_str());
    fprintf(f, "]}\n");
    fclose(f);
    if (flaky) return 3;
    return cnt["violations"] ? 1 : 0;
}
