// c19_access - C19 space A: "no external resource is touched unless permitted; resolver protocol; base-URI resolution".
//
// One case = (word over reference tokens, configuration).  The document and every entity it can reach live in the in-memory VFS;
// every open / net access / resolver offer of the parse is recorded in ONE chronological log and compared with a reference model
// of the *permitted set* (written from doc/program-*.xml and the public parser headers, see docs/c19.md):
//   A  every default access (file manager / net accessor) hits a resource that the document references AND the configuration permits
//   B  with a resolver installed, an offer for that reference precedes the default access
//   C  the identifier offered denotes (RFC 2396, independent resolver c19_uri.hpp) the reference resolved against the base URI of the
//      entity that contains the reference; the public identifier is passed through
//   D  a source supplied by the resolver is used instead of the default mechanism (no default access for it at all)
//   E  the interposed libc entry points fopen/open/openat/socket/connect are never reached during a parse
#include "xv_xml.hpp"
#include "c19_uri.hpp"
#include <dlfcn.h>
#include <stdarg.h>
#include <sys/socket.h>
#include <xercesc/util/FileManagers/PosixFileMgr.hpp>
using namespace xv;
using namespace c19;

// ------------------------------------------------------------------------------------------------ libc interposition
static volatile int g_in_parse = 0;
static volatile uint64_t g_libc_calls = 0;
static char g_libc_first[256];
static void libc_note(const char* fn, const char* path) {
    if (!g_in_parse) return;
    if (!g_libc_calls) snprintf(g_libc_first, sizeof g_libc_first, "%s(%s)", fn, path ? path : "");
    g_libc_calls++;
}
extern "C" {
FILE* fopen(const char* p, const char* m) {
    static FILE* (*real)(const char*, const char*) = (FILE * (*)(const char*, const char*)) dlsym(RTLD_NEXT, "fopen");
    libc_note("fopen", p);
    return real(p, m);
}
FILE* fopen64(const char* p, const char* m) {
    static FILE* (*real)(const char*, const char*) = (FILE * (*)(const char*, const char*)) dlsym(RTLD_NEXT, "fopen64");
    libc_note("fopen64", p);
    return real(p, m);
}
int open(const char* p, int flags, ...) {
    static int (*real)(const char*, int, ...) = (int (*)(const char*, int, ...))dlsym(RTLD_NEXT, "open");
    int mode = 0;
    if (flags & (O_CREAT | O_TMPFILE)) { va_list ap; va_start(ap, flags); mode = va_arg(ap, int); va_end(ap); }
    libc_note("open", p);
    return real(p, flags, mode);
}
int open64(const char* p, int flags, ...) {
    static int (*real)(const char*, int, ...) = (int (*)(const char*, int, ...))dlsym(RTLD_NEXT, "open64");
    int mode = 0;
    if (flags & (O_CREAT | O_TMPFILE)) { va_list ap; va_start(ap, flags); mode = va_arg(ap, int); va_end(ap); }
    libc_note("open64", p);
    return real(p, flags, mode);
}
int openat(int fd, const char* p, int flags, ...) {
    static int (*real)(int, const char*, int, ...) = (int (*)(int, const char*, int, ...))dlsym(RTLD_NEXT, "openat");
    int mode = 0;
    if (flags & (O_CREAT | O_TMPFILE)) { va_list ap; va_start(ap, flags); mode = va_arg(ap, int); va_end(ap); }
    libc_note("openat", p);
    return real(fd, p, flags, mode);
}
int openat64(int fd, const char* p, int flags, ...) {
    static int (*real)(int, const char*, int, ...) = (int (*)(int, const char*, int, ...))dlsym(RTLD_NEXT, "openat64");
    int mode = 0;
    if (flags & (O_CREAT | O_TMPFILE)) { va_list ap; va_start(ap, flags); mode = va_arg(ap, int); va_end(ap); }
    libc_note("openat64", p);
    return real(fd, p, flags, mode);
}
int socket(int d, int t, int pr) {
    static int (*real)(int, int, int) = (int (*)(int, int, int))dlsym(RTLD_NEXT, "socket");
    libc_note("socket", "");
    return real(d, t, pr);
}
int connect(int fd, const struct sockaddr* a, socklen_t l) {
    static int (*real)(int, const struct sockaddr*, socklen_t) = (int (*)(int, const struct sockaddr*, socklen_t))dlsym(RTLD_NEXT, "connect");
    libc_note("connect", "");
    return real(fd, a, l);
}
}
// proves that calls made from inside libxerces-c (through its PLT) reach the interposers above
static bool interposer_selftest() {
    PosixFileMgr fm;
    g_libc_calls = 0; g_in_parse = 1;
    FileHandle h = fm.fileOpen("/dev/null", false, XMLPlatformUtils::fgMemoryManager);
    g_in_parse = 0;
    bool ok = (g_libc_calls == 1);
    if (h) fm.fileClose(h, XMLPlatformUtils::fgMemoryManager);
    g_libc_calls = 0; g_libc_first[0] = 0;
    return ok;
}

// ------------------------------------------------------------------------------------------------ unified chronological log
// All events go to g_vfs->log:  open|miss|real <path>, net|netmiss <url>, offer <flavour>|<pub>|<sys>|<base>, resolved <raw>
struct ANet : public XMLNetAccessor {
    XMLCh id[4] = {'c', '1', '9', 0};
    const XMLCh* getId() const override { return id; }
    BinInputStream* makeNew(const XMLURL& url, const XMLNetHTTPInfo* = 0) override {
        std::string u = narrow(url.getURLText());
        auto it = g_vfs->files.find(u);
        if (it == g_vfs->files.end()) { g_vfs->log.push_back("netmiss " + u); return 0; }
        g_vfs->log.push_back("net " + u);
        return new MemStream(it->second.data);
    }
};

// resolver: supplies = map raw system id -> (content, system id to report); absent => returns null
struct Supply { std::string content, sysId; };
struct AResolver : public EntityResolver, public XMLEntityResolver, public DOMLSResourceResolver {
    std::map<std::string, Supply> supplies;
    InputSource* resolveEntity(const XMLCh* const pub, const XMLCh* const sys) override {
        g_vfs->log.push_back("offer sax|" + narrow(pub) + "|" + narrow(sys) + "|");
        return make(narrow(sys));
    }
    InputSource* resolveEntity(XMLResourceIdentifier* rid) override {
        g_vfs->log.push_back("offer xml|" + narrow(rid->getPublicId()) + "|" + narrow(rid->getSystemId()) + "|" + narrow(rid->getBaseURI()));
        return make(narrow(rid->getSystemId()));
    }
    DOMLSInput* resolveResource(const XMLCh* const, const XMLCh* const, const XMLCh* const pub, const XMLCh* const sys, const XMLCh* const base) override {
        g_vfs->log.push_back("offer ls|" + narrow(pub) + "|" + narrow(sys) + "|" + narrow(base));
        InputSource* s = make(narrow(sys));
        return s ? new Wrapper4InputSource(s) : 0;
    }
    InputSource* make(const std::string& raw) {
        auto it = supplies.find(raw);
        if (it == supplies.end()) return 0;
        g_vfs->log.push_back("resolved " + raw);
        return new PlanSource(it->second.content, it->second.sysId);
    }
};

// ------------------------------------------------------------------------------------------------ configuration space
// resolver dimension: (API, flavour, mode)
struct ResDim { int api; int flavour; /*0 none 1 SAX EntityResolver 2 XMLEntityResolver 3 DOMLSResourceResolver*/ int mode; /*1 source for top-level references 2 null 3 source for every reference that has nested references*/ const char* name; };
static const ResDim RES[] = {
    {SAX2, 0, 0, "none@SAX2"}, {SAX1, 0, 0, "none@SAX1"}, {DOM, 0, 0, "none@DOM"}, {DOMLS, 0, 0, "none@DOMLS"},
    {SAX1, 1, 1, "sax-source@SAX1"}, {SAX2, 1, 2, "sax-null@SAX2"},
    {DOM, 2, 1, "xml-source@DOM"}, {SAX2, 2, 2, "xml-null@SAX2"}, {SAX2, 2, 1, "xml-source@SAX2"}, {DOMLS, 2, 2, "xml-null@DOMLS"},
    {DOMLS, 3, 1, "ls-source@DOMLS"}, {DOMLS, 3, 2, "ls-null@DOMLS"},
    // mode 3: the resolver supplies every reference that itself contains references (container entities, schema documents with directives or a
    // DOCTYPE), at whatever depth, and declines the leaves: with disableDefaultEntityResolution nothing at all may then be opened by default
    {SAX2, 2, 3, "xml-source-for-containers@SAX2"}, {DOMLS, 3, 3, "ls-source-for-containers@DOMLS"},
};
static const int NRES = sizeof(RES) / sizeof(RES[0]);

struct ACfg {
    bool disableDefRes, loadExtDTD, loadSchema, doSchema, stdUri, urlBase;
    int val, scanner, res;
    std::string str() const {
        char b[256];
        snprintf(b, sizeof b, "%s val%d %s%s%s%s%s%s %s", ScnName[scanner], val, disableDefRes ? "disableDefRes " : "", loadExtDTD ? "" : "noLoadExtDTD ",
                 doSchema ? "doSchema " : "", loadSchema ? "" : "noLoadSchema ", stdUri ? "stdUri " : "", urlBase ? "base=file:///v/doc.xml" : "base=/v/doc.xml", RES[res].name);
        return b;
    }
};
static int g_nres = NRES;
static bool g_gating32 = false;  // scanner x {disableDefaultEntityResolution, loadExternalDTD, loadSchema}; validation never, doSchema on, no resolver, SAX2
static bool g_resolver96 = false;  // scanner x disableDefaultEntityResolution x the 12 (API, resolver) settings; validation auto, everything else permissive, file: URL base
static bool g_gating192 = false;  // like "gating" with standard-uri-conformant off and the plain-path document base (the two most significant digits fixed at 0)
static uint64_t ncfg() { return g_gating32 ? 32 : g_resolver96 ? 8ull * NRES : g_gating192 ? 192 : 2ull * 2 * 3 * 2 * 2 * 4 * 2 * 2 * g_nres; }
static ACfg cfg_at(uint64_t i) {
    ACfg c;
    if (g_gating32) {
        c.res = 0; c.val = 0; c.doSchema = true; c.stdUri = false; c.urlBase = false;
        c.scanner = (int)(i % 4); i /= 4;
        c.disableDefRes = i & 1; i >>= 1;
        c.loadExtDTD = !(i & 1); i >>= 1;
        c.loadSchema = !(i & 1);
        return c;
    }
    if (g_resolver96) {
        c.val = 2; c.doSchema = true; c.loadSchema = true; c.loadExtDTD = true; c.stdUri = false; c.urlBase = true;
        c.res = (int)(i % NRES); i /= NRES;
        c.scanner = (int)(i % 4); i /= 4;
        c.disableDefRes = i & 1;
        return c;
    }
    c.res = (int)(i % g_nres); i /= g_nres;
    c.scanner = (int)(i % 4); i /= 4;
    c.val = (int)(i % 3); i /= 3;
    c.disableDefRes = i & 1; i >>= 1;
    c.loadExtDTD = !(i & 1); i >>= 1;
    c.loadSchema = !(i & 1); i >>= 1;
    c.doSchema = i & 1; i >>= 1;
    c.stdUri = i & 1; i >>= 1;
    c.urlBase = i & 1;
    return c;
}

// ------------------------------------------------------------------------------------------------ token alphabet
enum Kind { K_EXTSUB_SYS, K_EXTSUB_PUB, K_GE_USED, K_GE_DECL, K_GE_ATTR, K_PE, K_SCHEMALOC, K_NONS, K_IMPORT, K_INCLUDE, K_REDEFINE, K_SCHEMA_DOCTYPE, K_GE_VIA_PE, K_PE_VIA_PE, K_IMPORT_DT, K_INCLUDE_DT, K_REDEFINE_DT, NKIND };
static const char* KindName[] = {"extsubset-SYSTEM", "extsubset-PUBLIC", "GE-declared+used", "GE-declared-only", "GE-in-attribute", "PE", "xsi:schemaLocation", "xsi:noNamespaceSchemaLocation",
                                 "xs:import", "xs:include", "xs:redefine", "schema-with-DOCTYPE", "GE-declared-through-internal-PE+used", "PE-declared-through-internal-PE",
                                 "xs:import-of-schema-with-DOCTYPE", "xs:include-of-schema-with-DOCTYPE", "xs:redefine-of-schema-with-DOCTYPE"};
enum IdKind { I_SAMEDIR, I_SUBDIR, I_PARENT, I_FILEURL, I_HTTP, I_NESTED, NIDKIND };
static const char* IdName[] = {"a.x", "sub/b.x", "../c.x", "file:///v/d.x", "http://h/e.x", "relative-inside-/v/sub/"};
static const int NTOK = NKIND * NIDKIND;

enum Cls { C_EXTSUB, C_GE, C_GE_DECLONLY, C_GE_ATTR, C_PE, C_CONT_PE, C_CONT_GE, C_HINT, C_MAINSCHEMA, C_IMPORT, C_INCLUDE, C_REDEFINE, C_SCHEMADTD };
static const char* ClsName[] = {"extsubset", "GE", "GE-declonly", "GE-attr", "PE", "container-PE", "container-GE", "schema-hint", "main-schema", "import", "include", "redefine", "schema-doctype-dtd"};

struct Ref {
    int pos, cls, parent, depth;
    std::string raw, pub, containerBase, abs, target;
    bool reachable = true;
};
struct Built {
    std::string doc, base;
    std::map<std::string, std::string> files;   // target (path or URL) -> bytes
    std::vector<Ref> refs;
    std::vector<std::string> decoys;
};

static const char* XSI = "http://www.w3.org/2001/XMLSchema-instance";
static std::string schema_doc(const std::string& tns, const std::string& elem, const std::string& directive = "", const std::string& doctype = "") {
    std::string s = doctype + "<xs:schema xmlns:xs=\"http://www.w3.org/2001/XMLSchema\"";
    if (!tns.empty()) s += " targetNamespace=\"" + tns + "\"";
    s += ">" + directive + "<xs:element name=\"" + elem + "\" type=\"xs:string\"/></xs:schema>";
    return s;
}

static std::string raw_id(int idk, const std::string& p, const std::string& ext) {
    switch (idk) {
    case I_SAMEDIR: return "a" + p + "." + ext;
    case I_SUBDIR: return "sub/b" + p + "." + ext;
    case I_PARENT: return "../c" + p + "." + ext;
    case I_FILEURL: return "file:///v/d%2541" + p + "." + ext;   // names the file /v/d%41<p>.<ext>: an escaped percent sign must be decoded once, not twice
    case I_HTTP: return "http://h/e" + p + "." + ext;
    }
    return "n" + p + "." + ext;  // nested: relative id used inside an entity that lives in /v/sub/
}

static Built build(const std::vector<int>& word, bool urlBase) {
    Built b;
    b.base = urlBase ? "file:///v/doc.xml" : "/v/doc.xml";
    std::string extid[2], subset, rootattrs, content;
    bool needDoctype = false;
    auto add_ref = [&](int pos, int cls, const std::string& raw, const std::string& pub, const std::string& cbase, int parent) {
        Ref r;
        r.pos = pos; r.cls = cls; r.raw = raw; r.pub = pub; r.containerBase = cbase; r.parent = parent;
        r.depth = parent < 0 ? 0 : b.refs[parent].depth + 1;
        r.abs = uri_resolve(cbase, raw);
        r.target = uri_target(r.abs);
        b.refs.push_back(r);
        return (int)b.refs.size() - 1;
    };
    auto decoy = [&](const std::string& raw, const std::string& content_) {
        // where a resolution against the document's base (instead of the containing entity's) would end up
        std::string t = uri_target(uri_resolve(b.base, raw));
        b.files[t] = content_;
        b.decoys.push_back(t);
    };
    int nExtSub = 0;
    for (size_t wi = 0; wi < word.size(); wi++) {
        int kind = word[wi] / NIDKIND, idk = word[wi] % NIDKIND;
        int pos = (int)wi + 1;
        std::string p = std::to_string(pos);
        bool nested = (idk == I_NESTED);
        // where a schema hint attribute of this token goes: root element for position 1, a child element otherwise
        auto place_attr = [&](const std::string& attr) {
            if (pos == 1) rootattrs += " " + attr;
            else content += "<c" + p + " " + attr + "/>";
        };
        switch (kind) {
        case K_EXTSUB_SYS:
        case K_EXTSUB_PUB: {
            needDoctype = true;
            std::string pub = kind == K_EXTSUB_PUB ? "-//XV//P" + p : "";
            std::string leaf = "<!ATTLIST r q" + p + " CDATA #IMPLIED>";
            int r;
            std::string raw;
            if (!nested) { raw = raw_id(idk, p, "dtd"); r = add_ref(pos, C_EXTSUB, raw, pub, b.base, -1); b.files[b.refs[r].target] = leaf; }
            else {
                raw = "sub/k" + p + ".dtd";
                r = add_ref(pos, C_EXTSUB, raw, pub, b.base, -1);
                b.files[b.refs[r].target] = "<!ENTITY % n" + p + " SYSTEM \"n" + p + ".ent\">%n" + p + ";";
                int n = add_ref(pos, C_PE, "n" + p + ".ent", "", b.refs[r].abs, r);
                b.files[b.refs[n].target] = leaf;
                decoy("n" + p + ".ent", leaf);
            }
            extid[nExtSub < 2 ? nExtSub : 1] = kind == K_EXTSUB_PUB ? "PUBLIC \"" + pub + "\" \"" + raw + "\"" : "SYSTEM \"" + raw + "\"";
            if (nExtSub >= 1) for (auto& rr : b.refs) if (rr.pos == pos) rr.reachable = false;  // a second DOCTYPE is a fatal error
            nExtSub++;
            break;
        }
        case K_GE_USED:
        case K_GE_DECL:
        case K_GE_ATTR: {
            needDoctype = true;
            int cls = kind == K_GE_USED ? C_GE : kind == K_GE_DECL ? C_GE_DECLONLY : C_GE_ATTR;
            std::string leaf = "<x" + p + "/>";
            if (!nested) {
                std::string raw = raw_id(idk, p, "ent");
                subset += "<!ENTITY g" + p + " SYSTEM \"" + raw + "\">";
                int r = add_ref(pos, cls, raw, "", b.base, -1);
                b.files[b.refs[r].target] = leaf;
            } else {  // the declaration lives in an external parameter entity in /v/sub/: its base URI governs
                std::string craw = "sub/k" + p + ".ent";
                subset += "<!ENTITY % k" + p + " SYSTEM \"" + craw + "\">%k" + p + ";";
                int c = add_ref(pos, C_CONT_PE, craw, "", b.base, -1);
                b.files[b.refs[c].target] = "<!ENTITY g" + p + " SYSTEM \"n" + p + ".ent\">";
                int r = add_ref(pos, cls, "n" + p + ".ent", "", b.refs[c].abs, c);
                b.files[b.refs[r].target] = leaf;
                decoy("n" + p + ".ent", leaf);
            }
            if (kind == K_GE_USED) content += "&g" + p + ";";
            if (kind == K_GE_ATTR) content += "<c" + p + " v=\"&g" + p + ";\"/>";
            break;
        }
        case K_PE: {
            needDoctype = true;
            std::string leaf = "<!ATTLIST r a" + p + " CDATA #IMPLIED>";
            if (!nested) {
                std::string raw = raw_id(idk, p, "ent");
                subset += "<!ENTITY % p" + p + " SYSTEM \"" + raw + "\">%p" + p + ";";
                int r = add_ref(pos, C_PE, raw, "", b.base, -1);
                b.files[b.refs[r].target] = leaf;
            } else {
                std::string craw = "sub/k" + p + ".ent";
                subset += "<!ENTITY % k" + p + " SYSTEM \"" + craw + "\">%k" + p + ";";
                int c = add_ref(pos, C_CONT_PE, craw, "", b.base, -1);
                b.files[b.refs[c].target] = "<!ENTITY % n" + p + " SYSTEM \"n" + p + ".ent\">%n" + p + ";";
                int r = add_ref(pos, C_PE, "n" + p + ".ent", "", b.refs[c].abs, c);
                b.files[b.refs[r].target] = leaf;
                decoy("n" + p + ".ent", leaf);
            }
            break;
        }
        case K_GE_VIA_PE: {
            // the declaration text <!ENTITY g SYSTEM 'id'> is the replacement text of an internal parameter entity; its base URI is that of the
            // external entity in which the %xp; reference is expanded (document, or - nested - the external subset /v/sub/k.dtd), not of the place of use
            needDoctype = true;
            std::string leaf = "<x" + p + "/>";
            if (!nested) {
                std::string raw = raw_id(idk, p, "ent");
                subset += "<!ENTITY % xp" + p + " \"<!ENTITY g" + p + " SYSTEM '" + raw + "'>\">%xp" + p + ";";
                int r = add_ref(pos, C_GE, raw, "", b.base, -1);
                b.files[b.refs[r].target] = leaf;
            } else {
                std::string craw = "sub/k" + p + ".dtd";
                int c = add_ref(pos, C_EXTSUB, craw, "", b.base, -1);
                // trailing newline: an external subset that *ends* with a reference to an internal PE is rejected by IG/DG scanners with "markup declaration
                // expected" (well-formedness defect outside C19, reported in docs/c19.md); the newline keeps this kind about base URIs
                b.files[b.refs[c].target] = "<!ENTITY % xp" + p + " \"<!ENTITY g" + p + " SYSTEM 'n" + p + ".ent'>\">%xp" + p + ";\n";
                int r = add_ref(pos, C_GE, "n" + p + ".ent", "", b.refs[c].abs, c);
                b.files[b.refs[r].target] = leaf;
                decoy("n" + p + ".ent", leaf);
                extid[nExtSub < 2 ? nExtSub : 1] = "SYSTEM \"" + craw + "\"";
                if (nExtSub >= 1) for (auto& rr : b.refs) if (rr.pos == pos) rr.reachable = false;  // a second DOCTYPE is a fatal error
                nExtSub++;
            }
            content += "&g" + p + ";";
            break;
        }
        case K_PE_VIA_PE: {
            // <!ENTITY % p SYSTEM 'id'> declared through an internal PE; nested: declared inside the external PE /v/sub/k.ent but *referenced from the
            // document's internal subset*, so that a resolution against the entity current at the reference would hit the decoy
            needDoctype = true;
            std::string leaf = "<!ATTLIST r a" + p + " CDATA #IMPLIED>";
            if (!nested) {
                std::string raw = raw_id(idk, p, "ent");
                subset += "<!ENTITY % xp" + p + " \"<!ENTITY &#37; p" + p + " SYSTEM '" + raw + "'>\">%xp" + p + ";%p" + p + ";";
                int r = add_ref(pos, C_PE, raw, "", b.base, -1);
                b.files[b.refs[r].target] = leaf;
            } else {
                std::string craw = "sub/k" + p + ".ent";
                subset += "<!ENTITY % k" + p + " SYSTEM \"" + craw + "\">%k" + p + ";%n" + p + ";";
                int c = add_ref(pos, C_CONT_PE, craw, "", b.base, -1);
                b.files[b.refs[c].target] = "<!ENTITY % xp" + p + " \"<!ENTITY &#37; n" + p + " SYSTEM 'n" + p + ".ent'>\">%xp" + p + ";";
                int r = add_ref(pos, C_PE, "n" + p + ".ent", "", b.refs[c].abs, c);
                b.files[b.refs[r].target] = leaf;
                decoy("n" + p + ".ent", leaf);
            }
            break;
        }
        case K_SCHEMALOC:
        case K_NONS: {
            std::string tns = kind == K_SCHEMALOC ? "urn:n" + p : "";
            std::string sch = schema_doc(tns, "z" + p);
            auto attr = [&](const std::string& raw) {
                return kind == K_SCHEMALOC ? "xsi:schemaLocation=\"" + tns + " " + raw + "\"" : "xsi:noNamespaceSchemaLocation=\"" + raw + "\"";
            };
            if (!nested) {
                std::string raw = raw_id(idk, p, "xsd");
                place_attr(attr(raw));
                int r = add_ref(pos, C_HINT, raw, "", b.base, -1);
                b.files[b.refs[r].target] = sch;
            } else {  // the hint is written inside an external general entity that lives in /v/sub/
                needDoctype = true;
                std::string craw = "sub/k" + p + ".ent";
                subset += "<!ENTITY k" + p + " SYSTEM \"" + craw + "\">";
                content += "&k" + p + ";";
                int c = add_ref(pos, C_CONT_GE, craw, "", b.base, -1);
                b.files[b.refs[c].target] = "<c" + p + " xmlns:xsi=\"" + XSI + "\" " + attr("n" + p + ".xsd") + "/>";
                int r = add_ref(pos, C_HINT, "n" + p + ".xsd", "", b.refs[c].abs, c);
                b.files[b.refs[r].target] = sch;
                decoy("n" + p + ".xsd", sch);
            }
            break;
        }
        case K_IMPORT_DT:
        case K_INCLUDE_DT:
        case K_REDEFINE_DT:
        case K_IMPORT:
        case K_INCLUDE:
        case K_REDEFINE:
        case K_SCHEMA_DOCTYPE: {
            // *_DT: the schema document reached through the directive has itself a DOCTYPE with an external subset (a third-level reference read by
            // the helper parser of the schema traverser)
            bool leafDt = kind == K_IMPORT_DT || kind == K_INCLUDE_DT || kind == K_REDEFINE_DT;
            if (leafDt) kind = kind == K_IMPORT_DT ? K_IMPORT : kind == K_INCLUDE_DT ? K_INCLUDE : K_REDEFINE;
            std::string leafDoctype = leafDt ? "<!DOCTYPE xs:schema SYSTEM \"q" + p + ".dtd\">" : "";
            std::string mtns = "urn:m" + p;
            std::string mraw = (nested ? "sub/m" : "m") + p + ".xsd";
            std::string ext = kind == K_SCHEMA_DOCTYPE ? "dtd" : "xsd";
            std::string raw = nested ? "n" + p + "." + ext : raw_id(idk, p, ext);
            place_attr("xsi:schemaLocation=\"" + mtns + " " + mraw + "\"");
            int m = add_ref(pos, C_MAINSCHEMA, mraw, "", b.base, -1);
            std::string leaf, directive, doctype;
            int cls;
            if (kind == K_IMPORT) { cls = C_IMPORT; directive = "<xs:import namespace=\"urn:i" + p + "\" schemaLocation=\"" + raw + "\"/>"; leaf = schema_doc("urn:i" + p, "y" + p, "", leafDoctype); }
            else if (kind == K_INCLUDE) { cls = C_INCLUDE; directive = "<xs:include schemaLocation=\"" + raw + "\"/>"; leaf = schema_doc(mtns, "y" + p, "", leafDoctype); }
            else if (kind == K_REDEFINE) { cls = C_REDEFINE; directive = "<xs:redefine schemaLocation=\"" + raw + "\"/>"; leaf = schema_doc(mtns, "y" + p, "", leafDoctype); }
            else { cls = C_SCHEMADTD; doctype = "<!DOCTYPE xs:schema SYSTEM \"" + raw + "\">"; leaf = "<!ATTLIST xs:schema q CDATA #IMPLIED>"; }
            b.files[b.refs[m].target] = schema_doc(mtns, "z" + p, directive, doctype);
            int r = add_ref(pos, cls, raw, "", b.refs[m].abs, m);
            b.files[b.refs[r].target] = leaf;
            if (nested) decoy(raw, leaf);
            if (leafDt) {
                int q = add_ref(pos, C_SCHEMADTD, "q" + p + ".dtd", "", b.refs[r].abs, r);
                b.files[b.refs[q].target] = "<!ATTLIST xs:schema q CDATA #IMPLIED>";
            }
            break;
        }
        }
    }
    std::string d;
    if (needDoctype) {
        d += "<!DOCTYPE r";
        if (!extid[0].empty()) d += " " + extid[0];
        if (!subset.empty()) d += " [" + subset + "]";
        d += ">";
        if (nExtSub >= 2) d += "<!DOCTYPE r " + extid[1] + ">";
    }
    d += "<r xmlns:xsi=\"" + std::string(XSI) + "\"" + rootattrs + ">" + content + "</r>";
    b.doc = d;
    return b;
}

// ------------------------------------------------------------------------------------------------ reference model: permitted set
// wanted(ref, cfg): the configuration allows the parser to dereference this reference at all (through the resolver or by default)
static bool wanted(const Built& b, int ri, const ACfg& c) {
    const Ref& r = b.refs[ri];
    if (!r.reachable) return false;
    if (r.parent >= 0 && !wanted(b, r.parent, c)) return false;
    bool dtd = (c.scanner == IG || c.scanner == DG);                                   // WFXMLScanner / SGXMLScanner ignore the DOCTYPE
    // DGXMLScanner / WFXMLScanner do no schema processing; for SGXMLScanner "schema processing [is] on by default, and setting [it] to off has no effect"
    bool sch = ((c.scanner == IG && c.doSchema) || c.scanner == SG) && c.loadSchema;
    switch (r.cls) {
    case C_EXTSUB: return dtd && (c.loadExtDTD || c.val != 0);                         // load-external-dtd is ignored when validation is on (always/auto)
    case C_GE: case C_PE: case C_CONT_PE: case C_CONT_GE: return dtd;
    case C_GE_DECLONLY: return false;                                                   // never referenced
    case C_GE_ATTR: return false;                                                       // WFC "No External Entity References": fatal
    case C_HINT: case C_MAINSCHEMA: return sch;
    case C_IMPORT: case C_INCLUDE: case C_REDEFINE: return true;                        // whenever the enclosing schema document was obtained
    case C_SCHEMADTD: return true;                                                      // the schema document's own DOCTYPE (see docs: loadExternalDTD/scanner are about the instance)
    }
    return false;
}

struct KnownDefect { const char* id; const char* what; };
static const KnownDefect KNOWN_DEFECTS[] = {
    {"sax-resolver-unresolved-systemid",
     "SAX EntityResolver::resolveEntity is offered the system identifier exactly as written (relative), not resolved against the base URI of the containing entity "
     "(EntityResolver.hpp: 'the SAX parser must resolve it fully before reporting it'); SAXParser/SAX2XMLReaderImpl/XercesDOMParser::resolveEntity pass "
     "XMLResourceIdentifier::getSystemId() through and drop getBaseURI()"},
    {"schema-doctype-ignores-disable-default-entity-resolution",
     "the internal XSDDOMParser that reads schema documents (resolveSchemaGrammar, TraverseSchema include/import/redefine) does not inherit disableDefaultEntityResolution: "
     "an external subset / entity referenced from a schema document's DOCTYPE is opened by the default mechanism although the feature is set"},
};
static bool g_strict = false;  // --strict 1: report KNOWN_DEFECTS as violations

// ------------------------------------------------------------------------------------------------ the parse
struct Outcome { int fatals = 0, errs = 0, warns = 0; std::string exc; std::vector<std::string> errors; };

static Outcome do_parse(const ACfg& c, const Built& b, AResolver& res) {
    ParseResult r;
    const ResDim& rd = RES[c.res];
    bool ns = c.doSchema;  // schema processing needs namespaces (SGXMLScanner always processes namespaces)
    MemBufInputSource src((const XMLByte*)b.doc.data(), b.doc.size(), X16(b.base).p(), false);
    g_in_parse = 1;
    try {
        if (rd.api == SAX1) {
            SAXParser p;
            Sax1H h; h.r = &r;
            p.useScanner(X16(ScnName[c.scanner]).p());
            p.setValidationScheme(c.val == 0 ? SAXParser::Val_Never : c.val == 1 ? SAXParser::Val_Always : SAXParser::Val_Auto);
            p.setDoNamespaces(ns); p.setDoSchema(c.doSchema); p.setLoadExternalDTD(c.loadExtDTD); p.setLoadSchema(c.loadSchema);
            p.setDisableDefaultEntityResolution(c.disableDefRes); p.setStandardUriConformant(c.stdUri);
            p.setDocumentHandler(&h); p.setErrorHandler(&h);
            if (rd.flavour == 1) p.setEntityResolver(&res);
            if (rd.flavour == 2) p.setXMLEntityResolver(&res);
            p.parse(src);
        } else if (rd.api == SAX2) {
            std::unique_ptr<SAX2XMLReader> p(XMLReaderFactory::createXMLReader());
            Sax2H h; h.r = &r; h.nsmode = ns;
            p->setProperty(XMLUni::fgXercesScannerName, (void*)X16(ScnName[c.scanner]).p());
            p->setFeature(XMLUni::fgSAX2CoreNameSpaces, ns);
            p->setFeature(XMLUni::fgSAX2CoreValidation, c.val != 0);
            p->setFeature(XMLUni::fgXercesDynamic, c.val == 2);
            p->setFeature(XMLUni::fgXercesSchema, c.doSchema);
            p->setFeature(XMLUni::fgXercesLoadExternalDTD, c.loadExtDTD);
            p->setFeature(XMLUni::fgXercesLoadSchema, c.loadSchema);
            p->setFeature(XMLUni::fgXercesDisableDefaultEntityResolution, c.disableDefRes);
            p->setFeature(XMLUni::fgXercesStandardUriConformant, c.stdUri);
            p->setContentHandler(&h); p->setErrorHandler(&h);
            if (rd.flavour == 1) p->setEntityResolver(&res);
            if (rd.flavour == 2) ((SAX2XMLReaderImpl*)p.get())->setXMLEntityResolver(&res);
            p->parse(src);
        } else if (rd.api == DOM) {
            XercesDOMParser p;
            Sax1H h; h.r = &r;
            p.useScanner(X16(ScnName[c.scanner]).p());
            p.setValidationScheme(c.val == 0 ? XercesDOMParser::Val_Never : c.val == 1 ? XercesDOMParser::Val_Always : XercesDOMParser::Val_Auto);
            p.setDoNamespaces(ns); p.setDoSchema(c.doSchema); p.setLoadExternalDTD(c.loadExtDTD); p.setLoadSchema(c.loadSchema);
            p.setDisableDefaultEntityResolution(c.disableDefRes); p.setStandardUriConformant(c.stdUri);
            p.setErrorHandler(&h);
            if (rd.flavour == 1) p.setEntityResolver(&res);
            if (rd.flavour == 2) p.setXMLEntityResolver(&res);
            p.parse(src);
        } else {
            static const XMLCh ls[] = {'L', 'S', 0};
            DOMImplementationLS* impl = (DOMImplementationLS*)DOMImplementationRegistry::getDOMImplementation(ls);
            DOMLSParser* p = impl->createLSParser(DOMImplementationLS::MODE_SYNCHRONOUS, 0);
            struct Rel { DOMLSParser* p; ~Rel() { p->release(); } } rel{p};
            DomErrH eh; eh.r = &r;
            DOMConfiguration* dc = p->getDomConfig();
            dc->setParameter(XMLUni::fgXercesScannerName, (void*)X16(ScnName[c.scanner]).p());
            dc->setParameter(XMLUni::fgDOMNamespaces, ns);
            // order matters: each of the two parameters overwrites the validation scheme ("validate-if-schema"=false resets it to never)
            if (c.val == 2) { dc->setParameter(XMLUni::fgDOMValidate, false); dc->setParameter(XMLUni::fgDOMValidateIfSchema, true); }
            else { dc->setParameter(XMLUni::fgDOMValidateIfSchema, false); dc->setParameter(XMLUni::fgDOMValidate, c.val == 1); }
            dc->setParameter(XMLUni::fgXercesSchema, c.doSchema);
            dc->setParameter(XMLUni::fgXercesLoadExternalDTD, c.loadExtDTD);
            dc->setParameter(XMLUni::fgXercesLoadSchema, c.loadSchema);
            dc->setParameter(XMLUni::fgDOMDisallowDoctype, false);
            dc->setParameter(XMLUni::fgXercesDisableDefaultEntityResolution, c.disableDefRes);
            dc->setParameter(XMLUni::fgXercesStandardUriConformant, c.stdUri);
            dc->setParameter(XMLUni::fgDOMErrorHandler, &eh);
            if (rd.flavour == 3) dc->setParameter(XMLUni::fgDOMResourceResolver, (DOMLSResourceResolver*)&res);
            if (rd.flavour == 2) dc->setParameter(XMLUni::fgXercesEntityResolver, (XMLEntityResolver*)&res);
            if (rd.flavour == 1) r.exc = "HARNESS:sax-flavour-on-DOMLS";
            MemBufInputSource* s2 = new MemBufInputSource((const XMLByte*)b.doc.data(), b.doc.size(), X16(b.base).p(), false);
            Wrapper4InputSource w(s2, true);
            p->parse(&w);
        }
    }
    XV_CATCH_DOCUMENTED(r)
    g_in_parse = 0;
    Outcome o;
    o.fatals = r.fatals; o.errs = r.errs; o.warns = r.warns; o.exc = r.exc; o.errors = r.errors;
    return o;
}

// ------------------------------------------------------------------------------------------------ case space
static int g_k = 1;
static uint64_t g_nwords = 0;
static std::vector<int> g_tokset;  // tokens in the alphabet (default: all)

static std::vector<int> word_of(uint64_t widx) {
    std::vector<int> w = word_at(widx, g_tokset.size(), g_k);
    for (auto& t : w) t = g_tokset[t];
    return w;
}
static std::string word_str(const std::vector<int>& w) {
    std::string s;
    for (size_t i = 0; i < w.size(); i++) { if (i) s += " + "; s += std::string(KindName[w[i] / NIDKIND]) + "[" + IdName[w[i] % NIDKIND] + "]"; }
    return s.empty() ? "(no reference)" : s;
}

static std::string join_log(const std::vector<std::string>& l) { std::string o; for (auto& s : l) { o += s; o += "\n"; } return o; }

static void run_case(uint64_t idx, Ctx& cx) {
    uint64_t nc = ncfg();
    ACfg c = cfg_at(idx % nc);
    std::vector<int> word = word_of(idx / nc);
    Built b = build(word, c.urlBase);
    const ResDim& rd = RES[c.res];

    g_vfs->clear();
    for (auto& f : b.files) g_vfs->put(f.first, f.second);
    AResolver res;
    std::map<std::string, int> byRaw, byTarget;
    for (size_t i = 0; i < b.refs.size(); i++) { byRaw[b.refs[i].raw] = (int)i; byTarget[b.refs[i].target] = (int)i; }
    if (byRaw.size() != b.refs.size() || byTarget.size() != b.refs.size()) { cx.violation("harness-ambiguous-ids", "\"word\":" + jstr(word_str(word))); return; }
    // source mode: the resolver supplies every top-level reference (under the absolute id the reference denotes) and declines nested ones,
    // so that nested references must be resolved by the default mechanism against the system id of the supplied source
    std::vector<bool> supplied(b.refs.size(), false);
    if (rd.mode == 1)
        for (size_t i = 0; i < b.refs.size(); i++)
            if (b.refs[i].depth == 0) { res.supplies[b.refs[i].raw] = Supply{b.files[b.refs[i].target], b.refs[i].abs}; supplied[i] = true; }
    if (rd.mode == 3) {
        std::vector<bool> hasChild(b.refs.size(), false);
        for (auto& r : b.refs) if (r.parent >= 0) hasChild[r.parent] = true;
        for (size_t i = 0; i < b.refs.size(); i++)
            if (hasChild[i]) { res.supplies[b.refs[i].raw] = Supply{b.files[b.refs[i].target], b.refs[i].abs}; supplied[i] = true; }
    }

    g_libc_calls = 0; g_libc_first[0] = 0;
    Outcome o = do_parse(c, b, res);
    std::vector<std::string> log = g_vfs->log;

    // ---- oracle
    std::string where = "\"word\":" + jstr(word_str(word)) + ",\"config\":" + jstr(c.str()) + ",\"doc\":" + jstr(b.doc);
    auto viol = [&](const std::string& kind, const std::string& what) {
        cx.violation(kind, where + ",\"what\":" + jstr(what) + ",\"log\":" + jstr(join_log(log)));
    };
    auto known = [&](int k, const std::string& what) {
        if (g_strict) viol(std::string("known-defect:") + KNOWN_DEFECTS[k].id, what);
        else cx.count(std::string("known_defect:") + KNOWN_DEFECTS[k].id);
    };
    if (g_libc_calls) viol("libc-access-during-parse", std::string(g_libc_first) + " x" + std::to_string((unsigned long long)g_libc_calls));
    if (o.exc.compare(0, 7, "FOREIGN") == 0 || o.exc.compare(0, 7, "HARNESS") == 0) viol("foreign-exception", o.exc);

    std::vector<bool> offeredYet(b.refs.size(), false), accessed(b.refs.size(), false), resolvedBy(b.refs.size(), false);
    int nAccess = 0, nOffer = 0;
    for (auto& ev : log) {
        size_t sp = ev.find(' ');
        std::string tag = ev.substr(0, sp), arg = ev.substr(sp + 1);
        if (tag == "open" || tag == "miss" || tag == "real" || tag == "net" || tag == "netmiss") {
            nAccess++;
            cx.count("access:" + tag);
            auto it = byTarget.find(arg);
            if (it == byTarget.end()) {
                bool isDecoy = std::find(b.decoys.begin(), b.decoys.end(), arg) != b.decoys.end();
                viol(isDecoy ? "access-resolved-against-wrong-base" : "access-to-unreferenced-resource", ev);
                continue;
            }
            int ri = it->second;
            const Ref& r = b.refs[ri];
            accessed[ri] = true;
            bool w = wanted(b, ri, c);
            if (!w) { viol("access-not-permitted", ev + " (" + ClsName[r.cls] + " is not to be fetched under this configuration)"); continue; }
            if (c.disableDefRes) {
                // adjudicated library defect (see KNOWN_DEFECTS): everything read while a schema document is parsed by the internal XSDDOMParser
                // (accesses made while a schema document is read by the internal XSDDOMParser used to be counted under the defect
                // schema-doctype-ignores-disable-default-entity-resolution; repaired, so they are ordinary violations again)
                viol("default-access-despite-disableDefaultEntityResolution", ev);
                continue;
            }
            if (supplied[ri]) { viol("default-access-although-resolver-supplied-source", ev); continue; }
            if (rd.flavour != 0 && !offeredYet[ri]) viol("default-access-before-resolver-offer", ev);
            if (tag != "open" && tag != "net") viol("harness-missing-file", ev);
        } else if (tag == "offer") {
            nOffer++;
            std::vector<std::string> f;
            size_t i0 = 0;
            while (true) { size_t j = arg.find('|', i0); if (j == std::string::npos) { f.push_back(arg.substr(i0)); break; } f.push_back(arg.substr(i0, j - i0)); i0 = j + 1; }
            if (f.size() < 4) { viol("harness-bad-offer", ev); continue; }
            const std::string &flav = f[0], &pub = f[1], &sys = f[2], &base = f[3];
            cx.count("offer:" + flav);
            // identify the reference: by the identifier as written, or by what the offered identifier denotes
            int ri = -1;
            auto it = byRaw.find(sys);
            if (it != byRaw.end()) ri = it->second;
            else { auto it2 = byTarget.find(uri_target(sys)); if (it2 != byTarget.end()) ri = it2->second; }
            if (ri < 0) { viol("offer-of-unreferenced-identifier", ev); continue; }
            const Ref& r = b.refs[ri];
            offeredYet[ri] = true;
            if (!wanted(b, ri, c)) { viol("offer-not-permitted", ev + " (" + ClsName[r.cls] + " is not to be fetched under this configuration)"); continue; }
            if (pub != r.pub) viol("offer-wrong-public-id", ev + " expected publicId '" + r.pub + "'");
            if (flav == "sax") {
                // no base URI travels with this interface: the identifier itself has to be the resolved one
                if (uri_target(sys) != r.target || (sys != r.abs)) {
                    if (sys == r.raw) known(0, ev + " expected '" + r.abs + "'");
                    else viol("offer-wrong-system-id", ev + " expected '" + r.abs + "'");
                } else cx.count("offer_sax_already_absolute");
            } else {
                std::string got = uri_target(uri_resolve(base, sys));
                if (got != r.target) viol("offer-resolves-to-wrong-resource", ev + " denotes '" + got + "', expected '" + r.target + "' (base of containing entity '" + r.containerBase + "')");
                else if (uri_target(base) != uri_target(r.containerBase)) cx.count("offer_base_differs_but_resolution_equal");
                else cx.count("offer_base_is_containing_entity");
            }
        } else if (tag == "resolved") {
            auto it = byRaw.find(arg);
            if (it != byRaw.end()) resolvedBy[it->second] = true;
            cx.count("resolver_supplied_source");
        }
    }
    // ---- non-vacuity
    cx.count("parses");
    cx.count(std::string("scanner:") + ScnName[c.scanner]);
    if (o.fatals) cx.count("outcome_fatal"); else if (!o.exc.empty()) cx.count("outcome_exception"); else if (o.errs) cx.count("outcome_validity_errors"); else cx.count("outcome_clean");
    if (nAccess) cx.count("cases_with_default_access");
    if (nOffer) cx.count("cases_with_offer");
    bool nontrivial = false;
    for (size_t i = 0; i < b.refs.size(); i++) {
        const Ref& r = b.refs[i];
        bool w = wanted(b, (int)i, c);
        bool got = accessed[i] || resolvedBy[i];
        cx.count("refs");
        if (w) {
            cx.count("refs_permitted");
            if (c.disableDefRes && !supplied[i]) { cx.count(got ? "refs_permitted_but_defres_disabled_fetched" : "refs_blocked_by_disableDefaultEntityResolution"); nontrivial = true; }
            else if (got) { cx.count("refs_permitted_and_fetched"); cx.count(std::string("fetched:") + ClsName[r.cls]); nontrivial = true; if (r.depth) cx.count("nested_resolved_against_container_base"); }
            else if (c.stdUri && !c.urlBase) cx.count("refs_permitted_not_fetched:path-base-rejected-under-standard-uri-conformant");
            else { cx.count("refs_permitted_not_fetched:other"); cx.count(std::string("refs_permitted_not_fetched:other:") + ClsName[r.cls] + (o.fatals ? ":fatal" : ":nofatal")); }
        } else {
            nontrivial = true;
            cx.count("refs_forbidden_and_untouched");
            bool dtd = (c.scanner == IG || c.scanner == DG);
            if (r.cls == C_EXTSUB && dtd && r.reachable) cx.count("forbidden_by:loadExternalDTD-off+validation-off");
            else if ((r.cls == C_HINT || r.cls == C_MAINSCHEMA) && ((c.scanner == IG && c.doSchema) || c.scanner == SG) && !c.loadSchema && (r.parent < 0 || wanted(b, r.parent, c))) cx.count("forbidden_by:loadSchema-off");
            else if ((r.cls == C_HINT || r.cls == C_MAINSCHEMA) && c.scanner == IG && !c.doSchema) cx.count("forbidden_by:doSchema-off");
            else if (!dtd && (r.cls <= C_CONT_GE)) cx.count("forbidden_by:scanner-ignores-DTD");
            else if (r.cls == C_HINT || r.cls == C_MAINSCHEMA) cx.count("forbidden_by:scanner-ignores-schema");
            else if (r.cls == C_GE_DECLONLY) cx.count("forbidden_by:never-referenced");
            else if (r.cls == C_GE_ATTR) cx.count("forbidden_by:wfc-no-external-entity-in-attribute");
            else cx.count("forbidden_by:parent-not-fetched");
        }
        if (r.cls == C_SCHEMADTD && accessed[i] && !c.loadExtDTD && c.val == 0) cx.count("observation:schema_doc_dtd_loaded_with_loadExternalDTD_off_validation_off");
    }
    if (nontrivial) cx.count("nontrivial");
    if (idx % 100003 == 0) cx.sample("{" + where + ",\"log\":" + jstr(join_log(log)) + "}");
    if (cx.verbose) {
        printf("word   : %s\nconfig : %s\ndoc    : %s\n", word_str(word).c_str(), c.str().c_str(), b.doc.c_str());
        for (auto& f : b.files) printf("file   : %-28s %s\n", f.first.c_str(), f.second.c_str());
        for (size_t i = 0; i < b.refs.size(); i++)
            printf("ref %zu  : %-18s raw=%-26s base=%-28s -> %-26s wanted=%d supplied=%d\n", i, ClsName[b.refs[i].cls], b.refs[i].raw.c_str(), b.refs[i].containerBase.c_str(),
                   b.refs[i].target.c_str(), (int)wanted(b, (int)i, c), (int)supplied[i]);
        printf("outcome: fatals=%d errors=%d exc=%s\n", o.fatals, o.errs, o.exc.c_str());
        for (auto& e : o.errors) printf("  err  : %s\n", e.c_str());
        for (auto& e : log) printf("  log  : %s\n", e.c_str());
    }
}

// ------------------------------------------------------------------------------------------------ space witness
// One minimal witness per open library defect, executed strictly (no KNOWN_DEFECTS guard).  A witness that still fails is reported as a violation of kind
// "defect:<id>" (matched by /verif/known_findings.json); a witness that passes (defect repaired) reports nothing.
static const char* WITNESS_ID[] = {"schema-doctype-ignores-disable-default-entity-resolution", "sax-resolver-unresolved-systemid", "pe-expansion-not-counted",
                                   "schema-document-expansions-not-limited"};
static bool fatal_with(const ParseResult& r, const char* sub) { for (auto& e : r.errors) if (e[0] == 'F' && e.find(sub) != std::string::npos) return true; return false; }
static void run_witness(uint64_t idx, Ctx& cx) {
    const char* LIMIT_MSG = "entity expansions in the document";
    std::string kind = std::string("defect:") + WITNESS_ID[idx];
    auto report = [&](const std::string& doc, const std::string& files, const std::string& config, const std::string& expected, const std::string& observed) {
        cx.violation(kind, "\"doc\":" + jstr(doc) + ",\"files\":" + jstr(files) + ",\"config\":" + jstr(config) + ",\"expected\":" + jstr(expected) + ",\"observed\":" + jstr(observed));
        if (cx.verbose) printf("witness %s\n doc      %s\n files    %s\n config   %s\n expected %s\n observed %s\n", WITNESS_ID[idx], doc.c_str(), files.c_str(), config.c_str(), expected.c_str(), observed.c_str());
    };
    cx.count("witnesses_run");
    if (idx == 0 || idx == 1) {
        ACfg c;
        c.disableDefRes = (idx == 0); c.loadExtDTD = true; c.loadSchema = true; c.doSchema = (idx == 0); c.stdUri = false; c.urlBase = false; c.val = 0; c.scanner = IG;
        c.res = idx == 0 ? 8 /* xml-source@SAX2 */ : 5 /* sax-null@SAX2 */;
        std::vector<int> word = {(idx == 0 ? K_SCHEMA_DOCTYPE : K_GE_USED) * NIDKIND + (idx == 0 ? I_SAMEDIR : I_NESTED)};
        Built b = build(word, c.urlBase);
        g_vfs->clear();
        std::string files;
        for (auto& f : b.files) { g_vfs->put(f.first, f.second); if (std::find(b.decoys.begin(), b.decoys.end(), f.first) == b.decoys.end()) files += f.first + " = " + f.second + "\n"; }
        AResolver res;
        if (RES[c.res].mode == 1) for (auto& r : b.refs) if (r.depth == 0) res.supplies[r.raw] = Supply{b.files[r.target], r.abs};
        do_parse(c, b, res);
        std::string log = join_log(g_vfs->log);
        if (idx == 0) {
            // the resolver supplies m1.xsd (which carries <!DOCTYPE xs:schema SYSTEM "a1.dtd">) and declines a1.dtd; nothing may be opened by the default mechanism
            bool opened = false;
            for (auto& ev : g_vfs->log) if (ev.compare(0, 5, "open ") == 0 || ev.compare(0, 4, "net ") == 0 || ev.compare(0, 5, "miss ") == 0) opened = true;
            if (opened) report(b.doc, files, c.str(), "disableDefaultEntityResolution is set: no file/net access by the default mechanism (log without open/net entries)", log);
            else cx.count("witness_passes");
        } else {
            // <!ENTITY g1 SYSTEM "n1.ent"> is declared inside /v/sub/k1.ent: the SAX EntityResolver must be offered the resolved identifier /v/sub/n1.ent
            std::string got = "(no offer for n1.ent)";
            bool ok = false;
            for (auto& ev : g_vfs->log)
                if (ev.compare(0, 10, "offer sax|") == 0 && ev.find("n1.ent") != std::string::npos) { got = ev; ok = (ev == "offer sax||/v/sub/n1.ent|" || ev == "offer sax||file:///v/sub/n1.ent|"); }
            if (!ok) report(b.doc, files, c.str(), "offer sax||/v/sub/n1.ent|  (system identifier resolved against the base URI /v/sub/k1.ent of the entity that contains the declaration)", got + "  -- full log: " + log);
            else cx.count("witness_passes");
        }
        return;
    }
    // expansion-limit witnesses: reference count 3 (e0 -> e1, e1), SecurityManager limit 1  =>  fatal "expansion limit" error expected
    Config c; c.api = SAX2; c.scanner = IG; c.secLimit = 1;
    ParseIO io;
    std::string files;
    g_vfs->clear();
    if (idx == 2) io.bytes = "<!DOCTYPE r [<!ENTITY % p0 \"&#37;p1;&#37;p1;<!--c0-->\"><!ENTITY % p1 \"<!--c1-->\">%p0;]><r/>";
    else {
        c.ns = true; c.schema = true; c.val = 1;
        std::string xsd = "<!DOCTYPE xs:schema [<!ENTITY e0 \"t&e1;&e1;\"><!ENTITY e1 \"t\">]><xs:schema xmlns:xs=\"http://www.w3.org/2001/XMLSchema\"><xs:annotation><xs:documentation>&e0;</xs:documentation>"
                          "</xs:annotation><xs:element name=\"r\" type=\"xs:string\"/></xs:schema>";
        g_vfs->put("/v/s.xsd", xsd);
        files = "/v/s.xsd = " + xsd;
        io.bytes = "<r xmlns:xsi=\"http://www.w3.org/2001/XMLSchema-instance\" xsi:noNamespaceSchemaLocation=\"s.xsd\">x</r>";
    }
    ParseResult r = parse_xerces(c, io);
    if (!fatal_with(r, LIMIT_MSG))
        report(io.bytes, files, std::string("SAX2 IGXMLScanner ") + (idx == 3 ? "namespaces+schema+validation on, " : "") + "SecurityManager entity expansion limit 1",
               std::string("fatal error \"parser has encountered more than '1' entity expansions\": processing expands 3 ") + (idx == 2 ? "parameter-entity references" : "entity references while reading the schema document"),
               "fatal errors: " + std::to_string(r.fatals) + (r.errors.empty() ? ", no error reported, document accepted" : ", reported: " + join(r.errors)));
    else cx.count("witness_passes");
}

int main(int argc, char** argv) {
    Args a(argc, argv);
    xml_init();
    delete XMLPlatformUtils::fgNetAccessor;   // replace the recording accessor by one that writes into the unified log
    g_net = nullptr;
    XMLPlatformUtils::fgNetAccessor = new ANet();
    if (!interposer_selftest()) { fprintf(stderr, "c19_access: libc interposition is not active (link with -rdynamic)\n"); return 3; }
    g_k = (int)a.num("k", 1);
    g_strict = a.num("strict", 0) != 0;
    std::string cfgset = a.str("cfgset", "full");
    if (cfgset == "gating") g_nres = 1;  // none@SAX2 only: scanner x validation x the gating switches x uri/base (768)
    if (cfgset == "gating192") { g_nres = 1; g_gating192 = true; }  // scanner x validation x {disableDefaultEntityResolution, loadExternalDTD, loadSchema, doSchema}
    if (cfgset == "gating32") g_gating32 = true;
    if (cfgset == "resolver96") g_resolver96 = true;
    // --kinds / --ids restrict the alphabet (development aid); default: all 84 tokens
    for (int t = 0; t < NTOK; t++) {
        if (a.has("kind") && t / NIDKIND != a.num("kind")) continue;
        if (a.has("id") && t % NIDKIND != a.num("id")) continue;
        g_tokset.push_back(t);
    }
    g_nwords = words_upto(g_tokset.size(), g_k);
    Runner R;
    R.name = a.str("space", "access");
    if (R.name == "witness") {
        R.total = 4; R.fn = run_witness;
        R.describe = [](uint64_t i) { return "{\"witness\":" + jstr(WITNESS_ID[i]) + "}"; };
        return R.main_tail(a);
    }
    R.total = g_nwords * ncfg();
    R.fn = run_case;
    R.describe = [](uint64_t i) { uint64_t nc = ncfg(); return "{\"word\":" + jstr(word_str(word_of(i / nc))) + ",\"config\":" + jstr(cfg_at(i % nc).str()) + "}"; };
    R.extra_json = "\"alphabet\":" + std::to_string(g_tokset.size()) + ",\"k\":" + std::to_string(g_k) + ",\"configs\":" + std::to_string((unsigned long long)ncfg());
    return R.main_tail(a);
}
