// c10_idc - bounded-exhaustive check of XML Schema identity constraints (property C10).
//
// A *definition* (Def) fixes: constraint kind {unique, key, keyref->key, keyref->unique}, selector, 1-2 fields, the simple types of the
// field carriers (key side / keyref side), the scope shape {root, flat, recursive, up}, and the item alphabet (role x group x position x
// one value symbol per used carrier).  The cases of a definition are ALL lists (words) of length <= L over its item alphabet.
// Every list is rendered to an instance fragment and, independently, to a small tree on which the reference model (c10_ref.hpp) evaluates
// Structures 3.11.4/3.11.5 in the value space.  Scope shapes:
//   root       the constraints sit on the document element; one parse per list;
//   flat       the constraints sit on <g>; a document holds many <g> lines, one list per line (each <g> is an independent scope);
//   recursive  <g> items <g> items </g> items </g>: the same constraint is active twice at different depths;
//   up         key/unique on <h>, keyref on the enclosing <g>: <g> refs <h>keys</h><h>keys</h> refs </g> (node-table propagation).
// Each document is validated by {IGXMLScanner,SGXMLScanner} x {SAX2,DOM}; errors are bucketed by line and classified by message.
//   --space values|root|paths|rootpaths|scopes|growth|witness|file
#include "c10_ref.hpp"
#include "xv_xml.hpp"
using namespace xv;
using namespace c10;

// =============================================================================================== value alphabets
struct VSym {
    std::string elem, attr, logical;   // rendering as element content / attribute value (XML-escaped); character data after XML parsing
    bool core, hasAttr, hasElem;
    std::string rebindPfx, rebindUri;  // element form only: xmlns:pfx="uri" on the carrier element (QName prefix rebinding)
};
static std::vector<VSym> VS[NTYPES];
static const int SYM_ABSENT = -1, SYM_NIL = -2, SYM_DUP = -3;

static void init_values() {
    auto V = [](TypeId t, bool core, const std::string& lex) { VS[t].push_back({lex, lex, lex, core, true, true, "", ""}); };
    auto VX = [](TypeId t, const std::string& elem, const std::string& attr, const std::string& logical) {
        VS[t].push_back({elem, attr, logical, false, !attr.empty(), !elem.empty(), "", ""});
    };
    // index 0/1: lexically different (equal in the value space for all types but string), index 2: a different value
    V(T_STRING, true, "1"); V(T_STRING, true, "01"); V(T_STRING, true, "2"); V(T_STRING, true, " 1 "); V(T_STRING, true, "1.0");
    V(T_STRING, false, ""); VX(T_STRING, "<![CDATA[1]]>", "&#49;", "1"); VX(T_STRING, "0<!--c-->1", "", "01");

    V(T_TOKEN, true, "1"); V(T_TOKEN, true, " 1 "); V(T_TOKEN, true, "2"); V(T_TOKEN, true, "1 2"); V(T_TOKEN, true, " 1  2 ");
    V(T_TOKEN, false, ""); V(T_TOKEN, false, " "); V(T_TOKEN, false, "01"); VX(T_TOKEN, "<![CDATA[1]]>", "&#49;", "1"); VX(T_TOKEN, "1<!--c--> 2", "", "1 2");

    for (TypeId t : {T_INTEGER, T_MYINT}) {
        V(t, true, "1"); V(t, true, "01"); V(t, true, "2"); V(t, true, "+1"); V(t, true, " 1 ");
        V(t, false, "0"); V(t, false, "-0"); V(t, false, "-1"); V(t, false, "18446744073709551617"); V(t, false, "+018446744073709551617");
        VX(t, "<![CDATA[1]]>", "&#49;", "1"); VX(t, "0<!--c-->1", "", "01"); VX(t, "0&#49;", "0&#49;", "01");
    }
    V(T_DECIMAL, true, "1"); V(T_DECIMAL, true, "01"); V(T_DECIMAL, true, "2"); V(T_DECIMAL, true, "1.0"); V(T_DECIMAL, true, " 1 ");
    V(T_DECIMAL, false, "1."); V(T_DECIMAL, false, "+1.00"); V(T_DECIMAL, false, "0"); V(T_DECIMAL, false, "-0.0"); V(T_DECIMAL, false, ".5"); V(T_DECIMAL, false, "0.50");
    V(T_DECIMAL, false, "-1"); V(T_DECIMAL, false, "1.00000000000000000001"); VX(T_DECIMAL, "<![CDATA[1]]>.0", "&#49;.0", "1.0");

    V(T_DATE, true, "2000-01-01Z"); V(T_DATE, true, "2000-01-01+00:00"); V(T_DATE, true, "2000-01-02Z"); V(T_DATE, true, "2000-01-01"); V(T_DATE, true, " 2000-01-01 ");
    V(T_DATE, false, "2000-01-01-00:00"); V(T_DATE, false, "2000-01-02+14:00"); V(T_DATE, false, "2000-01-01-10:00"); V(T_DATE, false, "2000-01-02");
    V(T_DATE, false, "2000-01-01+14:00"); V(T_DATE, false, "1999-12-31-10:00"); V(T_DATE, false, "2000-01-01+01:00"); VX(T_DATE, "2000-01-01<![CDATA[Z]]>", "2000-01-01&#90;", "2000-01-01Z");

    V(T_QNAME, true, "p:a"); V(T_QNAME, true, "q:a"); V(T_QNAME, true, "p:b"); V(T_QNAME, true, "a"); V(T_QNAME, true, " p:a ");
    V(T_QNAME, false, "x:a"); V(T_QNAME, false, "q:b"); V(T_QNAME, false, "b");
    VS[T_QNAME].push_back({"p:a", "", "p:a", false, false, true, "p", "urn:x"});   // <k xmlns:p="urn:x">p:a</k> = {urn:x}a = x:a

    V(T_BOOLEAN, true, "1"); V(T_BOOLEAN, true, "true"); V(T_BOOLEAN, true, "0"); V(T_BOOLEAN, true, "false"); V(T_BOOLEAN, true, " true ");
    VX(T_BOOLEAN, "<![CDATA[tr]]>ue", "tr&#117;e", "true");

    V(T_FLOAT, true, "1"); V(T_FLOAT, true, "1.0"); V(T_FLOAT, true, "2"); V(T_FLOAT, true, "1e0"); V(T_FLOAT, true, " 1 ");
    V(T_FLOAT, false, "INF"); V(T_FLOAT, false, "-INF"); V(T_FLOAT, false, "NaN"); V(T_FLOAT, false, "0"); V(T_FLOAT, false, "-0"); V(T_FLOAT, false, "1.0E0");
    V(T_FLOAT, false, "100"); V(T_FLOAT, false, "1E2"); V(T_FLOAT, false, "0.1"); V(T_FLOAT, false, "0.10"); V(T_FLOAT, false, "+1"); V(T_FLOAT, false, "1.00000001");
    VX(T_FLOAT, "<![CDATA[1]]>e0", "&#49;e0", "1e0");
}

// =============================================================================================== definitions
enum Kind { K_UNIQUE, K_KEY, K_REF_KEY, K_REF_UNIQUE, NKIND };
static const char* const KIND_NAME[] = {"unique", "key", "keyref->key", "keyref->unique"};
enum Carrier { C_ATK = 0, C_K, C_SELF, C_ATPK, NCARR };
static const char* const CARR_NAME[] = {"@k", "k", ".", "@p:k"};
enum FieldId { F_ATK, F_K, F_DOT, F_ATPK, F_KORATK, NFIELD };
static const char* const FIELD_XP[] = {"@k", "k", ".", "@p:k", "k|@k"};
enum SelId { S_R, S_DESC_R, S_STAR, S_A_R, S_R_OR_S, S_P_R, S_CHILD_AXIS, S_NS_ANY, NSEL };
static const char* const SEL_XP[] = {"r", ".//r", "*", "a/r", "r|s", "p:r", "child::r", "p:*"};
static const char* const SEL_XP_REF[] = {"q", ".//q", "*", "a/q", "q|t", "p:q", "child::q", "p:*"};
enum Pos { P_CHILD, P_IN_A, P_DEEP, P_S, P_PR, NPOS };
static const char* const POS_NAME[] = {"child", "a/", "b/a/", "s", "p:r"};
enum Scope { SC_ROOT, SC_FLAT, SC_REC, SC_UP };
static const char* const SCOPE_NAME[] = {"root", "flat", "recursive", "up"};
enum ValueSet { VSET_CORE, VSET_EXT, VSET_SMALL, VSET_NIL, VSET_TINY };
static const char* const VSET_NAME[] = {"core", "ext", "small", "nil", "tiny"};
static const std::string NS_P = "urn:p";

struct Item { int role, group, pos; int sym[NCARR]; };

static XPathExpr field_xp(int f) {
    XPathExpr x; x.text = FIELD_XP[f];
    Step self{AX_SELF, TEST_NODE, "", ""};
    switch (f) {
    case F_ATK: x.paths = {{{AX_ATTR, TEST_NAME, "", "k"}}}; break;
    case F_K: x.paths = {{{AX_CHILD, TEST_NAME, "", "k"}}}; break;
    case F_DOT: x.paths = {{self}}; break;
    case F_ATPK: x.paths = {{{AX_ATTR, TEST_NAME, NS_P, "k"}}}; break;
    case F_KORATK: x.paths = {{{AX_CHILD, TEST_NAME, "", "k"}}, {{AX_ATTR, TEST_NAME, "", "k"}}}; break;
    }
    return x;
}
// selector for the key-role element family (r, s, p:r) or the keyref-role family (q, t, p:q)
static XPathExpr sel_xp(int s, int role) {
    std::string r = role ? "q" : "r", ss = role ? "t" : "s";
    XPathExpr x; x.text = role ? SEL_XP_REF[s] : SEL_XP[s];
    Step self{AX_SELF, TEST_NODE, "", ""}, dos{AX_DESC_OR_SELF, TEST_NODE, "", ""};
    switch (s) {
    case S_R: case S_CHILD_AXIS: x.paths = {{{AX_CHILD, TEST_NAME, "", r}}}; break;
    case S_DESC_R: x.paths = {{self, dos, {AX_CHILD, TEST_NAME, "", r}}}; break;
    case S_STAR: x.paths = {{{AX_CHILD, TEST_ANY, "", ""}}}; break;
    case S_A_R: x.paths = {{{AX_CHILD, TEST_NAME, "", "a"}, {AX_CHILD, TEST_NAME, "", r}}}; break;
    case S_R_OR_S: x.paths = {{{AX_CHILD, TEST_NAME, "", r}}, {{AX_CHILD, TEST_NAME, "", ss}}}; break;
    case S_P_R: x.paths = {{{AX_CHILD, TEST_NAME, NS_P, r}}}; break;
    case S_NS_ANY: x.paths = {{{AX_CHILD, TEST_NS, NS_P, ""}}}; break;
    }
    return x;
}

struct Def {
    int kind = K_UNIQUE, sel = S_R, scope = SC_FLAT, vset = VSET_CORE, maxLen = 2;
    std::vector<int> fields;
    TypeId keyType = T_INTEGER, refType = T_INTEGER;       // type of every carrier on the key side / keyref side
    TypeId type2 = T_NONE;                                 // if set: type of the carriers of the 2nd field (both sides)
    std::vector<int> positions = {P_CHILD};
    bool refFirst = false;                                 // keyref element precedes the key element in the schema
    int upHosts = 2;                                       // SC_UP: number of sibling <h> scopes that hand their keys up to the keyref's host
    int fillerN = 0, fillerPlace = 0;                      // growth space: n unrelated distinct tuples before(0) / after(1) / around(2) the list
    // derived
    std::vector<int> carriers;
    bool simpleContent = false, nillable = false, isRef = false;
    std::vector<Item> items;
    std::vector<ICDef> ics;
    std::string xsd, pxsd, hostKey, hostRef;
    uint64_t nLists = 0;

    TypeId ctype(int role, int carrier) const {
        if (type2 != T_NONE && fields.size() == 2) {
            // carriers that belong only to the second field
            auto uses = [&](int f, int c) { return (f == F_ATK && c == C_ATK) || (f == F_K && c == C_K) || (f == F_DOT && c == C_SELF) || (f == F_ATPK && c == C_ATPK) || (f == F_KORATK && (c == C_K || c == C_ATK)); };
            if (uses(fields[1], carrier) && !uses(fields[0], carrier)) return type2;
        }
        return role ? refType : keyType;
    }
    std::string describe() const {
        std::string s = std::string(KIND_NAME[kind]) + " scope=" + SCOPE_NAME[scope] + " selector=" + SEL_XP[sel] + " fields=";
        for (size_t i = 0; i < fields.size(); i++) s += (i ? "," : "") + std::string(FIELD_XP[fields[i]]);
        s += std::string(" type=") + TYPE_NAME[keyType];
        if (isRef && refType != keyType) s += std::string("/ref:") + TYPE_NAME[refType];
        if (type2 != T_NONE) s += std::string("/f2:") + TYPE_NAME[type2];
        s += std::string(" values=") + VSET_NAME[vset] + " len<=" + std::to_string(maxLen);
        if (refFirst) s += " keyref-declared-first";
        if (scope == SC_UP && upHosts != 2) s += " hosts=" + std::to_string(upHosts);
        if (fillerN) s += " fillers=" + std::to_string(fillerN) + "@" + std::to_string(fillerPlace);
        return s;
    }
};

static std::string type_defs() {
    return "<xs:simpleType name=\"myInt\"><xs:restriction base=\"xs:integer\"><xs:minInclusive value=\"-5\"/></xs:restriction></xs:simpleType>\n";
}
static std::string tname(TypeId t, const std::string& pfx) { return t == T_MYINT ? pfx + "myInt" : std::string(TYPE_XSD[t]); }

// complex type of a tuple element (role 0: RK, role 1: RR); tp = prefix for references to schema-local types
static std::string tuple_type(const Def& d, int role, const std::string& name, const std::string& tp) {
    std::string atts = "<xs:attribute name=\"k\" type=\"" + tname(d.ctype(role, C_ATK), tp) + "\"/><xs:attribute ref=\"p:k\"/>";
    std::string s = "<xs:complexType name=\"" + name + "\">";
    if (d.simpleContent) s += "<xs:simpleContent><xs:extension base=\"" + tname(d.ctype(role, C_SELF), tp) + "\">" + atts + "</xs:extension></xs:simpleContent>";
    else s += "<xs:sequence><xs:element name=\"k\" type=\"" + tname(d.ctype(role, C_K), tp) + "\" minOccurs=\"0\" maxOccurs=\"unbounded\"" + (d.nillable ? " nillable=\"true\"" : "") +
              "/></xs:sequence>" + atts;
    return s + "</xs:complexType>\n";
}

static void build_def(Def& d) {
    d.isRef = d.kind == K_REF_KEY || d.kind == K_REF_UNIQUE;
    if (!d.isRef) d.refType = d.keyType;
    // carriers
    std::set<int> cs;
    for (int f : d.fields) switch (f) {
        case F_ATK: cs.insert(C_ATK); break; case F_K: cs.insert(C_K); break; case F_DOT: cs.insert(C_SELF); break;
        case F_ATPK: cs.insert(C_ATPK); break; case F_KORATK: cs.insert(C_K); cs.insert(C_ATK); break;
    }
    d.simpleContent = cs.count(C_SELF) != 0;
    if (d.simpleContent) cs.erase(C_K);   // a simple-content element has no <k> children: the field `k` then never matches
    d.carriers.assign(cs.begin(), cs.end());
    d.nillable = d.vset == VSET_NIL;
    // ---- item alphabet
    d.items.clear();
    std::vector<int> groups = {0};
    if (d.scope == SC_REC) groups = {0, 1, 2};
    if (d.scope == SC_UP) { groups.clear(); for (int g = 0; g < d.upHosts + 2; g++) groups.push_back(g); }
    int nroles = d.isRef ? 2 : 1;
    for (int role = 0; role < nroles; role++) for (int g : groups) {
        if (d.scope == SC_UP && ((role == 0) != (g >= 1 && g <= d.upHosts))) continue;   // keys live in the <h> elements, references in <g>
        for (int pos : d.positions) {
            // symbol choices per carrier
            std::vector<std::vector<int>> choice;
            for (int c : d.carriers) {
                TypeId t = d.ctype(role, c);
                bool isAttr = c == C_ATK || c == C_ATPK;
                std::vector<int> ch;
                for (size_t i = 0; i < VS[t].size(); i++) {
                    const VSym& v = VS[t][i];
                    if (isAttr ? !v.hasAttr : !v.hasElem) continue;
                    bool take = false;
                    switch (d.vset) {
                    case VSET_CORE: take = v.core; break;
                    case VSET_EXT: take = true; break;
                    case VSET_SMALL: take = i < 3; break;
                    case VSET_NIL: case VSET_TINY: take = i < 2; break;
                    }
                    if (take) ch.push_back((int)i);
                }
                if (c != C_SELF) ch.push_back(SYM_ABSENT);
                if (c == C_K && (d.vset == VSET_CORE || d.vset == VSET_EXT)) ch.push_back(SYM_DUP);
                if (d.vset == VSET_NIL && (c == C_K || c == C_SELF)) ch.push_back(SYM_NIL);
                choice.push_back(ch);
            }
            std::vector<size_t> ix(choice.size(), 0);
            while (true) {
                Item it; it.role = role; it.group = g; it.pos = pos;
                for (int c = 0; c < NCARR; c++) it.sym[c] = SYM_ABSENT;
                for (size_t j = 0; j < choice.size(); j++) it.sym[d.carriers[j]] = choice[j][ix[j]];
                d.items.push_back(it);
                size_t j = 0;
                for (; j < ix.size(); j++) { if (++ix[j] < choice[j].size()) break; ix[j] = 0; }
                if (j == ix.size()) break;
            }
        }
    }
    d.nLists = words_upto(d.items.size(), d.maxLen);
    // ---- constraints
    d.hostKey = d.scope == SC_ROOT ? "d" : d.scope == SC_UP ? "h" : "g";
    d.hostRef = d.scope == SC_ROOT ? "d" : "g";
    d.ics.clear();
    ICDef k;
    k.kind = (d.kind == K_KEY || d.kind == K_REF_KEY) ? IC_KEY : IC_UNIQUE;
    k.name = "K"; k.hostLocal = d.hostKey; k.selector = sel_xp(d.sel, 0);
    for (int f : d.fields) k.fields.push_back(field_xp(f));
    d.ics.push_back(k);
    if (d.isRef) {
        ICDef r; r.kind = IC_KEYREF; r.name = "KR"; r.hostLocal = d.hostRef; r.selector = sel_xp(d.sel, 1); r.fields = k.fields; r.refer = 0;
        d.ics.push_back(r);
    }
    // ---- schema text
    auto ic_xml = [&](const ICDef& ic) {
        const char* el = ic.kind == IC_KEY ? "key" : ic.kind == IC_UNIQUE ? "unique" : "keyref";
        std::string s = std::string("<xs:") + el + " name=\"" + ic.name + "\"" + (ic.kind == IC_KEYREF ? " refer=\"K\"" : "") + "><xs:selector xpath=\"" + ic.selector.text + "\"/>";
        for (auto& f : ic.fields) s += "<xs:field xpath=\"" + f.text + "\"/>";
        return s + std::string("</xs:") + el + ">";
    };
    auto host_ics = [&](const std::string& host) {
        std::string keys, refs;
        for (auto& ic : d.ics) if (ic.hostLocal == host) (ic.kind == IC_KEYREF ? refs : keys) += ic_xml(ic);
        return d.refFirst ? refs + keys : keys + refs;
    };
    std::string x = "<xs:schema xmlns:xs=\"http://www.w3.org/2001/XMLSchema\" xmlns:p=\"urn:p\">\n<xs:import namespace=\"urn:p\" schemaLocation=\"p.xsd\"/>\n" + type_defs();
    x += "<xs:complexType name=\"C\"><xs:choice minOccurs=\"0\" maxOccurs=\"unbounded\">";
    for (const char* n : {"r", "s", "q", "t", "a", "b", "g", "h"}) x += std::string("<xs:element ref=\"") + n + "\"/>";
    x += "<xs:element ref=\"p:r\"/><xs:element ref=\"p:q\"/></xs:choice></xs:complexType>\n";
    x += "<xs:element name=\"a\" type=\"C\"/><xs:element name=\"b\" type=\"C\"/>\n";
    for (const char* n : {"d", "g", "h"}) x += std::string("<xs:element name=\"") + n + "\" type=\"C\">" + host_ics(n) + "</xs:element>\n";
    x += tuple_type(d, 0, "RK", "") + tuple_type(d, 1, "RR", "");
    std::string nl = (d.nillable && d.simpleContent) ? " nillable=\"true\"" : "";
    x += "<xs:element name=\"r\" type=\"RK\"" + nl + "/><xs:element name=\"s\" type=\"RK\"" + nl + "/><xs:element name=\"q\" type=\"RR\"" + nl + "/><xs:element name=\"t\" type=\"RR\"" + nl + "/>\n</xs:schema>\n";
    d.xsd = x;
    std::string p = "<xs:schema xmlns:xs=\"http://www.w3.org/2001/XMLSchema\" xmlns:p=\"urn:p\" targetNamespace=\"urn:p\">\n" + type_defs();
    p += "<xs:attribute name=\"k\" type=\"" + tname(d.ctype(0, C_ATPK), "p:") + "\"/>\n";
    p += tuple_type(d, 0, "RK", "p:") + tuple_type(d, 1, "RR", "p:");
    p += "<xs:element name=\"r\" type=\"p:RK\"" + nl + "/><xs:element name=\"q\" type=\"p:RR\"" + nl + "/>\n</xs:schema>\n";
    d.pxsd = p;
}

// =============================================================================================== instances
static const char* const DOC_OPEN = "<d xmlns:p=\"urn:p\" xmlns:q=\"urn:p\" xmlns:x=\"urn:x\" xmlns:xsi=\"http://www.w3.org/2001/XMLSchema-instance\" xsi:noNamespaceSchemaLocation=\"s.xsd\">";
static const NsMap ROOT_NS = {{"p", "urn:p"}, {"q", "urn:p"}, {"x", "urn:x"}};
static const NsMap REBOUND_NS = {{"p", "urn:x"}, {"q", "urn:p"}, {"x", "urn:x"}};   // inside <k xmlns:p="urn:x">

static int add_elem(Tree& T, int parent, const std::string& ns, const std::string& local) {
    Elem e; e.ns = ns; e.local = local; e.parent = parent; e.nsmap = &ROOT_NS;
    T.push_back(e);
    int id = (int)T.size() - 1;
    if (parent >= 0) T[parent].kids.push_back(id);
    return id;
}

// value of a carrier: symbol from the alphabet or an explicit filler lexical
struct CarrierVal { int sym; std::string filler; };

static void emit_tuple(const Def& d, Tree& T, int parent, std::string& xml, int role, int pos, const CarrierVal cv[NCARR]) {
    const char* wopen = pos == P_IN_A ? "<a>" : pos == P_DEEP ? "<b><a>" : "";
    const char* wclose = pos == P_IN_A ? "</a>" : pos == P_DEEP ? "</a></b>" : "";
    if (pos == P_IN_A) parent = add_elem(T, parent, "", "a");
    if (pos == P_DEEP) { parent = add_elem(T, parent, "", "b"); parent = add_elem(T, parent, "", "a"); }
    std::string ns = pos == P_PR ? NS_P : "";
    std::string local = pos == P_S ? (role ? "t" : "s") : (role ? "q" : "r");
    std::string qn = (pos == P_PR ? "p:" : "") + local;
    int e = add_elem(T, parent, ns, local);
    xml += wopen;
    xml += "<" + qn;
    auto used = [&](int c) { return std::find(d.carriers.begin(), d.carriers.end(), c) != d.carriers.end(); };
    for (int c : {C_ATK, C_ATPK}) {
        if (!used(c) || cv[c].sym == SYM_ABSENT) continue;
        TypeId t = d.ctype(role, c);
        std::string render, logical;
        if (cv[c].sym >= 0) { render = VS[t][cv[c].sym].attr; logical = VS[t][cv[c].sym].logical; } else render = logical = cv[c].filler;
        xml += std::string(c == C_ATK ? " k=\"" : " p:k=\"") + render + "\"";
        T[e].attrs.push_back({c == C_ATK ? "" : NS_P, "k", t, logical});
    }
    if (d.simpleContent) {
        TypeId t = d.ctype(role, C_SELF);
        T[e].stype = t;
        T[e].nillableDecl = d.nillable;
        const CarrierVal& v = cv[C_SELF];
        if (v.sym == SYM_NIL) { T[e].nil = true; xml += " xsi:nil=\"true\"/>"; }
        else {
            std::string render, logical;
            if (v.sym >= 0) { render = VS[t][v.sym].elem; logical = VS[t][v.sym].logical; } else render = logical = v.filler;
            T[e].text = logical;
            xml += ">" + render + "</" + qn + ">";
        }
    } else {
        std::string kids;
        auto addk = [&](int sym, const std::string& filler) {
            TypeId t = d.ctype(role, C_K);
            int k = add_elem(T, e, "", "k");
            T[k].stype = t; T[k].nillableDecl = d.nillable;
            if (sym == SYM_NIL) { T[k].nil = true; kids += "<k xsi:nil=\"true\"/>"; return; }
            if (sym >= 0) {
                const VSym& v = VS[t][sym];
                T[k].text = v.logical;
                if (!v.rebindPfx.empty()) { T[k].nsmap = &REBOUND_NS; kids += "<k xmlns:" + v.rebindPfx + "=\"" + v.rebindUri + "\">" + v.elem + "</k>"; }
                else kids += "<k>" + v.elem + "</k>";
            } else { T[k].text = filler; kids += "<k>" + filler + "</k>"; }
        };
        if (used(C_K)) {
            const CarrierVal& v = cv[C_K];
            if (v.sym == SYM_DUP) { addk(0, ""); addk(2, ""); }
            else if (v.sym != SYM_ABSENT) addk(v.sym, v.filler);
        }
        if (kids.empty()) xml += "/>"; else xml += ">" + kids + "</" + qn + ">";
    }
    xml += wclose;
}

static std::string filler_lex(TypeId t, int i, int variant) {
    int n = 1000 + i;
    switch (t) {
    case T_STRING: case T_TOKEN: return "v" + std::to_string(i);
    case T_INTEGER: case T_MYINT: return variant ? "+0" + std::to_string(n) : std::to_string(n);
    case T_DECIMAL: return std::to_string(n) + (variant ? ".50" : ".5");
    case T_DATE: return std::to_string(2001 + i) + (variant ? "-01-01+00:00" : "-01-01Z");
    case T_QNAME: return (variant ? "q:f" : "p:f") + std::to_string(i);
    case T_FLOAT: return std::to_string(n) + (variant ? ".0" : "");
    default: return "";
    }
}

struct Instance { std::string xml; Tree tree; bool canonical = true; };

// list (word over the item alphabet) -> fragment (the scope element, or for SC_ROOT the children of <d>) + tree rooted at index 0
static Instance make_instance(const Def& d, const std::vector<int>& word) {
    Instance I;
    int ngroups = d.scope == SC_REC ? 3 : d.scope == SC_UP ? d.upHosts + 2 : 1;
    std::vector<std::vector<int>> byGroup(ngroups);
    int last = 0;
    for (int w : word) { const Item& it = d.items[w]; if (it.group < last) I.canonical = false; last = it.group; byGroup[it.group].push_back(w); }
    if (!I.canonical) return I;
    Tree& T = I.tree;
    std::string& x = I.xml;
    int top = add_elem(T, -1, "", d.scope == SC_ROOT ? "d" : "g");
    auto emit_items = [&](int parent, const std::vector<int>& ws) {
        for (int w : ws) {
            const Item& it = d.items[w];
            CarrierVal cv[NCARR];
            for (int c = 0; c < NCARR; c++) cv[c] = {it.sym[c], ""};
            emit_tuple(d, T, parent, x, it.role, it.pos, cv);
        }
    };
    auto emit_fillers = [&](int parent, int from, int to) {
        for (int i = from; i < to; i++) {
            CarrierVal cv[NCARR];
            for (int c = 0; c < NCARR; c++) cv[c] = {-100, filler_lex(d.ctype(0, c), i, i & 1)};
            emit_tuple(d, T, parent, x, 0, P_CHILD, cv);
            if (d.isRef && i % 2 == 0) {
                for (int c = 0; c < NCARR; c++) cv[c] = {-100, filler_lex(d.ctype(1, c), i, 1 - (i & 1))};
                emit_tuple(d, T, parent, x, 1, P_CHILD, cv);
            }
        }
    };
    if (d.scope != SC_ROOT) x += "<g>";
    int nBefore = d.fillerPlace == 0 ? d.fillerN : d.fillerPlace == 2 ? d.fillerN / 2 : 0;
    if (d.fillerN) emit_fillers(top, 0, nBefore);
    switch (d.scope) {
    case SC_ROOT: case SC_FLAT: emit_items(top, byGroup[0]); break;
    case SC_REC: {
        emit_items(top, byGroup[0]);
        int inner = add_elem(T, top, "", "g");
        x += "<g>"; emit_items(inner, byGroup[1]); x += "</g>";
        emit_items(top, byGroup[2]);
        break;
    }
    case SC_UP: {
        emit_items(top, byGroup[0]);
        for (int g = 1; g <= d.upHosts; g++) {   // an <h> without items is not emitted
            if (byGroup[g].empty()) continue;
            int h = add_elem(T, top, "", "h");
            x += "<h>"; emit_items(h, byGroup[g]); x += "</h>";
        }
        emit_items(top, byGroup[d.upHosts + 1]);
        break;
    }
    }
    if (d.fillerN) emit_fillers(top, nBefore, d.fillerN);
    if (d.scope != SC_ROOT) x += "</g>";
    return I;
}

// =============================================================================================== library side
struct ErrOnlyH : public DefaultHandler, Collector {
    void warning(const SAXParseException& e) override { r->warns++; err("W", e); }
    void error(const SAXParseException& e) override { r->errs++; err("E", e); }
    void fatalError(const SAXParseException& e) override { r->fatals++; err("F", e); }
    void resetErrors() override {}
};
static ParseResult validate(const Config& c, const std::string& bytes) {
    ParseResult r;
    try {
        MemBufInputSource src((const XMLByte*)bytes.data(), bytes.size(), X16("/v/doc.xml").p(), false);
        if (c.api == SAX2) {
            std::unique_ptr<SAX2XMLReader> p(XMLReaderFactory::createXMLReader());
            ErrOnlyH eh; eh.r = &r; eh.cfg = &c;
            p->setProperty(XMLUni::fgXercesScannerName, (void*)X16(ScnName[c.scanner]).p());
            p->setFeature(XMLUni::fgSAX2CoreNameSpaces, c.ns);
            p->setFeature(XMLUni::fgSAX2CoreValidation, c.val != 0);
            p->setFeature(XMLUni::fgXercesDynamic, c.val == 2);
            p->setFeature(XMLUni::fgXercesSchema, c.schema);
            p->setFeature(XMLUni::fgXercesSchemaFullChecking, c.fullcheck);
            p->setFeature(XMLUni::fgXercesIdentityConstraintChecking, c.idc);
            p->setErrorHandler(&eh);
            p->parse(src);
        } else {
            XercesDOMParser p;
            Sax1H h; h.r = &r; h.cfg = &c;
            config_common(p, c);
            p.setErrorHandler(&h);
            p.parse(src);
        }
    }
    XV_CATCH_DOCUMENTED(r)
    return r;
}

// error classes by message text (XMLValidityCodes IC_*)
enum ErrClass { EC_DUP_UNIQUE, EC_DUP_KEY, EC_ABSENT, EC_NOT_ENOUGH, EC_NILLABLE, EC_NOT_FOUND, EC_OUT_OF_SCOPE, EC_MULTI, EC_UNKNOWN_FIELD, EC_OTHER, NEC };
static const char* const EC_NAME[] = {"IC_DuplicateUnique", "IC_DuplicateKey", "IC_AbsentKeyValue", "IC_KeyNotEnoughValues", "IC_KeyMatchesNillable", "IC_KeyNotFound",
                                      "IC_KeyRefOutOfScope", "IC_FieldMultipleMatch", "IC_UnknownField", "other"};
static ErrClass classify(const std::string& msg) {
    auto has = [&](const char* s) { return msg.find(s) != std::string::npos; };
    if (has("declares duplicate identity constraint unique values")) return EC_DUP_UNIQUE;
    if (has("declares duplicate identity constraint key values")) return EC_DUP_KEY;
    if (has("has identity constraint key with no value")) return EC_ABSENT;
    if (has("does not have enough values for identity constraint key")) return EC_NOT_ENOUGH;
    if (has("declares identity constraint key that matches nillable element")) return EC_NILLABLE;
    if (has("identity constraint key for element") && has("not found")) return EC_NOT_FOUND;
    if (has("refers to out of scope key/unique")) return EC_OUT_OF_SCOPE;
    if (has("identity constraint field matches more than one value")) return EC_MULTI;
    if (has("unknown identity constraint field")) return EC_UNKNOWN_FIELD;
    return EC_OTHER;
}
struct ErrRec { char sev; long line; std::string msg, sysid; };
static ErrRec split_err(const std::string& e) {
    ErrRec x; x.sev = e[0];
    size_t a = e.find('|'), b = e.find('|', a + 1), c = e.find('|', b + 1), d = e.rfind('|');
    x.line = atol(e.substr(a + 1, b - a - 1).c_str());
    x.msg = e.substr(c + 1, d - c - 1);
    x.sysid = e.substr(d + 1);
    return x;
}

// =============================================================================================== known defects (see docs/c10.md)
// Cases that hit a defect already reported to the lead are not compared (and counted), so that the rest of the space is explored.
// A list is skipped iff its reference verdict changes when the reference model is made to imitate the defect.
struct Def;
static bool kd_applies_cross_string(const Def& d);
static bool kd_applies_float(const Def& d);
static bool kd_applies_up(const Def& d);
static bool kd_applies_rec(const Def& d);
struct KnownDefect { const char* id; void (*imitate)(Interp&); bool (*applies)(const Def&); };
static std::vector<KnownDefect> KNOWN_DEFECTS = {
    // ICValueHasher::isDuplicateOf: two empty values are equal only if dv1 == dv2, so "" typed xs:token never matches "" typed xs:string
    {"empty-string-of-related-types-unequal", [](Interp& in) { in.kdEmptyNeedsSameType = true; }, kd_applies_cross_string},
    // XMLFloat keeps double precision: "1" and "1.00000001" are different xs:float values for the library, equal in the value space
    {"float-not-rounded-to-single-precision", [](Interp& in) { in.kdFloatAsDouble = true; }, kd_applies_float},
    // ValueStoreCache::initValueStoresFor clear()s the (constraint, depth) store that transplant() already published to the parent: when a second
    // sibling element hosting the same key/unique starts, the keys of the first one disappear from the ancestors' node table
    {"sibling-scope-keys-lost-for-ancestor-keyref", [](Interp& in) { in.kdLastSiblingHostOnly = true; }, kd_applies_up},
    // ValueStore::endDocumentFragment reports IC_KeyRefOutOfScope when no element hosting the referenced key/unique occurred inside the
    // keyref's host element, even if the keyref selected nothing (3.11.4 clause 4.3 quantifies over the qualified node set: vacuously true)
    {"keyref-out-of-scope-without-any-reference", [](Interp& in) { in.kdKeyrefNeedsTable = true; }, kd_applies_up},
    // FieldActivator::fMayMatch is keyed by the field only: two active instances of one constraint share the flag
    {"recursive-scope-false-field-multiple-match", [](Interp& in) { in.kdSharedFieldMayMatch = true; }, kd_applies_rec},
};
static bool g_use_known = true;

static bool kd_applies_cross_string(const Def& d) { return d.isRef && d.keyType != d.refType && (d.keyType == T_STRING || d.keyType == T_TOKEN); }
static bool kd_applies_up(const Def& d) { return d.scope == SC_UP; }
static bool kd_applies_rec(const Def& d) { return d.scope == SC_REC; }
static bool kd_applies_float(const Def& d) { return d.keyType == T_FLOAT || d.refType == T_FLOAT || d.type2 == T_FLOAT; }
// =============================================================================================== one case = one document
struct CaseRef { uint32_t def; uint64_t first; uint32_t count; };
static std::vector<Def> DEFS;
static std::vector<CaseRef> CASES;
static std::vector<Config> CFGS;
static unsigned g_cfgmask = 0xf, g_deepmask = 0x9;   // configurations (bit i = CFGS[i]); deepest list length of big definitions: IG/SAX2 + SG/DOM
static int g_deep_min_len = 3;
static bool g_conflicts_open = false;

struct Line { uint64_t list; std::string xml; Claimed exp; std::vector<int> word; };

static std::string word_str(const Def& d, const std::vector<int>& w) {
    std::string s;
    for (int x : w) {
        const Item& it = d.items[x];
        s += s.empty() ? "" : " ; ";
        s += std::string(it.role ? "ref" : "key") + (d.scope == SC_REC || d.scope == SC_UP ? "@g" + std::to_string(it.group) : "") + " " + POS_NAME[it.pos];
        for (int c : d.carriers) {
            s += std::string(" ") + CARR_NAME[c] + "=";
            int sy = it.sym[c];
            if (sy == SYM_ABSENT) s += "absent"; else if (sy == SYM_NIL) s += "nil"; else if (sy == SYM_DUP) s += "dup";
            else { const VSym& v = VS[d.ctype(it.role, c)][sy]; s += "'" + ((c == C_ATK || c == C_ATPK) ? v.attr : v.elem) + "'" + (v.rebindPfx.empty() ? "" : "[p->urn:x]"); }
        }
    }
    return s;
}

static std::string build_doc(const Def& d, const std::vector<Line>& lines) {
    std::string doc = DOC_OPEN;
    if (d.scope == SC_ROOT) { doc += "\n" + lines[0].xml + "</d>\n"; return doc; }
    doc += "\n";
    for (auto& l : lines) { doc += l.xml; doc += "\n"; }
    doc += "</d>\n";
    return doc;
}

static void compare_line(const Def& d, const Line& L, const std::vector<std::string>& errs, const Config& cfg, Ctx& c, bool& reported, const std::string& ctxdoc) {
    const Claimed& ex = L.exp;
    bool seen[NEC] = {false};
    std::string all;
    for (auto& e : errs) { seen[classify(split_err(e).msg)] = true; all += e + "\n"; }
    std::vector<std::string> probs;
    if (seen[EC_OTHER] || seen[EC_UNKNOWN_FIELD]) probs.push_back("unexpected-error");
    bool anyMulti = false, anyViol = false, allClaimed = true;
    for (size_t i = 0; i < d.ics.size(); i++) { anyMulti |= (bool)ex.v.multi[i]; anyViol |= (bool)ex.v.viol[i]; allClaimed &= (bool)ex.claim[i]; }
    for (size_t i = 0; i < d.ics.size(); i++) {
        if (!ex.claim[i]) { c.count("noclaim_constraint_verdicts"); continue; }
        bool obs;
        switch (d.ics[i].kind) {
        case IC_UNIQUE: obs = seen[EC_DUP_UNIQUE]; break;
        case IC_KEY: obs = seen[EC_DUP_KEY] || seen[EC_ABSENT] || seen[EC_NOT_ENOUGH] || seen[EC_NILLABLE]; break;
        default: obs = seen[EC_NOT_FOUND] || seen[EC_OUT_OF_SCOPE]; break;
        }
        c.count("constraint_verdicts_compared");
        if (ex.v.viol[i]) {
            c.count(std::string("expected_violated:") + (d.ics[i].kind == IC_UNIQUE ? "unique" : d.ics[i].kind == IC_KEY ? "key" : "keyref"));
            if (!obs && !(ex.v.multi[i] && seen[EC_MULTI])) probs.push_back("violation-not-reported:" + d.ics[i].name);
        } else {
            c.count(std::string("expected_satisfied:") + (d.ics[i].kind == IC_UNIQUE ? "unique" : d.ics[i].kind == IC_KEY ? "key" : "keyref"));
            if (obs) probs.push_back("false-violation:" + d.ics[i].name);
        }
    }
    // errors of a class that no constraint of this definition can raise
    bool hasU = false, hasK = false, hasR = false;
    for (auto& ic : d.ics) { hasU |= ic.kind == IC_UNIQUE; hasK |= ic.kind == IC_KEY; hasR |= ic.kind == IC_KEYREF; }
    if ((!hasU && seen[EC_DUP_UNIQUE]) || (!hasK && (seen[EC_DUP_KEY] || seen[EC_ABSENT] || seen[EC_NOT_ENOUGH] || seen[EC_NILLABLE])) || (!hasR && (seen[EC_NOT_FOUND] || seen[EC_OUT_OF_SCOPE])))
        probs.push_back("error-of-foreign-kind");
    if (seen[EC_MULTI] && !anyMulti && allClaimed) probs.push_back("false-violation:multiple-match");
    if (allClaimed) {
        c.count(anyViol ? "instances_invalid" : "instances_valid");
        if (!anyViol && !errs.empty() && probs.empty()) probs.push_back("error-on-valid-instance");
    }
    for (int k = 0; k < NEC; k++) if (seen[k]) c.count(std::string("observed:") + EC_NAME[k]);
    if (probs.empty()) return;
    std::string kind = probs[0].substr(0, probs[0].find(':'));
    if (!reported) {
        reported = true;
        std::string expS;
        for (size_t i = 0; i < d.ics.size(); i++) expS += d.ics[i].name + (ex.v.viol[i] ? "=violated" : "=satisfied") + (ex.claim[i] ? "" : "(unclaimed)") + " ";
        std::string pl;
        for (auto& p : probs) pl += p + " ";
        c.violation(kind, "\"def\":" + jstr(d.describe()) + ",\"config\":" + jstr(cfg.str()) + ",\"list\":" + jstr(word_str(d, L.word)) + ",\"list_index\":" + std::to_string(L.list) +
                              ",\"problems\":" + jstr(pl) + ",\"expected\":" + jstr(expS) + ",\"observed_errors\":" + jstr(all) + ",\"instance\":" + jstr(L.xml) + ",\"schema\":" + jstr(d.xsd));
    } else c.count("further_mismatching_lines");
    if (c.verbose) {
        printf("MISMATCH config=%s list#%llu [%s]\n  instance: %s\n  problems:", cfg.str().c_str(), (unsigned long long)L.list, word_str(d, L.word).c_str(), L.xml.c_str());
        for (auto& p : probs) printf(" %s", p.c_str());
        printf("\n  observed:\n%s", all.c_str());
        // does it reproduce when the list is alone in its document?
        std::vector<Line> one{L};
        g_vfs->clear(); g_vfs->put("/v/s.xsd", d.xsd); g_vfs->put("/v/p.xsd", d.pxsd);
        ParseResult r1 = validate(cfg, build_doc(d, one));
        printf("  alone in a document: %zu errors\n", r1.errors.size());
        for (auto& e : r1.errors) printf("     %s\n", e.c_str());
        (void)ctxdoc;
    }
}

static void tally(const Verdict& v, Ctx& c) {
    c.count("ref_targets", v.nTargets); c.count("ref_qualified", v.nQualified); c.count("ref_duplicates", v.nDup); c.count("ref_equal_but_lexically_different", v.nEqualDifferentLexical);
    c.count("ref_key_absent", v.nAbsent); c.count("ref_key_partial", v.nPartial); c.count("ref_key_nillable", v.nNillable); c.count("ref_keyref_found", v.nFound);
    c.count("ref_keyref_not_found", v.nNotFound); c.count("ref_field_multi", v.nMulti); c.count("ref_propagated_entries", v.nPropagated); c.count("ref_conflict_removed", v.nConflictRemoved);
}

static void run_case(uint64_t idx, Ctx& c) {
    const CaseRef& cr = CASES[idx];
    const Def& d = DEFS[cr.def];
    std::vector<Line> lines;
    for (uint64_t li = cr.first; li < cr.first + cr.count; li++) {
        std::vector<int> w = word_at(li, d.items.size(), d.maxLen);
        Instance I = make_instance(d, w);
        if (!I.canonical) { c.count("lists_skipped_noncanonical_group_order"); continue; }
        Line L; L.list = li; L.word = w; L.xml = I.xml;
        L.exp = judge(I.tree, d.ics, 0, g_conflicts_open);
        if (L.exp.v.badLexical) { c.violation("harness-bad-lexical", "\"def\":" + jstr(d.describe()) + ",\"list\":" + jstr(word_str(d, w))); return; }
        if (L.exp.v.unsupported) { c.count("lists_skipped_field_on_complex_element"); continue; }
        bool known = false;
        if (g_use_known) for (auto& kd : KNOWN_DEFECTS) {
            if (!kd.applies(d)) continue;
            Interp in; kd.imitate(in);
            Oracle o(I.tree, d.ics, in);
            if (!o.run(0).sameFull(L.exp.v)) { c.count(std::string("known_defect_skipped:") + kd.id); known = true; break; }
        }
        if (known) continue;
        c.count("lists");
        if (L.exp.anyUnclaimed) c.count("lists_with_unclaimed_verdict");
        tally(L.exp.v, c);
        lines.push_back(std::move(L));
    }
    if (lines.empty()) return;
    std::string doc = build_doc(d, lines);
    unsigned mask = g_cfgmask;
    if (d.scope != SC_ROOT && d.maxLen >= g_deep_min_len && cr.first >= words_upto(d.items.size(), d.maxLen - 1)) { mask &= g_deepmask; c.count("documents_deepest_level_two_configs"); }
    for (size_t ci = 0; ci < CFGS.size(); ci++) {
        if (!(mask & (1u << ci))) continue;
        const Config& cfg = CFGS[ci];
        g_vfs->clear();
        g_vfs->put("/v/s.xsd", d.xsd);
        g_vfs->put("/v/p.xsd", d.pxsd);
        ParseResult r = validate(cfg, doc);
        c.count("parses");
        if (!r.exc.empty() || r.fatals) {
            c.violation("fatal-or-exception", "\"def\":" + jstr(d.describe()) + ",\"config\":" + jstr(cfg.str()) + ",\"exc\":" + jstr(r.exc) + ",\"first\":" + jstr(r.errors.empty() ? "" : r.errors[0]) +
                                                  ",\"first_list\":" + std::to_string(cr.first) + ",\"doc\":" + jstr(doc.substr(0, 1500)) + ",\"schema\":" + jstr(d.xsd));
            continue;
        }
        std::vector<std::vector<std::string>> byLine(lines.size());
        bool bad = false;
        for (auto& e : r.errors) {
            ErrRec er = split_err(e);
            if (er.sysid.size() >= 4 && er.sysid.compare(er.sysid.size() - 4, 4, ".xsd") == 0) {
                c.violation("schema-error", "\"def\":" + jstr(d.describe()) + ",\"config\":" + jstr(cfg.str()) + ",\"error\":" + jstr(e) + ",\"schema\":" + jstr(d.xsd));
                bad = true; break;
            }
            if (d.scope == SC_ROOT) { byLine[0].push_back(e); continue; }
            long w = er.line - 2;
            if (w < 0 || (size_t)w >= lines.size()) {
                c.violation("error-outside-instance-lines", "\"def\":" + jstr(d.describe()) + ",\"config\":" + jstr(cfg.str()) + ",\"error\":" + jstr(e) + ",\"first_list\":" + std::to_string(cr.first));
                bad = true; break;
            }
            byLine[w].push_back(e);
        }
        if (bad) continue;
        bool reported = false;
        for (size_t i = 0; i < lines.size(); i++) compare_line(d, lines[i], byLine[i], cfg, c, reported, doc);
    }
    if (c.verbose) {
        printf("def: %s\nlists %llu..%llu (%zu compared)\n", d.describe().c_str(), (unsigned long long)cr.first, (unsigned long long)(cr.first + cr.count - 1), lines.size());
        if (lines.size() <= 3) printf("schema:\n%s\np.xsd:\n%s\ndocument:\n%s\n", d.xsd.c_str(), d.pxsd.c_str(), doc.c_str());
    }
    if (idx % 211 == 0 && !lines.empty()) {
        const Line& L = lines[lines.size() / 2];
        std::string expS;
        for (size_t i = 0; i < d.ics.size(); i++) expS += d.ics[i].name + (L.exp.v.viol[i] ? "=violated " : "=satisfied ");
        c.sample("{\"def\":" + jstr(d.describe()) + ",\"instance\":" + jstr(L.xml) + ",\"expected\":" + jstr(expS) + "}");
    }
}

// =============================================================================================== spaces
static void add_def(Def d) { if (d.maxLen <= 0) return; build_def(d); DEFS.push_back(d); }

static const std::vector<std::pair<TypeId, TypeId>> CROSS = {{T_INTEGER, T_DECIMAL}, {T_DECIMAL, T_INTEGER}, {T_TOKEN, T_STRING}, {T_STRING, T_TOKEN}, {T_MYINT, T_INTEGER}, {T_INTEGER, T_MYINT}, {T_MYINT, T_DECIMAL}};
static const TypeId ALLTYPES[] = {T_STRING, T_TOKEN, T_INTEGER, T_DECIMAL, T_DATE, T_QNAME, T_BOOLEAN, T_FLOAT, T_MYINT};

// list-length bounds of one sub-space, by value alphabet and by kind family (unique/key vs keyref->*)
struct Lens { int core = 0, ext = 0, nil = 0, small = 0, refCore = 0, refExt = 0, refNil = 0, refSmall = 0, twoCarriers = 2; bool refExtAllFields = true; };
static int g_lenOverride = -1;
static std::string lens_json(const Lens& l) {
    return "{\"core\":" + std::to_string(l.core) + ",\"ext\":" + std::to_string(l.ext) + ",\"nil\":" + std::to_string(l.nil) + ",\"small\":" + std::to_string(l.small) +
           ",\"ref_core\":" + std::to_string(l.refCore) + ",\"ref_ext\":" + std::to_string(l.refExt) + ",\"ref_nil\":" + std::to_string(l.refNil) + ",\"ref_small\":" + std::to_string(l.refSmall) + ",\"k_or_at_k_cap\":" + std::to_string(l.twoCarriers) + "}";
}

// S1: value space. selector r, one field, every type, full alphabets.
static void space_values(int scope, const Lens& L, const std::vector<int>& fields, bool cross = true) {
    for (int kind = 0; kind < NKIND; kind++) {
        bool ref = kind >= K_REF_KEY;
        for (int f : fields) for (TypeId t : ALLTYPES) {
            for (int vs : {VSET_CORE, VSET_EXT, VSET_NIL, VSET_SMALL}) {
                if (vs == VSET_NIL && !(f == F_K || f == F_DOT || f == F_KORATK)) continue;
                Def d; d.kind = kind; d.sel = S_R; d.fields = {f}; d.scope = scope; d.keyType = d.refType = t; d.vset = vs;
                d.maxLen = vs == VSET_CORE ? (ref ? L.refCore : L.core) : vs == VSET_EXT ? (ref ? L.refExt : L.ext) : vs == VSET_NIL ? (ref ? L.refNil : L.nil) : (ref ? L.refSmall : L.small);
                if (ref && vs == VSET_EXT && !L.refExtAllFields && !(f == F_ATK || f == F_K)) continue;
                if (f == F_KORATK) {   // two carriers: the product alphabet is taken over the small / tiny value sets
                    if (vs == VSET_EXT) continue;
                    if (vs == VSET_CORE) d.vset = VSET_SMALL;
                    if (vs == VSET_SMALL) continue;
                    d.maxLen = std::min(d.maxLen, L.twoCarriers);
                }
                add_def(d);
            }
        }
        if (ref && cross) for (auto& pr : CROSS) for (int f : fields) {
            if (f == F_ATPK || f == F_KORATK) continue;   // p:k is one global attribute declaration: one type
            for (int vs : {VSET_CORE, VSET_EXT, VSET_SMALL}) {
                Def d; d.kind = kind; d.sel = S_R; d.fields = {f}; d.scope = scope; d.keyType = pr.first; d.refType = pr.second; d.vset = vs;
                d.maxLen = vs == VSET_CORE ? L.refCore : vs == VSET_EXT ? L.refExt : L.refSmall;
                add_def(d);
            }
        }
    }
}

// S2: path space. every selector x 1-2 fields, small value alphabets, tuples at every position.
//   L.small / L.refSmall: one field;  L.core / L.refCore (re-used as "two fields" bounds)
static void space_paths(int scope, int len1, int len1Ref, int len2, int len2Ref, bool allSelectors, bool thorough) {
    std::vector<int> sels = {S_R, S_DESC_R, S_STAR, S_A_R, S_R_OR_S, S_P_R};
    if (!allSelectors && !thorough) sels = {S_R, S_DESC_R, S_STAR, S_P_R};
    if (allSelectors) { sels.push_back(S_CHILD_AXIS); sels.push_back(S_NS_ANY); }
    for (int kind = 0; kind < NKIND; kind++) {
        bool ref = kind >= K_REF_KEY;
        for (int sel : sels) {
            for (int f = 0; f < NFIELD; f++) {
                Def d; d.kind = kind; d.sel = sel; d.fields = {f}; d.scope = scope; d.keyType = d.refType = T_INTEGER; d.vset = VSET_SMALL;
                d.positions = {P_CHILD, P_IN_A, P_DEEP, P_S, P_PR};
                d.maxLen = ref ? len1Ref : len1;
                if (ref && !thorough && d.maxLen >= 2) d.positions = {P_CHILD, P_IN_A, P_S, P_PR};
                if (f == F_KORATK) { d.vset = VSET_TINY; d.positions = {P_CHILD, P_IN_A, P_PR}; if (ref && len2Ref > 0) d.maxLen = std::min(d.maxLen, len2Ref); if (!ref) d.maxLen = std::min(d.maxLen, 2); }
                add_def(d);
            }
            for (int f1 = 0; f1 < NFIELD; f1++) for (int f2 = 0; f2 < NFIELD; f2++) {
                if (f1 == f2) continue;
                if ((f1 == F_DOT && f2 == F_K) || (f1 == F_K && f2 == F_DOT)) continue;   // `k` can never match inside a simple-content element
                Def d; d.kind = kind; d.sel = sel; d.fields = {f1, f2}; d.scope = scope; d.keyType = d.refType = T_INTEGER; d.vset = VSET_TINY;
                d.positions = {P_CHILD, P_IN_A, P_DEEP, P_S, P_PR};
                d.maxLen = ref ? len2Ref : len2;
                if (d.maxLen <= 0) continue;
                int ncar = 0; { Def t = d; build_def(t); ncar = (int)t.carriers.size(); }
                if (ncar >= 3 || d.maxLen >= 2) d.positions = {P_CHILD, P_IN_A, P_PR};
                add_def(d);
            }
        }
    }
}

// S2b: two fields, value-space sensitive (tuples compared member by member), mixed types
static void space_pairs(int scope, int len, int lenRef, bool thorough) {
    for (int kind = 0; kind < NKIND; kind++) {
        bool ref = kind >= K_REF_KEY;
        for (auto fp : std::vector<std::pair<int, int>>{{F_ATK, F_K}, {F_K, F_ATK}, {F_ATK, F_ATPK}, {F_DOT, F_ATK}})
            for (auto tp : std::vector<std::pair<TypeId, TypeId>>{{T_INTEGER, T_NONE}, {T_DECIMAL, T_STRING}, {T_FLOAT, T_DATE}, {T_STRING, T_DECIMAL}, {T_BOOLEAN, T_QNAME}}) {
                if (!thorough && ref && (tp.first == T_STRING || tp.first == T_BOOLEAN)) continue;
                Def d; d.kind = kind; d.sel = S_R; d.fields = {fp.first, fp.second}; d.scope = scope; d.keyType = d.refType = tp.first; d.type2 = tp.second; d.vset = VSET_SMALL;
                d.maxLen = ref ? lenRef : len;
                add_def(d);
            }
    }
}

// S4: scope shapes (recursive, up)
static void space_scopes(int lenRec, int lenRecRef, int lenUp, int lenUpWide) {
    for (int kind = 0; kind < NKIND; kind++) {
        bool ref = kind >= K_REF_KEY;
        for (int sel : {S_R, S_DESC_R}) for (int f : {F_ATK, F_K}) for (TypeId t : {T_INTEGER, T_STRING}) {
            for (int refFirst = 0; refFirst < (ref ? 2 : 1); refFirst++) {
                Def d; d.kind = kind; d.sel = sel; d.fields = {f}; d.scope = SC_REC; d.keyType = d.refType = t; d.vset = VSET_SMALL; d.refFirst = refFirst;
                d.maxLen = ref ? lenRecRef : lenRec;
                if (sel == S_DESC_R) { d.positions = {P_CHILD, P_IN_A}; d.vset = VSET_TINY; d.maxLen = std::min(d.maxLen, 3); }
                if (sel == S_DESC_R && ref) d.positions = {P_IN_A};
                add_def(d);
                if (ref) {
                    Def u = d; u.scope = SC_UP; u.maxLen = lenUp; u.vset = VSET_TINY;
                    if (sel == S_DESC_R) { u.positions = {P_IN_A}; u.maxLen = std::min(u.maxLen, 3); }
                    add_def(u);
                    // four sibling hosts: a value handed up by several of them is a conflict and must stay out of the node table of <g>
                    // however many further hosts carry it (7|7|7, 1 2|1 2|1 2 1, ...)
                    if (sel == S_R && lenUpWide > 0) { Def w = u; w.upHosts = 4; w.maxLen = lenUpWide; add_def(w); }
                }
            }
        }
    }
}

// S3: growth. every list <= len over the small alphabet + n unrelated distinct tuples placed before / after / around it
//   (RefHashTableOf in ValueStore starts with 107 buckets and grows at load factor 0.75: 81 is the first size that rehashes)
static void space_growth(const std::vector<int>& ns, int len, bool all500) {
    for (int kind = 0; kind < NKIND; kind++) for (TypeId t : ALLTYPES) {
        if (t == T_BOOLEAN) continue;   // the value space has two members: no 50 distinct fillers
        for (int f : {F_ATK, F_K}) for (int n : ns) for (int place = 0; place < 3; place++) for (int scope : {SC_ROOT, SC_FLAT}) {
            if (scope == SC_FLAT && n != 50) continue;
            if (n >= 500 && !all500 && (place != 2 || f != F_ATK)) continue;
            if (n >= 50 && n < 500 && !all500 && f != F_ATK && scope == SC_ROOT) continue;
            if (n < 50 && !all500 && place != 2) continue;
            Def d; d.kind = kind; d.sel = S_R; d.fields = {f}; d.scope = scope; d.keyType = d.refType = t; d.vset = VSET_SMALL; d.maxLen = len;
            d.fillerN = n; d.fillerPlace = place;
            add_def(d);
        }
    }
}

static void make_cases(uint32_t chunk) {
    for (uint32_t di = 0; di < DEFS.size(); di++) {
        const Def& d = DEFS[di];
        uint32_t ch = d.scope == SC_ROOT ? 1 : (d.fillerN ? std::max<uint32_t>(1, chunk / (d.fillerN + 1)) : chunk);
        // chunks never straddle the boundary between list lengths < maxLen and = maxLen (the deepest level may run fewer configurations)
        uint64_t shallow = d.maxLen > 0 ? words_upto(d.items.size(), d.maxLen - 1) : 0;
        for (uint64_t f = 0; f < d.nLists;) {
            uint64_t lim = f < shallow ? shallow : d.nLists;
            uint32_t n = (uint32_t)std::min<uint64_t>(ch, lim - f);
            CASES.push_back({di, f, n});
            f += n;
        }
    }
}

// =============================================================================================== defect witnesses
// One minimal, strict, hand-written witness per entry of KNOWN_DEFECTS (same id).  The `witness` space runs them WITHOUT the KNOWN_DEFECTS guard and
// reports every one that still fails as a violation of kind `defect:<id>` (the framework turns those into KNOWN-FINDING lines).  The other spaces run
// the witnesses once at start-up and drop the skip predicate of every defect whose witness passes (= the defect has been fixed).
struct Witness { const char* id; const char* what; std::string xsd, xml; bool expectValid; const char* expected; };
static std::vector<Witness> WITNESSES;
static void init_witnesses() {
    const std::string H = "<d xmlns:xsi=\"http://www.w3.org/2001/XMLSchema-instance\" xsi:noNamespaceSchemaLocation=\"s.xsd\">";
    const std::string XS = "<xs:schema xmlns:xs=\"http://www.w3.org/2001/XMLSchema\">\n";
    const std::string upXsd = XS +
        "<xs:complexType name=\"C\"><xs:choice minOccurs=\"0\" maxOccurs=\"unbounded\"><xs:element ref=\"r\"/><xs:element ref=\"q\"/><xs:element ref=\"g\"/><xs:element ref=\"h\"/></xs:choice></xs:complexType>\n"
        "<xs:element name=\"d\" type=\"C\"/>\n"
        "<xs:element name=\"g\" type=\"C\"><xs:keyref name=\"KR\" refer=\"K\"><xs:selector xpath=\"q\"/><xs:field xpath=\"@k\"/></xs:keyref></xs:element>\n"
        "<xs:element name=\"h\" type=\"C\"><xs:key name=\"K\"><xs:selector xpath=\"r\"/><xs:field xpath=\"@k\"/></xs:key></xs:element>\n"
        "<xs:complexType name=\"R\"><xs:attribute name=\"k\" type=\"xs:integer\"/></xs:complexType>\n"
        "<xs:element name=\"r\" type=\"R\"/><xs:element name=\"q\" type=\"R\"/>\n</xs:schema>\n";
    WITNESSES.push_back({"sibling-scope-keys-lost-for-ancestor-keyref",
        "key on <h>, keyref on the enclosing <g>: the keys of the first <h> are wiped when a second sibling <h> starts (ValueStoreCache::initValueStoresFor clear()s the store transplant() published)",
        upXsd, H + "<g><h><r k=\"1\"/></h><h/><q k=\"1\"/></g></d>", true, "valid: the keyref value 1 is a key of the first <h> (no error)"});
    WITNESSES.push_back({"recursive-scope-false-field-multiple-match",
        "unique with selector .//r and element field k on a recursive element: FieldActivator::fMayMatch is shared by the two active instances of the constraint",
        XS + "<xs:complexType name=\"C\"><xs:choice minOccurs=\"0\" maxOccurs=\"unbounded\"><xs:element ref=\"r\"/><xs:element ref=\"g\"/></xs:choice></xs:complexType>\n"
             "<xs:element name=\"d\" type=\"C\"/>\n"
             "<xs:element name=\"g\" type=\"C\"><xs:unique name=\"U\"><xs:selector xpath=\".//r\"/><xs:field xpath=\"k\"/></xs:unique></xs:element>\n"
             "<xs:element name=\"r\"><xs:complexType><xs:sequence><xs:element name=\"k\" type=\"xs:integer\"/></xs:sequence></xs:complexType></xs:element>\n</xs:schema>\n",
        H + "<g><g><r><k>1</k></r></g></g></d>", true, "valid: every <r> has exactly one <k> (no error)"});
    WITNESSES.push_back({"keyref-out-of-scope-without-any-reference",
        "keyref that selects nothing while no element hosting the referenced key occurs: ValueStore::endDocumentFragment reports IC_KeyRefOutOfScope although 3.11.4 clause 4.3 is vacuously true",
        upXsd, H + "<g/></d>", true, "valid: the keyref has no member (no error)"});
    WITNESSES.push_back({"empty-string-of-related-types-unequal",
        "key field xs:token, keyref field xs:string, both values empty: ICValueHasher::isDuplicateOf answers dv1 == dv2 for two empty values",
        XS + "<xs:element name=\"d\"><xs:complexType><xs:choice minOccurs=\"0\" maxOccurs=\"unbounded\"><xs:element ref=\"r\"/><xs:element ref=\"q\"/></xs:choice></xs:complexType>\n"
             " <xs:key name=\"K\"><xs:selector xpath=\"r\"/><xs:field xpath=\"@k\"/></xs:key>\n"
             " <xs:keyref name=\"KR\" refer=\"K\"><xs:selector xpath=\"q\"/><xs:field xpath=\"@k\"/></xs:keyref></xs:element>\n"
             "<xs:element name=\"r\"><xs:complexType><xs:attribute name=\"k\" type=\"xs:token\"/></xs:complexType></xs:element>\n"
             "<xs:element name=\"q\"><xs:complexType><xs:attribute name=\"k\" type=\"xs:string\"/></xs:complexType></xs:element>\n</xs:schema>\n",
        H + "<r k=\"\"/><q k=\"\"/></d>", true, "valid: the empty token and the empty string are the same value (no error)"});
    WITNESSES.push_back({"float-not-rounded-to-single-precision",
        "xs:float literals 1 and 1.00000001 denote the same single-precision value but XMLFloat compares them in double precision",
        XS + "<xs:element name=\"d\"><xs:complexType><xs:sequence><xs:element ref=\"r\" maxOccurs=\"unbounded\"/></xs:sequence></xs:complexType>\n"
             " <xs:unique name=\"U\"><xs:selector xpath=\"r\"/><xs:field xpath=\"@k\"/></xs:unique></xs:element>\n"
             "<xs:element name=\"r\"><xs:complexType><xs:attribute name=\"k\" type=\"xs:float\"/></xs:complexType></xs:element>\n</xs:schema>\n",
        H + "<r k=\"1\"/><r k=\"1.00000001\"/></d>", false, "invalid: IC_DuplicateUnique (both literals map to the float 1.0)"});
}
// runs witness w under every configuration; returns "" if it behaves as the specification demands, else a description of what was observed
static std::string witness_observed(const Witness& w, std::string* cfgOut = nullptr) {
    for (auto& cfg : CFGS) {
        g_vfs->clear();
        g_vfs->put("/v/s.xsd", w.xsd);
        ParseResult r = validate(cfg, w.xml);
        g_vfs->clear();
        std::string all;
        bool dupUnique = false;
        for (auto& e : r.errors) { all += e + "\n"; if (classify(split_err(e).msg) == EC_DUP_UNIQUE) dupUnique = true; }
        bool bad = !r.exc.empty() || r.fatals || (w.expectValid ? !r.errors.empty() : !dupUnique);
        if (bad) {
            if (cfgOut) *cfgOut = cfg.str();
            if (!r.exc.empty()) return "exception " + r.exc;
            return all.empty() ? std::string("no error reported") : all;
        }
    }
    return "";
}
static void run_witness(uint64_t idx, Ctx& c) {
    const Witness& w = WITNESSES[idx];
    std::string cfg, obs = witness_observed(w, &cfg);
    c.count("witnesses_run");
    if (c.verbose) printf("witness %s\n  %s\nschema:\n%s\ndocument:\n%s\nexpected: %s\nobserved: %s\n", w.id, w.what, w.xsd.c_str(), w.xml.c_str(), w.expected, obs.empty() ? "as expected" : obs.c_str());
    if (obs.empty()) { c.count(std::string("witness_passes:") + w.id); return; }
    c.count(std::string("witness_fails:") + w.id);
    c.violation(std::string("defect:") + w.id, "\"what\":" + jstr(w.what) + ",\"config\":" + jstr(cfg) + ",\"document\":" + jstr(w.xml) + ",\"expected\":" + jstr(w.expected) + ",\"observed\":" + jstr(obs) +
                                                  ",\"schema\":" + jstr(w.xsd));
}

static std::string slurp(const std::string& p) {
    std::string s; FILE* f = fopen(p.c_str(), "rb"); if (!f) return s;
    char b[4096]; size_t n; while ((n = fread(b, 1, sizeof b, f)) > 0) s.append(b, n); fclose(f); return s;
}

int main(int argc, char** argv) {
    Args a(argc, argv);
    std::string space = a.str("space", "values");
    bool T = a.str("tier", "quick") == "thorough";
    init_values();
    xml_init();
    for (int sc : {IG, SG}) for (int api : {SAX2, DOM}) { Config c; c.api = api; c.scanner = sc; c.ns = true; c.schema = true; c.val = 1; c.idc = true; CFGS.push_back(c); }
    g_cfgmask = (unsigned)a.num("cfgs", 0xf);
    g_deepmask = (unsigned)a.num("deepcfgs", 0x9);
    g_deep_min_len = (int)a.num("deepminlen", 3);
    g_use_known = !a.has("no-known");
    g_conflicts_open = a.has("conflicts-open");
    {   // warm-up: the first schema load of a process builds the built-in datatype registry and other lazily initialised process-wide tables;
        // do it once in the parent so that the forked workers inherit it
        Def w; w.fields = {F_K}; build_def(w);
        g_vfs->clear(); g_vfs->put("/v/s.xsd", w.xsd); g_vfs->put("/v/p.xsd", w.pxsd);
        for (auto& cfg : CFGS) validate(cfg, std::string(DOC_OPEN) + "<g><r><k>1</k></r></g></d>");
        g_vfs->clear();
    }
    init_witnesses();
    if (space == "witness") {   // one strict witness per known defect, no KNOWN_DEFECTS guard
        Runner R;
        R.name = space; R.total = WITNESSES.size(); R.fn = run_witness;
        R.describe = [](uint64_t i) { return "{\"witness\":" + jstr(WITNESSES[i].id) + "}"; };
        R.extra_json = "\"bounds\":{\"witnesses\":" + std::to_string(WITNESSES.size()) + "},\"configs\":4";
        return R.main_tail(a);
    }
    std::string activeKnown;
    if (g_use_known) {   // a defect whose witness passes has been fixed: its lists are compared strictly again
        std::vector<KnownDefect> keep;
        for (auto& kd : KNOWN_DEFECTS) {
            bool fails = true;
            for (auto& w : WITNESSES) if (std::string(w.id) == kd.id) fails = !witness_observed(w).empty();
            if (fails) { keep.push_back(kd); activeKnown += std::string(activeKnown.empty() ? "" : ",") + jstr(kd.id); }
        }
        KNOWN_DEFECTS = keep;
    }
    if (space == "file") {   // probe: validate --xml against --xsd (and --pxsd) with all four configurations
        for (auto& cfg : CFGS) {
            g_vfs->clear();
            g_vfs->put("/v/s.xsd", slurp(a.str("xsd")));
            if (a.has("pxsd")) g_vfs->put("/v/p.xsd", slurp(a.str("pxsd")));
            ParseResult r = validate(cfg, slurp(a.str("xml")));
            printf("%s: exc=%s\n", cfg.str().c_str(), r.exc.c_str());
            for (auto& e : r.errors) printf("   %s\n", e.c_str());
        }
        return 0;
    }
    Runner R;
    R.name = space;
    auto N = [&](const char* k, int q, int t) { return (int)a.num(k, T ? t : q); };
    std::string bounds;
    if (space == "values" || space == "root") {
        Lens L;
        bool root = space == "root";
        L.core = N("core", root ? 2 : 3, root ? 3 : 4); L.ext = N("ext", root ? 0 : 2, root ? 1 : 3); L.nil = N("nil", root ? 1 : 3, root ? 2 : 4); L.small = N("small", 0, 0);
        L.refCore = N("refcore", root ? 0 : 2, root ? 2 : 3); L.refExt = N("refext", root ? 0 : 2, root ? 1 : 2); L.refNil = N("refnil", root ? 0 : 2, root ? 2 : 3);
        L.refSmall = N("refsmall", root ? 2 : 3, root ? 2 : 4);
        L.twoCarriers = N("twocarriers", 2, 3);
        L.refExtAllFields = T;
        if (root) space_values(SC_ROOT, L, T ? std::vector<int>{F_ATK, F_K, F_DOT} : std::vector<int>{F_ATK, F_K}, T);
        else space_values(SC_FLAT, L, {F_ATK, F_K, F_DOT, F_ATPK, F_KORATK});
        bounds = "\"list_len\":" + lens_json(L);
    } else if (space == "paths") {
        int l1 = N("len1", 2, 3), l1r = N("len1ref", 2, 2), l2 = N("len2", 1, 2), l2r = N("len2ref", 1, 1), pl = N("pairlen", 2, 3), plr = N("pairreflen", 2, 2);
        space_paths(SC_FLAT, l1, l1r, l2, l2r, true, T);
        space_pairs(SC_FLAT, pl, plr, T);
        bounds = "\"list_len\":{\"one_field\":" + std::to_string(l1) + ",\"one_field_ref\":" + std::to_string(l1r) + ",\"two_fields\":" + std::to_string(l2) + ",\"two_fields_ref\":" + std::to_string(l2r) +
                 ",\"typed_pairs\":" + std::to_string(pl) + ",\"typed_pairs_ref\":" + std::to_string(plr) + "}";
    } else if (space == "rootpaths") {
        int l1 = N("len1", 1, 2), l1r = N("len1ref", 1, 1);
        space_paths(SC_ROOT, l1, l1r, 0, 0, false, T);
        bounds = "\"list_len\":{\"one_field\":" + std::to_string(l1) + ",\"one_field_ref\":" + std::to_string(l1r) + "}";
    } else if (space == "scopes") {
        int lr = N("rec", 3, 4), lrr = N("recref", 2, 3), lu = N("up", 3, 4), luw = N("upwide", 4, 5);
        space_scopes(lr, lrr, lu, luw);
        bounds = "\"list_len\":{\"recursive\":" + std::to_string(lr) + ",\"recursive_ref\":" + std::to_string(lrr) + ",\"up\":" + std::to_string(lu) + ",\"up_four_hosts\":" + std::to_string(luw) + "}";
    } else if (space == "growth") {
        std::vector<int> ns;
        std::string s = a.str("n", T ? "1,50,81,500" : "1,50,500");
        for (size_t i = 0; i < s.size();) { size_t j = s.find(',', i); if (j == std::string::npos) j = s.size(); ns.push_back(atoi(s.substr(i, j - i).c_str())); i = j + 1; }
        int l = N("len", 1, 1);
        space_growth(ns, l, T);
        bounds = "\"list_len\":" + std::to_string(l) + ",\"fillers\":" + jstr(s);
    } else { fprintf(stderr, "unknown space %s\n", space.c_str()); return 2; }
    if (a.has("def")) { Def d = DEFS[a.num("def")]; DEFS = {d}; }
    make_cases((uint32_t)a.num("chunk", 256));
    uint64_t lists = 0, maxItems = 0;
    for (auto& d : DEFS) { lists += d.nLists; maxItems = std::max<uint64_t>(maxItems, d.items.size()); }
    if (a.has("count-only")) {
        printf("defs=%zu documents=%zu lists=%llu max_item_alphabet=%llu\n", DEFS.size(), CASES.size(), (unsigned long long)lists, (unsigned long long)maxItems);
        if (a.has("list-defs")) for (size_t i = 0; i < DEFS.size(); i++) printf("%zu: %s items=%zu lists=%llu\n", i, DEFS[i].describe().c_str(), DEFS[i].items.size(), (unsigned long long)DEFS[i].nLists);
        return 0;
    }
    R.total = CASES.size();
    R.fn = run_case;
    R.describe = [](uint64_t i) { const CaseRef& cr = CASES[i]; return "{\"def\":" + jstr(DEFS[cr.def].describe()) + ",\"first_list\":" + std::to_string(cr.first) + ",\"count\":" + std::to_string(cr.count) + "}"; };
    R.extra_json = "\"bounds\":{\"definitions\":" + std::to_string(DEFS.size()) + ",\"documents\":" + std::to_string(CASES.size()) + ",\"lists\":" + std::to_string(lists) +
                   ",\"max_item_alphabet\":" + std::to_string(maxItems) + "," + bounds + "},\"configs\":4,\"known_defects_active\":[" + activeKnown + "]";
    return R.main_tail(a);
}
