// c07_model.hpp - reference models for C07 (DTD validity), written from XML 1.0 (5th ed.) sections 3.2, 3.3, 2.9:
//   * content-spec AST, exhaustive enumerator of content-spec trees, renderer
//   * regular-language membership by Brzozowski derivatives (the oracle)
//   * an independent second matcher (end-position sets) used only to cross-check the oracle itself
//   * Glushkov position automaton determinism test (non-vacuity: how many enumerated models are non-deterministic)
//   * attribute-value normalisation and lexical checks (Name, Names, Nmtoken, Nmtokens)
// Nothing in this file calls into Xerces.
#pragma once
#include <algorithm>
#include <cstdint>
#include <cstdlib>
#include <functional>
#include <map>
#include <memory>
#include <set>
#include <string>
#include <vector>

namespace c07 {

// ------------------------------------------------------------------ content-spec AST
struct CS {
    int kind = 0;  // 0 leaf, 1 seq ',', 2 choice '|'
    int name = 0;  // leaf: index into "abc"
    int suf = 0;   // 0 none, 1 '?', 2 '*', 3 '+'
    std::vector<CS> kids;
};
static const char* SUFS[4] = {"", "?", "*", "+"};

inline void render(const CS& n, std::string& o) {
    if (n.kind == 0) o += (char)('a' + n.name);
    else {
        o += '(';
        for (size_t i = 0; i < n.kids.size(); i++) {
            if (i) o += (n.kind == 1 ? ',' : '|');
            render(n.kids[i], o);
        }
        o += ')';
    }
    o += SUFS[n.suf];
}
inline std::string render(const CS& n) { std::string o; render(n, o); return o; }
inline int count_leaves(const CS& n) { if (n.kind == 0) return 1; int t = 0; for (auto& k : n.kids) t += count_leaves(k); return t; }
inline int count_nodes(const CS& n) { int t = 1; for (auto& k : n.kids) t += count_nodes(k); return t; }
inline int count_sufs(const CS& n) { int t = n.suf ? 1 : 0; for (auto& k : n.kids) t += count_sufs(k); return t; }
inline void assign_names(CS& n, const std::vector<int>& names, size_t& pos) {
    if (n.kind == 0) n.name = names[pos++];
    else for (auto& k : n.kids) assign_names(k, names, pos);
}

// All cp trees (XML production [48]) with exactly n leaves whose group nesting is <= depth; leaves unnamed.
// Multi-child groups only (no single-child parentheses here; the top-level wrapper is added by gen_top).
inline const std::vector<CS>& gen_cp(int n, int depth) {
    static std::map<std::pair<int, int>, std::vector<CS>> memo;
    auto key = std::make_pair(n, depth);
    auto it = memo.find(key);
    if (it != memo.end()) return it->second;
    std::vector<CS> out;
    if (n == 1)
        for (int s = 0; s < 4; s++) { CS l; l.kind = 0; l.suf = s; out.push_back(l); }
    if (depth > 0 && n >= 2) {
        // compositions of n into k>=2 positive parts
        std::vector<std::vector<int>> comps;
        std::vector<int> cur;
        std::function<void(int)> rec = [&](int rem) {
            if (rem == 0) { if (cur.size() >= 2) comps.push_back(cur); return; }
            for (int p = 1; p <= rem; p++) { cur.push_back(p); rec(rem - p); cur.pop_back(); }
        };
        rec(n);
        for (int op = 1; op <= 2; op++)
            for (auto& comp : comps) {
                std::vector<const std::vector<CS>*> parts;
                bool ok = true;
                for (int p : comp) { parts.push_back(&gen_cp(p, depth - 1)); if (parts.back()->empty()) ok = false; }
                if (!ok) continue;
                std::vector<size_t> ix(comp.size(), 0);
                while (true) {
                    CS g; g.kind = op;
                    for (size_t i = 0; i < comp.size(); i++) g.kids.push_back((*parts[i])[ix[i]]);
                    for (int s = 0; s < 4; s++) { g.suf = s; out.push_back(g); }
                    size_t j = comp.size();
                    while (j > 0) { j--; if (++ix[j] < parts[j]->size()) break; ix[j] = 0; if (j == 0) { j = SIZE_MAX; break; } }
                    if (j == SIZE_MAX) break;
                }
            }
    }
    return memo[key] = out;
}

// Top-level 'children' productions: a parenthesised group with suffix. wrap: also "(cp)suffix" with a single child cp
// (cp a leaf or a multi-child group).
inline std::vector<CS> gen_top(int n, int depth, bool wrap) {
    std::vector<CS> out;
    for (auto& g : gen_cp(n, depth)) if (g.kind != 0) out.push_back(g);
    if (wrap)
        for (auto& c : gen_cp(n, depth - 1 < 0 ? 0 : depth - 1)) {
            for (int s = 0; s < 4; s++) { CS g; g.kind = 1; g.suf = s; g.kids.push_back(c); out.push_back(g); }
        }
    return out;
}

// namings of n leaf positions over {a,b,c}: all 3^n, or canonical (restricted growth: first occurrences in order a,b,c)
inline std::vector<std::vector<int>> namings(int n, bool canonical) {
    std::vector<std::vector<int>> out;
    std::vector<int> cur(n, 0);
    std::function<void(int, int)> rec = [&](int i, int maxUsed) {
        if (i == n) { out.push_back(cur); return; }
        for (int v = 0; v < 3; v++) {
            if (canonical && v > maxUsed + 1) break;
            cur[i] = v;
            rec(i + 1, std::max(maxUsed, v));
        }
    };
    rec(0, -1);
    return out;
}

// ------------------------------------------------------------------ Brzozowski derivatives
struct Re;
typedef std::shared_ptr<const Re> RP;
struct Re { int t; int sym; RP a, b; };  // t: 0 empty set, 1 epsilon, 2 symbol, 3 cat, 4 alt, 5 star
inline RP re_null() { static RP r(new Re{0, 0, nullptr, nullptr}); return r; }
inline RP re_eps() { static RP r(new Re{1, 0, nullptr, nullptr}); return r; }
inline RP re_sym(int s) { return RP(new Re{2, s, nullptr, nullptr}); }
inline RP re_cat(RP a, RP b) {
    if (a->t == 0 || b->t == 0) return re_null();
    if (a->t == 1) return b;
    if (b->t == 1) return a;
    return RP(new Re{3, 0, a, b});
}
inline RP re_alt(RP a, RP b) {
    if (a->t == 0) return b;
    if (b->t == 0) return a;
    return RP(new Re{4, 0, a, b});
}
inline RP re_star(RP a) {
    if (a->t == 0 || a->t == 1) return re_eps();
    return RP(new Re{5, 0, a, nullptr});
}
inline bool nullable(const RP& r) {
    switch (r->t) {
    case 0: return false;
    case 1: return true;
    case 2: return false;
    case 3: return nullable(r->a) && nullable(r->b);
    case 4: return nullable(r->a) || nullable(r->b);
    default: return true;
    }
}
inline RP deriv(const RP& r, int x) {
    switch (r->t) {
    case 0: case 1: return re_null();
    case 2: return r->sym == x ? re_eps() : re_null();
    case 3: {
        RP d = re_cat(deriv(r->a, x), r->b);
        return nullable(r->a) ? re_alt(d, deriv(r->b, x)) : d;
    }
    case 4: return re_alt(deriv(r->a, x), deriv(r->b, x));
    default: return re_cat(deriv(r->a, x), r);
    }
}
// XML 1.0 section 3.2.1: Name | choice | seq, followed by optional ? * +
inline RP to_re(const CS& n) {
    RP base;
    if (n.kind == 0) base = re_sym(n.name);
    else if (n.kind == 1) { base = re_eps(); for (auto& k : n.kids) base = re_cat(base, to_re(k)); }
    else { base = re_null(); for (auto& k : n.kids) base = re_alt(base, to_re(k)); }
    switch (n.suf) {
    case 1: return re_alt(base, re_eps());
    case 2: return re_star(base);
    case 3: return re_cat(base, re_star(base));
    default: return base;
    }
}
inline bool member_deriv(const RP& r0, const std::vector<int>& w) {
    RP r = r0;
    for (int x : w) { r = deriv(r, x); if (r->t == 0) return false; }
    return nullable(r);
}

// ------------------------------------------------------------------ independent matcher: sets of end positions (bit masks)
inline unsigned ends_base(const CS& n, const std::vector<int>& w, unsigned starts);
inline unsigned ends(const CS& n, const std::vector<int>& w, unsigned starts) {
    switch (n.suf) {
    case 0: return ends_base(n, w, starts);
    case 1: return starts | ends_base(n, w, starts);
    default: {
        // '*': zero or more iterations, '+': one or more; iterate to the fixpoint over the (finite) position set
        unsigned acc = n.suf == 2 ? starts : 0, frontier = starts;
        while (frontier) {
            unsigned nx = ends_base(n, w, frontier);
            frontier = nx & ~acc;
            acc |= nx;
        }
        return acc;
    }
    }
}
inline unsigned ends_base(const CS& n, const std::vector<int>& w, unsigned starts) {
    if (n.kind == 0) {
        unsigned o = 0;
        for (size_t i = 0; i < w.size(); i++) if ((starts >> i & 1) && w[i] == n.name) o |= 1u << (i + 1);
        return o;
    }
    if (n.kind == 1) { unsigned s = starts; for (auto& k : n.kids) { s = ends(k, w, s); if (!s) break; } return s; }
    unsigned o = 0;
    for (auto& k : n.kids) o |= ends(k, w, starts);
    return o;
}
inline bool member_pos(const CS& n, const std::vector<int>& w) { return (ends(n, w, 1u) >> w.size()) & 1; }

// ------------------------------------------------------------------ Glushkov determinism (1-unambiguity) test
struct Glu { bool nullable; std::set<int> first, last; };
inline Glu glushkov(const CS& n, std::vector<int>& symOf, std::vector<std::set<int>>& follow) {
    Glu g;
    if (n.kind == 0) {
        int p = (int)symOf.size(); symOf.push_back(n.name); follow.emplace_back();
        g.nullable = false; g.first = {p}; g.last = {p};
    } else if (n.kind == 1) {
        g.nullable = true;
        for (auto& k : n.kids) {
            Glu h = glushkov(k, symOf, follow);
            for (int l : g.last) follow[l].insert(h.first.begin(), h.first.end());
            if (g.nullable) g.first.insert(h.first.begin(), h.first.end());
            if (h.nullable) g.last.insert(h.last.begin(), h.last.end()); else g.last = h.last;
            g.nullable = g.nullable && h.nullable;
        }
    } else {
        g.nullable = false;
        for (auto& k : n.kids) {
            Glu h = glushkov(k, symOf, follow);
            g.first.insert(h.first.begin(), h.first.end()); g.last.insert(h.last.begin(), h.last.end());
            g.nullable = g.nullable || h.nullable;
        }
    }
    if (n.suf == 2 || n.suf == 3) for (int l : g.last) follow[l].insert(g.first.begin(), g.first.end());
    if (n.suf == 1 || n.suf == 2) g.nullable = true;
    return g;
}
inline bool is_deterministic(const CS& n) {
    std::vector<int> symOf; std::vector<std::set<int>> follow;
    Glu g = glushkov(n, symOf, follow);
    auto clash = [&](const std::set<int>& s) { std::set<int> seen; for (int p : s) if (!seen.insert(symOf[p]).second) return true; return false; };
    if (clash(g.first)) return false;
    for (auto& f : follow) if (clash(f)) return false;
    return true;
}

// which XMLContentModel implementation DTDElementDecl::createChildModel would select for this syntax tree
// (mirrors the shape test only; used for non-vacuity counters, not for verdicts)
inline bool predicted_simple(const CS& top) {
    // strip the syntactic single-child wrapper: "(x)s" is the node x with repetition s applied on top
    const CS* n = &top;
    int reps = 0;
    bool leafUnder = false, binLeaves = false;
    while (true) {
        if (n->suf) reps++;
        if (n->kind == 0) { leafUnder = true; break; }
        if (n->kids.size() == 1) { n = &n->kids[0]; continue; }
        if (n->kids.size() == 2 && n->kids[0].kind == 0 && n->kids[1].kind == 0 && !n->kids[0].suf && !n->kids[1].suf) binLeaves = true;
        break;
    }
    if (leafUnder) return reps <= 1;
    return binLeaves && reps == 0;
}

// ------------------------------------------------------------------ attribute values
inline bool is_name_start(unsigned char c) { return (c >= 'a' && c <= 'z') || (c >= 'A' && c <= 'Z') || c == '_' || c == ':'; }
inline bool is_name_char(unsigned char c) { return is_name_start(c) || (c >= '0' && c <= '9') || c == '-' || c == '.'; }
inline bool is_name(const std::string& s) {
    if (s.empty() || !is_name_start(s[0])) return false;
    for (unsigned char c : s) if (!is_name_char(c)) return false;
    return true;
}
inline bool is_nmtoken(const std::string& s) {
    if (s.empty()) return false;
    for (unsigned char c : s) if (!is_name_char(c)) return false;
    return true;
}
// split on single #x20; returns false if the string is not of the form T (#x20 T)* with non-empty T (no check of T itself)
inline bool split_tokens(const std::string& s, std::vector<std::string>& out) {
    out.clear();
    std::string cur;
    for (char c : s) {
        if (c == ' ') { if (cur.empty()) return false; out.push_back(cur); cur.clear(); }
        else cur += c;
    }
    if (cur.empty()) return false;
    out.push_back(cur);
    return true;
}
// XML 1.0 section 3.3.3.  raw: the literal between the quotes; only decimal character references are used by the harness.
inline std::string normalize_att(const std::string& raw, bool cdata) {
    std::string v;
    for (size_t i = 0; i < raw.size(); i++) {
        char c = raw[i];
        if (c == '&' && i + 1 < raw.size() && raw[i + 1] == '#') {
            size_t j = raw.find(';', i);
            v += (char)atoi(raw.substr(i + 2, j - i - 2).c_str());
            i = j;
        } else if (c == '\t' || c == '\n' || c == '\r') v += ' ';
        else v += c;
    }
    if (cdata) return v;
    std::string o;
    bool pendingSpace = false;
    for (char c : v) {
        if (c == ' ') { pendingSpace = !o.empty(); continue; }
        if (pendingSpace) { o += ' '; pendingSpace = false; }
        o += c;
    }
    return o;
}

}  // namespace c07
