// c05_xcode - bounded-exhaustive checks of the XMLTranscoder implementations (property C05) through the public API
//   XMLPlatformUtils::fgTransService->makeNewTranscoderFor(name, ...) -> transcodeFrom / transcodeTo / canTranscodeTo,
//   TranscodeFromStr / TranscodeToStr.
// Spaces (--space):
//   utf8dec   every byte string of length <= 4 (or the quick subset) decoded by the UTF-8 transcoder vs the Table 3-7 DFA
//   enc       every Unicode scalar value encoded by every listed encoding vs arithmetic (UTF-*) / ICU ucnv (code pages);
//             canTranscodeTo; decode(encode(c)) == c; source blocks ending inside a surrogate pair; output blocks 1..8 bytes
//   utf16     UTF-16LE/BE: every unit and unit pairs, odd byte counts, output blocks
//   ucs4      UCS-4LE/BE decode of 32-bit values (every value < 2^24 + byte-class product, or the quick subset)
//   sbcs      every byte of every single-byte encoding (intrinsic and ICU-provided) vs ICU ucnv; alias names
//   mbcs      ICU-provided multi-byte encodings: every 1- and 2-byte sequence (+ listed longer prefixes) vs ICU ucnv
//   split     words over a character alphabet x every encoding x every split offset x every maxChars (streamed decode),
//             every proper prefix through TranscodeFromStr, whole words through TranscodeToStr
//   witness   one minimal case per entry of KNOWN_DEFECTS, always reported strictly
#include "c05_ref.hpp"
#include <xercesc/util/XMLUni.hpp>
using namespace xv;
using namespace c05;

// =================================================================================================
// generic comparison of one transcodeFrom call with a reference parse
// =================================================================================================
struct Expect {
    // what a correct decoder may do with (input, maxChars), derived from the reference parse
    size_t j_fit;           // number of complete characters that fit into maxChars
    bool may_throw;         // an exception is acceptable (ill-formed sequence reachable)
    bool must_throw;        // ... and required (no legal way to defer)
};

static std::string check_from(const RefParse& rp, const FromRes& r, size_t maxChars, bool sizes_exact, std::string* outcome) {
    size_t k = rp.items.size();
    size_t units = 0, j_fit = 0;
    while (j_fit < k && units + rp.items[j_fit].nunits <= maxChars) { units += rp.items[j_fit].nunits; j_fit++; }
    bool reaches_term = (j_fit == k);
    if (r.threw) {
        if (rp.term == RefParse::ILLFORMED && reaches_term) { *outcome = "rejected:" + r.exc; return ""; }
        if (rp.term == RefParse::INCOMPLETE) return "exception on an input that merely ends inside a (so far legal) sequence: " + r.exc;
        return "exception although the input is well-formed (or the ill-formed part is beyond maxChars): " + r.exc;
    }
    // locate the character boundary bytesEaten corresponds to
    size_t j = 0, b = 0;
    while (j < k && b < r.eaten) { b += rp.items[j].nbytes; j++; }
    if (b != r.eaten) return "bytesEaten=" + std::to_string(r.eaten) + " is not a character boundary of the legal prefix (ill-formed or partial bytes consumed)";
    U16 want = rp.units(j);
    if (r.out != want) return "decoded units differ: expected [" + hex16(want) + "] observed [" + hex16(r.out) + "] for bytesEaten=" + std::to_string(r.eaten);
    if (sizes_exact) {
        std::vector<uint8_t> ws;
        for (size_t i = 0; i < j; i++) { ws.push_back(rp.items[i].nbytes); if (rp.items[i].nunits == 2) ws.push_back(0); }
        if (ws != r.sizes) return "charSizes differ: expected " + hexv(ws) + " observed " + hexv(r.sizes);
    }
    if (j > j_fit) return "more characters than maxChars allows";
    if (j == j_fit) {
        if (!reaches_term || rp.term == RefParse::END) { *outcome = "decoded"; return ""; }
        if (rp.term == RefParse::INCOMPLETE) { *outcome = "decoded+deferred-incomplete"; return ""; }
        // ill-formed sequence reached, no exception
        if (units == maxChars) { *outcome = "decoded(full)"; return ""; }
        if (rp.avail < (size_t)rp.announced) { *outcome = "deferred-illformed-short"; return ""; }
        if (k >= 1) { *outcome = "deferred-illformed-after-progress"; return ""; }
        return "ill-formed sequence with all announced bytes present was neither decoded nor rejected (0 chars, 0 bytes, no exception)";
    }
    // j < j_fit: stopped early
    return "stopped after " + std::to_string(j) + " characters although " + std::to_string(j_fit) + " complete characters fit";
}

// =================================================================================================
// space utf8dec
// =================================================================================================
static XMLTranscoder* g_utf8 = nullptr;
static int g_u8mode = 0;  // 0: len<=3 all (+quick 4-byte subset)   1: all 4-byte strings
struct U8Case { int len; uint32_t prefix; int kind; };  // kind 0: enumerate all tails; 1: quick subset filter
static std::vector<U8Case> g_u8cases;


// outcome codes of the lean path
enum { O_DECODED, O_DEC_INCOMPLETE, O_DEFER_ILL_SHORT, O_REJECTED, O_MULTI, O_SUPP, O_N };
static const char* O_NAME[O_N] = {"decoded", "decoded+deferred-incomplete", "deferred-illformed-short", "rejected", "wellformed_with_multibyte", "wellformed_with_supplementary"};
struct LocalCounts {
    uint64_t o[O_N] = {0};
    std::map<int, uint64_t> exc;            // exception code -> count
    std::map<std::string, uint64_t> m;      // slow-path outcomes
    void flush(Ctx& c) {
        for (int i = 0; i < O_N; i++) if (o[i]) c.count(O_NAME[i], o[i]);
        for (auto& kv : exc) c.count("rejected:code" + std::to_string(kv.first), kv.second);
        for (auto& kv : m) c.count(kv.first, kv.second);
    }
};

static void u8_slow(Ctx& c, const uint8_t* s, size_t n, LocalCounts& lc) {
    RefParse rp = ref_utf8_parse(s, n);
    FromRes r = x_from(g_utf8, s, n, 8);
    std::string outcome;
    std::string err = check_from(rp, r, 8, true, &outcome);
    if (!err.empty()) {
        c.violation("utf8-decode", "\"input_hex\":" + jstr(hexb(s, n)) + ",\"problem\":" + jstr(err) + ",\"ref_term\":" + std::to_string((int)rp.term));
        if (c.verbose) printf("utf8dec %s: %s\n", hexb(s, n).c_str(), err.c_str());
        return;
    }
    lc.m["slowpath:" + outcome]++;
}

// lean path: no heap traffic; anything that is not one of the four plain outcomes goes through u8_slow
static inline void u8_one(Ctx& c, const uint8_t* s, size_t n, LocalCounts& lc) {
    const Utf8Dfa& D = utf8_dfa();
    uint16_t want[8]; uint8_t wsz[8];
    size_t nu = 0, i = 0; int term = RefParse::END; size_t term_pos = n; bool multi = false, supp = false;
    while (i < n) {
        int st = U8_START; size_t j = i; uint32_t cp = 0; bool done = false;
        while (j < n) {
            uint8_t b = s[j]; int nx = D.next[st][b];
            if (nx == U8_REJ) { term = RefParse::ILLFORMED; term_pos = i; goto parsed; }
            if (st == U8_START) cp = b < 0x80 ? b : b < 0xE0 ? (b & 0x1Fu) : b < 0xF0 ? (b & 0x0Fu) : (b & 0x07u);
            else cp = (cp << 6) | (b & 0x3Fu);
            j++; st = nx;
            if (st == U8_START) { done = true; break; }
        }
        if (!done) { term = RefParse::INCOMPLETE; term_pos = i; goto parsed; }
        if (cp >= 0x10000) { uint32_t v = cp - 0x10000; want[nu] = (uint16_t)(0xD800 + (v >> 10)); wsz[nu++] = (uint8_t)(j - i); want[nu] = (uint16_t)(0xDC00 + (v & 0x3FF)); wsz[nu++] = 0; supp = true; }
        else { want[nu] = (uint16_t)cp; wsz[nu++] = (uint8_t)(j - i); }
        if (j - i > 1) multi = true;
        i = j;
    }
parsed:
    uint8_t* src = g_src.get(n);
    if (n) memcpy(src, s, n);
    XMLCh* out = (XMLCh*)g_dst.get(8 * sizeof(XMLCh));
    uint8_t* sz = g_sz.get(8);
    XMLSize_t eaten = 0, got = 0; int code = -1;
    try { got = g_utf8->transcodeFrom(src, n, out, 8, eaten, sz); }
    catch (const XMLException& e) { code = (int)e.getCode(); }
    if (code >= 0) {
        if (term == RefParse::ILLFORMED) { lc.o[O_REJECTED]++; lc.exc[code]++; return; }
        u8_slow(c, s, n, lc); return;
    }
    if (eaten == term_pos && got == nu && memcmp(out, want, nu * 2) == 0 && memcmp(sz, wsz, nu) == 0) {
        if (term == RefParse::END) { lc.o[O_DECODED]++; if (multi) lc.o[O_MULTI]++; if (supp) lc.o[O_SUPP]++; return; }
        if (term == RefParse::INCOMPLETE) { lc.o[O_DEC_INCOMPLETE]++; return; }
        if ((n - term_pos) < (size_t)utf8_announced_len(s[term_pos])) { lc.o[O_DEFER_ILL_SHORT]++; return; }
    }
    u8_slow(c, s, n, lc);
}

// every edge of every byte range of Table 3-7 (and its neighbours), plus one plain ASCII letter and one mid continuation byte
static const int U8_BOUNDARY[32] = {0x00, 0x41, 0x7F, 0x80, 0x8F, 0x90, 0x9F, 0xA0, 0xB0, 0xBF, 0xC0, 0xC1, 0xC2, 0xDF, 0xE0, 0xE1,
                                    0xEC, 0xED, 0xEE, 0xEF, 0xF0, 0xF1, 0xF3, 0xF4, 0xF5, 0xF7, 0xF8, 0xFB, 0xFC, 0xFD, 0xFE, 0xFF};
static bool u8_is_boundary(int b) { for (int x : U8_BOUNDARY) if (x == b) return true; return false; }

static void run_utf8dec(uint64_t idx, Ctx& c) {
    const U8Case& k = g_u8cases[idx];
    LocalCounts lc;
    uint8_t s[4];
    uint64_t strings = 0;
    if (k.len <= 2) {  // the single case holding all strings of length 0,1,2
        u8_one(c, s, 0, lc); strings++;
        for (int a = 0; a < 256; a++) { s[0] = (uint8_t)a; u8_one(c, s, 1, lc); strings++; }
        for (int a = 0; a < 256; a++) for (int b = 0; b < 256; b++) { s[0] = (uint8_t)a; s[1] = (uint8_t)b; u8_one(c, s, 2, lc); strings++; }
    } else if (k.len == 3) {
        s[0] = (uint8_t)k.prefix;
        for (int a = 0; a < 256; a++) for (int b = 0; b < 256; b++) { s[1] = (uint8_t)a; s[2] = (uint8_t)b; u8_one(c, s, 3, lc); strings++; }
    } else {
        s[0] = (uint8_t)(k.prefix >> 8); s[1] = (uint8_t)(k.prefix & 0xFF);
        for (int a = 0; a < 256; a++) {
            s[2] = (uint8_t)a;
            if (k.kind == 1) {  // quick subset: the first three bytes must be a legal (possibly incomplete) prefix
                RefParse p3 = ref_utf8_parse(s, 3);
                if (p3.term == RefParse::ILLFORMED) continue;
            }
            if (k.kind == 2) {  // boundary-byte product: third and fourth byte from U8_BOUNDARY only
                if (!u8_is_boundary(a)) continue;
                for (int b = 0; b < 256; b++) { if (!u8_is_boundary(b)) continue; s[3] = (uint8_t)b; u8_one(c, s, 4, lc); strings++; }
                continue;
            }
            for (int b = 0; b < 256; b++) { s[3] = (uint8_t)b; u8_one(c, s, 4, lc); strings++; }
        }
    }
    lc.flush(c);
    c.count("strings", strings);
    if (idx % 997 == 0) c.sample("{\"len\":" + std::to_string(k.len) + ",\"prefix_hex\":" + jstr(k.len <= 2 ? "" : k.len == 3 ? hexb(s, 1) : hexb(s, 2)) + "}");
}

static void setup_utf8dec(const Args& a, Runner& R) {
    g_utf8 = make_tc("UTF-8");
    std::string mode = a.str("mode", "quick");
    g_u8cases.push_back(U8Case{2, 0, 0});
    for (int b = 0; b < 256; b++) g_u8cases.push_back(U8Case{3, (uint32_t)b, 0});
    if (mode == "quick") {
        // 4-byte strings: (a) every string over the 32 boundary bytes (32^4); (b) every string whose first byte is F0..F7 and whose
        // second byte is one of 16 boundary values, with ALL third and fourth bytes
        static const int B1[] = {0x00, 0x7F, 0x80, 0x8F, 0x90, 0x9F, 0xA0, 0xBF, 0xC0, 0xC2, 0xE0, 0xED, 0xF0, 0xF4, 0xF5, 0xFF};
        std::set<uint32_t> full;
        for (int b0 = 0xF0; b0 <= 0xF7; b0++) for (int b1 : B1) full.insert((uint32_t)(b0 << 8 | b1));
        for (uint32_t p : full) g_u8cases.push_back(U8Case{4, p, 0});
        for (int b0 : U8_BOUNDARY) for (int b1 : U8_BOUNDARY) { uint32_t p = (uint32_t)(b0 << 8 | b1); if (!full.count(p)) g_u8cases.push_back(U8Case{4, p, 2}); }
    } else if (mode == "thorough") {
        // every 4-byte string whose first byte is C0..FF (all lead-byte rows of Table 3-7 and all illegal leads), and every 4-byte
        // string whose first byte is a boundary value of the two remaining rows (00..7F: 00,41,7F; 80..BF: 80,BF)
        for (uint32_t b0 = 0xC0; b0 < 256; b0++) for (uint32_t b1 = 0; b1 < 256; b1++) g_u8cases.push_back(U8Case{4, b0 << 8 | b1, 0});
        for (uint32_t b0 : {0x00u, 0x41u, 0x7Fu, 0x80u, 0xBFu}) for (uint32_t b1 = 0; b1 < 256; b1++) g_u8cases.push_back(U8Case{4, b0 << 8 | b1, 0});
    } else if (mode == "all4") {
        g_u8cases.clear();
        for (uint32_t p = 0; p < 65536; p++) g_u8cases.push_back(U8Case{4, p, 0});
    } else if (mode == "slice4") {  // 1/256 slice of the 4-byte space (second byte == slice) for the asan cross-check of the fast run
        g_u8cases.clear();
        uint32_t sl = (uint32_t)a.num("slice", 0x80);
        for (uint32_t b0 = 0; b0 < 256; b0++) g_u8cases.push_back(U8Case{4, b0 << 8 | sl, 0});
    }
    R.total = g_u8cases.size();
    R.fn = run_utf8dec;
    R.describe = [](uint64_t i) { return "{\"len\":" + std::to_string(g_u8cases[i].len) + ",\"prefix\":" + std::to_string(g_u8cases[i].prefix) + "}"; };
    R.extra_json = "\"bounds\":" + jstr("utf8dec mode=" + mode);
}

// =================================================================================================
// encodings under test
// =================================================================================================
enum RefKind { R_UTF8, R_UTF16LE, R_UTF16BE, R_UCS4LE, R_UCS4BE, R_ICU };
struct Enc {
    const char* xname;     // name handed to makeNewTranscoderFor
    RefKind kind;
    const char* icuname;   // reference converter for R_ICU
    bool intrinsic;        // implemented by Xerces itself (stateless contract: call-level checks apply)
    bool all_repr;         // every scalar value is representable
    int maxlen;            // longest byte sequence of one character
};
static const Enc ENCS[] = {
    {"UTF-8", R_UTF8, nullptr, true, true, 4},
    {"UTF-16LE", R_UTF16LE, nullptr, true, true, 4},
    {"UTF-16BE", R_UTF16BE, nullptr, true, true, 4},
    {"UCS-4LE", R_UCS4LE, nullptr, true, true, 4},
    {"UCS-4BE", R_UCS4BE, nullptr, true, true, 4},
    {"ISO-8859-1", R_ICU, "ISO-8859-1", true, false, 1},
    {"US-ASCII", R_ICU, "US-ASCII", true, false, 1},
    {"WINDOWS-1252", R_ICU, "windows-1252", true, false, 1},
    {"IBM037", R_ICU, "ibm-37", true, false, 1},
    {"IBM1047", R_ICU, "ibm-1047", true, false, 1},
    {"IBM1140", R_ICU, "ibm-1140", true, false, 1},
    // provided by the ICU transcoding service (Xerces' ICUTranscoder wrapper is what is under test)
    {"ISO-8859-2", R_ICU, "ISO-8859-2", false, false, 1},
    {"ISO-8859-15", R_ICU, "ISO-8859-15", false, false, 1},
    {"KOI8-R", R_ICU, "KOI8-R", false, false, 1},
    {"windows-1251", R_ICU, "windows-1251", false, false, 1},
    {"IBM500", R_ICU, "ibm-500", false, false, 1},
    {"Shift_JIS", R_ICU, "Shift_JIS", false, false, 2},
    {"EUC-JP", R_ICU, "EUC-JP", false, false, 3},
    {"GB2312", R_ICU, "GB2312", false, false, 2},
    {"Big5", R_ICU, "Big5", false, false, 2},
    {"EUC-KR", R_ICU, "EUC-KR", false, false, 2},
    {"GB18030", R_ICU, "GB18030", false, true, 4},
};
static const int NENC = sizeof(ENCS) / sizeof(ENCS[0]);
static IcuRef* g_icu[NENC];   // opened before fork, one per encoding (R_ICU only)
static int enc_index(const std::string& n) { for (int i = 0; i < NENC; i++) if (n == ENCS[i].xname) return i; return -1; }
static std::vector<int> g_encsel;
static void select_encs(const Args& a) {
    std::string sel = a.str("encs", "all");
    for (int i = 0; i < NENC; i++) {
        bool take = sel == "all" || (sel == "intrinsic" && ENCS[i].intrinsic) || (sel == "icu" && !ENCS[i].intrinsic) || ("," + sel + ",").find(std::string(",") + ENCS[i].xname + ",") != std::string::npos;
        if (!take) continue;
        if (ENCS[i].kind == R_ICU) {
            g_icu[i] = new IcuRef();
            if (!g_icu[i]->open(ENCS[i].icuname)) { fprintf(stderr, "reference converter %s unavailable\n", ENCS[i].icuname); exit(2); }
        }
        XMLTranscoder* t = make_tc(ENCS[i].xname);
        if (!t) { fprintf(stderr, "Xerces cannot make a transcoder for %s\n", ENCS[i].xname); exit(2); }
        delete t;
        g_encsel.push_back(i);
    }
}

// reference encoding of one scalar value; false = not representable
static bool ref_encode(int ei, uint32_t cp, Bytes& out) {
    switch (ENCS[ei].kind) {
    case R_UTF8: out = ref_utf8_encode(cp); return true;
    case R_UTF16LE: out = ref_utf16_encode(cp, false); return true;
    case R_UTF16BE: out = ref_utf16_encode(cp, true); return true;
    case R_UCS4LE: out = ref_utf32_encode(cp, false); return true;
    case R_UCS4BE: out = ref_utf32_encode(cp, true); return true;
    default: return g_icu[ei]->encode_cp(cp, out);
    }
}
static bool ref_encode_units(int ei, const U16& u, Bytes& out) {  // u well-formed
    out.clear();
    for (size_t i = 0; i < u.size(); i++) {
        uint32_t cp = u[i];
        if (cp >= 0xD800 && cp <= 0xDBFF && i + 1 < u.size()) { cp = 0x10000 + ((cp - 0xD800) << 10) + (u[i + 1] - 0xDC00); i++; }
        Bytes b;
        if (!ref_encode(ei, cp, b)) return false;
        out += b;
    }
    return true;
}

// generic reference parse of a byte string in encoding ei
static RefParse ref_parse(int ei, const uint8_t* s, size_t n) {
    const Enc& E = ENCS[ei];
    RefParse r;
    if (E.kind == R_UTF8) return ref_utf8_parse(s, n);
    if (E.kind == R_UTF16LE || E.kind == R_UTF16BE) {
        // XMLCh *is* the UTF-16 code unit: the transcoder level is a unit copy (pairing is checked by the scanner, see c05_docs)
        size_t i = 0;
        for (; i + 2 <= n; i += 2) {
            uint32_t u = E.kind == R_UTF16LE ? (s[i] | s[i + 1] << 8) : (s[i] << 8 | s[i + 1]);
            r.items.push_back(RefItem{u, 2, 1});
        }
        if (i < n) { r.term = RefParse::INCOMPLETE; r.term_pos = i; r.announced = 2; r.avail = n - i; }
        else { r.term = RefParse::END; r.term_pos = n; }
        return r;
    }
    if (E.kind == R_UCS4LE || E.kind == R_UCS4BE) {
        size_t i = 0;
        for (; i + 4 <= n; i += 4) {
            uint32_t v = E.kind == R_UCS4LE ? ((uint32_t)s[i] | (uint32_t)s[i + 1] << 8 | (uint32_t)s[i + 2] << 16 | (uint32_t)s[i + 3] << 24)
                                            : ((uint32_t)s[i] << 24 | (uint32_t)s[i + 1] << 16 | (uint32_t)s[i + 2] << 8 | (uint32_t)s[i + 3]);
            if (!is_scalar(v)) { r.term = RefParse::ILLFORMED; r.term_pos = i; r.announced = 4; r.avail = n - i; return r; }
            r.items.push_back(RefItem{v, 4, (uint8_t)(v >= 0x10000 ? 2 : 1)});
        }
        if (i < n) { r.term = RefParse::INCOMPLETE; r.term_pos = i; r.announced = 4; r.avail = n - i; }
        else { r.term = RefParse::END; r.term_pos = n; }
        return r;
    }
    UConverter* cnv = g_icu[ei]->cnv;
    ucnv_resetToUnicode(cnv);
    const char* p = (const char*)s; const char* lim = p + n;
    while (p < lim) {
        const char* q = p;
        UErrorCode e = U_ZERO_ERROR;
        UChar32 c = ucnv_getNextUChar(cnv, &q, lim, &e);
        if (e == U_INDEX_OUTOFBOUNDS_ERROR) break;
        if (e == U_TRUNCATED_CHAR_FOUND) { r.term = RefParse::INCOMPLETE; r.term_pos = p - (const char*)s; r.announced = E.maxlen; r.avail = lim - p; ucnv_resetToUnicode(cnv); return r; }
        if (U_FAILURE(e) || c < 0 || !is_scalar((uint32_t)c)) { r.term = RefParse::ILLFORMED; r.term_pos = p - (const char*)s; r.avail = lim - p; r.announced = 0; ucnv_resetToUnicode(cnv); return r; }
        r.items.push_back(RefItem{(uint32_t)c, (uint8_t)(q - p), (uint8_t)(c >= 0x10000 ? 2 : 1)});
        p = q;
    }
    r.term = RefParse::END; r.term_pos = n;
    return r;
}

static std::string encdesc(int ei) { return std::string(ENCS[ei].xname) + (ENCS[ei].intrinsic ? "" : "(icu)"); }

// =================================================================================================
// space enc: every scalar value through transcodeTo / canTranscodeTo of every encoding
// =================================================================================================
static const uint32_t ENC_BLOCK = 4096;
static const uint32_t ENC_NBLOCKS = 0x110000 / ENC_BLOCK;

// stream-encode `u` the way a block-wise caller does: source blocks of `sb` units, output blocks of `mb` bytes
static std::string stream_encode(XMLTranscoder* t, const U16& u, size_t sb, size_t mb, Bytes& out, bool& threw, std::map<std::string, uint64_t>& cnt) {
    size_t pos = 0; out.clear(); threw = false;
    size_t guard = 0;
    size_t ext = 0, mbx = mb;
    while (pos < u.size()) {
        if (++guard > 4 * u.size() + 64) return "no termination";
        size_t avail = std::min(sb + ext, u.size() - pos);
        ToRes r = x_to(t, u.data() + pos, avail, mbx);
        if (r.threw) { threw = true; return ""; }
        if (r.eaten > avail) return "charsEaten > srcCount";
        if (r.out.size() > mbx) return "more bytes than maxBytes";
        out += r.out;
        if (r.eaten == 0 && r.out.empty()) {
            bool ends_hi = u[pos + avail - 1] >= 0xD800 && u[pos + avail - 1] <= 0xDBFF;
            if (avail == 1 && ends_hi && pos + avail < u.size()) { ext++; cnt["enc_split_pair_deferred"]++; continue; }
            if (mbx < 8) { mbx++; cnt["enc_output_block_too_small_stall"]++; continue; }
            return "no progress (0 chars eaten, 0 bytes) with room for a whole character";
        }
        if (r.eaten < avail && avail > 0) {
            bool ends_hi = u[pos + avail - 1] >= 0xD800 && u[pos + avail - 1] <= 0xDBFF;
            if (ends_hi && r.eaten == avail - 1) cnt["enc_split_pair_deferred"]++;
        }
        pos += r.eaten; ext = 0; mbx = mb;
    }
    return "";
}

static void run_enc(uint64_t idx, Ctx& c) {
    int ei = g_encsel[idx / ENC_NBLOCKS];
    uint32_t base = (uint32_t)(idx % ENC_NBLOCKS) * ENC_BLOCK;
    const Enc& E = ENCS[ei];
    std::map<std::string, uint64_t> cnt;
    XMLTranscoder* t = make_tc(E.xname);
    bool full_variants = (E.kind == R_UTF8 || E.kind == R_UCS4LE || E.kind == R_UCS4BE);
    auto fresh = [&]() { if (!E.intrinsic) { delete t; t = make_tc(E.xname); } };
    auto viol = [&](const char* kind, uint32_t cp, const std::string& what) {
        char b[16]; snprintf(b, sizeof b, "U+%04X", cp);
        c.violation(kind, "\"encoding\":" + jstr(encdesc(ei)) + ",\"cp\":" + jstr(b) + ",\"problem\":" + jstr(what));
        if (c.verbose) printf("enc %s %s: %s\n", E.xname, b, what.c_str());
    };
    for (uint32_t cp = base; cp < base + ENC_BLOCK; cp++) {
        if (is_surrogate(cp)) continue;
        U16 u; append_scalar(u, cp);
        Bytes want;
        bool repr = ref_encode(ei, cp, want);
        cnt[repr ? "representable" : "unrepresentable"]++;
        // known defects of the table transcoders -------------------------------------------------
        bool table = E.intrinsic && E.kind == R_ICU && strcmp(E.xname, "ISO-8859-1") != 0 && strcmp(E.xname, "US-ASCII") != 0;
        // 1. canTranscodeTo
        bool can = t->canTranscodeTo(cp);
        if (can != repr) {
            if (table && cp == 0 && !can) known_or_violation(c, "table-nul-unrepresentable", "\"encoding\":" + jstr(E.xname));
            else if (table && can && !repr && cp >= 0x10000) {
                if (t->canTranscodeTo(cp & 0xFFFF)) known_or_violation(c, "table-cantranscodeto-truncates", "\"encoding\":" + jstr(E.xname) + ",\"cp\":" + std::to_string(cp));
                else viol("cantranscodeto", cp, "canTranscodeTo=true but the reference has no mapping");
            } else if (!E.intrinsic && can && !repr) {
                // ICU skips unmappable default-ignorable code points: tolerated as the known defect only when exactly that happens
                ToRes r = x_to(t, u.data(), u.size(), 16);
                if (!r.threw && r.out.empty() && r.eaten == u.size()) { known_or_violation(c, "icu-default-ignorable-dropped", "\"encoding\":" + jstr(E.xname) + ",\"cp\":" + std::to_string(cp)); continue; }
                if (r.threw) fresh();
                viol("cantranscodeto", cp, "canTranscodeTo=true but the reference has no round-trip mapping");
            } else if (table && can && !repr) {
                // best-fit ("fallback") mapping: only tolerated as the known defect when it is exactly a one-way mapping, i.e. the byte
                // it produces decodes to some OTHER character
                ToRes r = x_to(t, u.data(), u.size(), 8);
                U16 back; bool ok = !r.threw && r.out.size() == 1 && g_icu[ei]->decode((const uint8_t*)r.out.data(), 1, back) && back != u;
                if (ok) { known_or_violation(c, "table-fallback-mapping", "\"encoding\":" + jstr(E.xname) + ",\"cp\":" + std::to_string(cp)); continue; }
                viol("cantranscodeto", cp, "canTranscodeTo=true but the reference has no mapping");
            } else if (!E.intrinsic && cp >= 0x10000) {
                known_or_violation(c, "icu-cantranscodeto-supplementary", "\"encoding\":" + jstr(E.xname) + ",\"cp\":" + std::to_string(cp));
            } else viol("cantranscodeto", cp, std::string("canTranscodeTo=") + (can ? "true" : "false") + " but reference representable=" + (repr ? "true" : "false"));
            if (table && cp == 0) continue;
        }
        // 2. transcodeTo, throwing mode (all BMP; supplementary unrepresentable ones thinned to every 16th: same code path, exceptions are slow)
        bool do_throw_mode = repr || cp < 0x10000 || (cp & 0xF) == 0 || cp >= 0x10FFF0;
        if (do_throw_mode) {
            ToRes r = x_to(t, u.data(), u.size(), 16);
            if (E.kind == R_UCS4BE && cp >= 0x10000 && !r.threw && r.eaten == 2 && r.out == ref_utf32_encode(cp, false)) {
                // exactly the known wrong behaviour: the supplementary value is emitted in native (little-endian) order
                known_or_violation(c, "ucs4-swapped-supplementary-not-swapped", "\"cp\":" + std::to_string(cp) + ",\"expected\":" + jstr(hexs(want)) + ",\"observed\":" + jstr(hexs(r.out)));
                continue;
            }
            if (repr) {
                if (r.threw) viol("encode", cp, "exception " + r.exc + " for a representable character");
                else if (r.eaten != u.size() || r.out != want) viol("encode", cp, "expected " + hexs(want) + " eaten=" + std::to_string(u.size()) + " observed " + hexs(r.out) + " eaten=" + std::to_string(r.eaten));
                else cnt["encoded_ok"]++;
            } else {
                if (!r.threw) viol("encode", cp, "unrepresentable character encoded as " + hexs(r.out) + " instead of being reported");
                else { cnt["unrepresentable_reported:" + r.exc]++; fresh(); }
            }
        }
        // 3. replacement mode never throws and eats the character
        if (!repr) {
            ToRes r = x_to(t, u.data(), u.size(), 16, XMLTranscoder::UnRep_RepChar);
            if (r.threw) { viol("encode-repchar", cp, "UnRep_RepChar threw " + r.exc); fresh(); }
            else if (r.eaten != u.size() || r.out.empty()) viol("encode-repchar", cp, "UnRep_RepChar: eaten=" + std::to_string(r.eaten) + " bytes=" + hexs(r.out));
            else cnt["replaced"]++;
            continue;
        }
        // 4. decode(encode(c)) == c
        {
            FromRes d = x_from(t, (const uint8_t*)want.data(), want.size(), 4);
            if (d.threw || d.out != u || d.eaten != want.size()) {
                bool kd = false;
                if (d.threw) fresh();
                if (!kd) viol("roundtrip", cp, "decode(" + hexs(want) + ") gave [" + hex16(d.out) + "] eaten=" + std::to_string(d.eaten) + (d.threw ? " exc=" + d.exc : ""));
            } else cnt["roundtrip_ok"]++;
        }
        // 5. block variants: the character as last item of a source block of 1..8 units (splits a surrogate pair), and output blocks of 1..8 bytes
        bool variants = full_variants || cp < 0x10000 || (cp & 0x3F) == 0 || cp >= 0x10FFC0;
        if (!variants) continue;
        for (size_t sb = 1; sb <= 8 && cp >= 0x10000; sb++) {
            U16 w(sb - 1, (uint16_t)'a'); w += u; w += (uint16_t)'z';
            Bytes wb; ref_encode_units(ei, w, wb);
            Bytes got; bool threw;
            std::string e = stream_encode(t, w, sb, 64, got, threw, cnt);
            if (threw || !e.empty() || got != wb) {
                bool swapped = (E.kind == R_UCS4BE);
                if (swapped && !threw && e.empty() && got.size() == wb.size()) { known_or_violation(c, "ucs4-swapped-supplementary-not-swapped", "\"cp\":" + std::to_string(cp)); break; }
                viol("encode-srcblock", cp, "source block " + std::to_string(sb) + ": " + (threw ? "exception" : e.empty() ? "expected " + hexs(wb) + " observed " + hexs(got) : e));
                if (threw) fresh();
            } else cnt["srcblock_variants_ok"]++;
        }
        for (size_t mb = 1; mb <= 8; mb++) {
            U16 w; w += (uint16_t)'a'; w += u; w += (uint16_t)'z';
            Bytes wb; ref_encode_units(ei, w, wb);
            Bytes got; bool threw;
            std::string e = stream_encode(t, w, 64, mb, got, threw, cnt);
            if (threw || !e.empty() || got != wb) {
                if (E.kind == R_UCS4BE && cp >= 0x10000 && !threw && e.empty() && got.size() == wb.size()) { known_or_violation(c, "ucs4-swapped-supplementary-not-swapped", "\"cp\":" + std::to_string(cp)); break; }
                if (!E.intrinsic && !threw && e.empty() && got.size() < wb.size() && wb.compare(0, got.size(), got) == 0) { known_or_violation(c, "icu-encode-overflow-lost", "\"encoding\":" + jstr(E.xname) + ",\"cp\":" + std::to_string(cp) + ",\"maxBytes\":" + std::to_string(mb)); fresh(); continue; }
                viol("encode-outblock", cp, "output block " + std::to_string(mb) + ": " + (threw ? "exception" : e.empty() ? "expected " + hexs(wb) + " observed " + hexs(got) : e));
                fresh();
            } else cnt["outblock_variants_ok"]++;
        }
    }
    delete t;
    for (auto& kv : cnt) c.count(kv.first, kv.second);
    if (idx % 499 == 0) { char b[64]; snprintf(b, sizeof b, "U+%04X..U+%04X", base, base + ENC_BLOCK - 1); c.sample("{\"encoding\":" + jstr(E.xname) + ",\"block\":" + jstr(b) + "}"); }
}
static void setup_enc(const Args& a, Runner& R) {
    select_encs(a);
    R.total = (uint64_t)g_encsel.size() * ENC_NBLOCKS;
    R.fn = run_enc;
    R.describe = [](uint64_t i) { return "{\"encoding\":" + jstr(ENCS[g_encsel[i / ENC_NBLOCKS]].xname) + ",\"block\":" + std::to_string((i % ENC_NBLOCKS) * ENC_BLOCK) + "}"; };
    R.extra_json = "\"bounds\":" + jstr("every scalar value x " + std::to_string(g_encsel.size()) + " encodings");
}

// =================================================================================================
int main(int argc, char** argv) {
    Args a(argc, argv);
    std::string space = a.str("space", "utf8dec");
    g_strict = a.num("strict", 0) != 0;
    XMLPlatformUtils::Initialize();
    Runner R;
    R.name = space;
    if (space == "utf8dec") setup_utf8dec(a, R);
    else if (space == "enc") setup_enc(a, R);
    else { fprintf(stderr, "unknown space %s\n", space.c_str()); return 2; }
    return R.main_tail(a);
}
