// c05_xcode - bounded-exhaustive checks of the XMLTranscoder implementations (property C05) through the public API
//   XMLPlatformUtils::fgTransService->makeNewTranscoderFor(name, ...) -> transcodeFrom / transcodeTo / canTranscodeTo,
//   TranscodeFromStr / TranscodeToStr.
// Spaces (--space):
//   utf8dec   every byte string of length <= 4 (or the quick subset) decoded by the UTF-8 transcoder vs the Table 3-7 DFA
//   enc       every Unicode scalar value encoded by every listed encoding vs arithmetic (UTF-*) / ICU ucnv (code pages);
//             canTranscodeTo; decode(encode(c)) == c; source blocks ending inside a surrogate pair; output blocks 1..8 bytes
//   utf16     UTF-16LE/BE: every unit and unit pairs, odd byte counts, output blocks
//   ucs4      UCS-4LE/BE decode of 32-bit values (every value < 2^24 + byte-class product, or the quick subset)
//   sbcs      every byte of every single-byte encoding (intrinsic and ICU-provided) vs ICU ucnv; alias names
//   mbcs      ICU-provided multi-byte encodings: every 1- and 2-byte sequence (+ listed longer prefixes) vs ICU ucnv
//   split     words over a character alphabet x every encoding x every split offset x every maxChars (streamed decode),
//             every proper prefix through TranscodeFromStr, whole words through TranscodeToStr
//   witness   one minimal case per entry of KNOWN_DEFECTS, always reported strictly
#include "c05_enc.hpp"
#include <xercesc/util/XMLUni.hpp>

// =================================================================================================
// generic comparison of one transcodeFrom call with a reference parse
// =================================================================================================
struct Expect {
    // what a correct decoder may do with (input, maxChars), derived from the reference parse
    size_t j_fit;           // number of complete characters that fit into maxChars
    bool may_throw;         // an exception is acceptable (ill-formed sequence reachable)
    bool must_throw;        // ... and required (no legal way to defer)
};

static bool g_sizes_per_char = false;
static std::string check_from(const RefParse& rp, const FromRes& r, size_t maxChars, bool sizes_exact, std::string* outcome) {
    size_t k = rp.items.size();
    size_t units = 0, j_fit = 0;
    while (j_fit < k && units + rp.items[j_fit].nunits <= maxChars) { units += rp.items[j_fit].nunits; j_fit++; }
    bool reaches_term = (j_fit == k);
    if (r.threw) {
        if (rp.term == RefParse::ILLFORMED && reaches_term) { *outcome = "rejected:" + r.exc; return ""; }
        if (rp.term == RefParse::INCOMPLETE) return "exception on an input that merely ends inside a (so far legal) sequence: " + r.exc;
        return "exception although the input is well-formed (or the ill-formed part is beyond maxChars): " + r.exc;
    }
    // locate the character boundary bytesEaten corresponds to
    size_t j = 0, b = 0;
    while (j < k && b < r.eaten) { b += rp.items[j].nbytes; j++; }
    if (b != r.eaten) return "bytesEaten=" + std::to_string(r.eaten) + " is not a character boundary of the legal prefix (ill-formed or partial bytes consumed)";
    U16 want = rp.units(j);
    if (r.out != want) return "decoded units differ: expected [" + hex16(want) + "] observed [" + hex16(r.out) + "] for bytesEaten=" + std::to_string(r.eaten);
    if (sizes_exact) {
        std::vector<uint8_t> ws;
        for (size_t i = 0; i < j; i++) { ws.push_back(rp.items[i].nbytes); if (rp.items[i].nunits == 2) ws.push_back(0); }
        if (ws != r.sizes) {
            // the documentation of charSizes does not say which unit of a surrogate pair carries the byte count; the intrinsic transcoders
            // use (n,0), the ICU wrapper yields (0,n): for wrappers only the per-character sum is compared (g_sizes_per_char)
            bool ok = false;
            if (g_sizes_per_char && ws.size() == r.sizes.size()) {
                ok = true;
                for (size_t i = 0, q = 0; i < j && ok; i++) {
                    unsigned sum = r.sizes[q]; if (rp.items[i].nunits == 2) sum += r.sizes[q + 1];
                    if (sum != rp.items[i].nbytes) ok = false;
                    q += rp.items[i].nunits;
                }
            }
            if (!ok) return "charSizes differ: expected " + hexv(ws) + " observed " + hexv(r.sizes);
        }
    }
    if (j > j_fit) return "more characters than maxChars allows";
    if (j == j_fit) {
        if (!reaches_term || rp.term == RefParse::END) { *outcome = "decoded"; return ""; }
        if (rp.term == RefParse::INCOMPLETE) { *outcome = "decoded+deferred-incomplete"; return ""; }
        // ill-formed sequence reached, no exception
        if (units == maxChars) { *outcome = "decoded(full)"; return ""; }
        if (rp.avail < (size_t)rp.announced) { *outcome = "deferred-illformed-short"; return ""; }
        if (k >= 1) { *outcome = "deferred-illformed-after-progress"; return ""; }
        return "ill-formed sequence with all announced bytes present was neither decoded nor rejected (0 chars, 0 bytes, no exception)";
    }
    // j < j_fit: stopped early
    return "stopped after " + std::to_string(j) + " characters although " + std::to_string(j_fit) + " complete characters fit";
}

// =================================================================================================
// space utf8dec
// =================================================================================================
static XMLTranscoder* g_utf8 = nullptr;
static int g_u8mode = 0;  // 0: len<=3 all (+quick 4-byte subset)   1: all 4-byte strings
struct U8Case { int len; uint32_t prefix; int kind; };  // kind 0: enumerate all tails; 1: quick subset filter
static std::vector<U8Case> g_u8cases;


// outcome codes of the lean path
enum { O_DECODED, O_DEC_INCOMPLETE, O_DEFER_ILL_SHORT, O_REJECTED, O_MULTI, O_SUPP, O_N };
static const char* O_NAME[O_N] = {"decoded", "decoded+deferred-incomplete", "deferred-illformed-short", "rejected", "wellformed_with_multibyte", "wellformed_with_supplementary"};
struct LocalCounts {
    uint64_t o[O_N] = {0};
    std::map<int, uint64_t> exc;            // exception code -> count
    std::map<std::string, uint64_t> m;      // slow-path outcomes
    void flush(Ctx& c) {
        for (int i = 0; i < O_N; i++) if (o[i]) c.count(O_NAME[i], o[i]);
        for (auto& kv : exc) c.count("rejected:code" + std::to_string(kv.first), kv.second);
        for (auto& kv : m) c.count(kv.first, kv.second);
    }
};

static void u8_slow(Ctx& c, const uint8_t* s, size_t n, LocalCounts& lc) {
    RefParse rp = ref_utf8_parse(s, n);
    FromRes r = x_from(g_utf8, s, n, 8);
    std::string outcome;
    std::string err = check_from(rp, r, 8, true, &outcome);
    if (!err.empty()) {
        c.violation("utf8-decode", "\"input_hex\":" + jstr(hexb(s, n)) + ",\"problem\":" + jstr(err) + ",\"ref_term\":" + std::to_string((int)rp.term));
        if (c.verbose) printf("utf8dec %s: %s\n", hexb(s, n).c_str(), err.c_str());
        return;
    }
    lc.m["slowpath:" + outcome]++;
}

// lean path: no heap traffic; anything that is not one of the four plain outcomes goes through u8_slow
static inline void u8_one(Ctx& c, const uint8_t* s, size_t n, LocalCounts& lc) {
    const Utf8Dfa& D = utf8_dfa();
    uint16_t want[8]; uint8_t wsz[8];
    size_t nu = 0, i = 0; int term = RefParse::END; size_t term_pos = n; bool multi = false, supp = false;
    while (i < n) {
        int st = U8_START; size_t j = i; uint32_t cp = 0; bool done = false;
        while (j < n) {
            uint8_t b = s[j]; int nx = D.next[st][b];
            if (nx == U8_REJ) { term = RefParse::ILLFORMED; term_pos = i; goto parsed; }
            if (st == U8_START) cp = b < 0x80 ? b : b < 0xE0 ? (b & 0x1Fu) : b < 0xF0 ? (b & 0x0Fu) : (b & 0x07u);
            else cp = (cp << 6) | (b & 0x3Fu);
            j++; st = nx;
            if (st == U8_START) { done = true; break; }
        }
        if (!done) { term = RefParse::INCOMPLETE; term_pos = i; goto parsed; }
        if (cp >= 0x10000) { uint32_t v = cp - 0x10000; want[nu] = (uint16_t)(0xD800 + (v >> 10)); wsz[nu++] = (uint8_t)(j - i); want[nu] = (uint16_t)(0xDC00 + (v & 0x3FF)); wsz[nu++] = 0; supp = true; }
        else { want[nu] = (uint16_t)cp; wsz[nu++] = (uint8_t)(j - i); }
        if (j - i > 1) multi = true;
        i = j;
    }
parsed:
    uint8_t* src = g_src.get(n);
    if (n) memcpy(src, s, n);
    XMLCh* out = (XMLCh*)g_dst.get(8 * sizeof(XMLCh));
    uint8_t* sz = g_sz.get(8);
    XMLSize_t eaten = 0, got = 0; int code = -1;
    try { got = g_utf8->transcodeFrom(src, n, out, 8, eaten, sz); }
    catch (const XMLException& e) { code = (int)e.getCode(); }
    if (code >= 0) {
        if (term == RefParse::ILLFORMED) { lc.o[O_REJECTED]++; lc.exc[code]++; return; }
        u8_slow(c, s, n, lc); return;
    }
    if (eaten == term_pos && got == nu && memcmp(out, want, nu * 2) == 0 && memcmp(sz, wsz, nu) == 0) {
        if (term == RefParse::END) { lc.o[O_DECODED]++; if (multi) lc.o[O_MULTI]++; if (supp) lc.o[O_SUPP]++; return; }
        if (term == RefParse::INCOMPLETE) { lc.o[O_DEC_INCOMPLETE]++; return; }
        if ((n - term_pos) < (size_t)utf8_announced_len(s[term_pos])) { lc.o[O_DEFER_ILL_SHORT]++; return; }
    }
    u8_slow(c, s, n, lc);
}

// the same judgement for a tail that follows `pad` ASCII characters in the same call: the decoder has special paths for "ill-formed, but some characters
// are already decoded" (it stops in front of the sequence so that the error is raised by the next call with the right position) - the bytes of the
// ill-formed sequence must not be counted as eaten
static void u8_padded(Ctx& c, const uint8_t* tail, size_t n, int pad, LocalCounts& lc) {
    uint8_t buf[96];
    memset(buf, 'a', (size_t)pad); memcpy(buf + pad, tail, n);
    size_t total = (size_t)pad + n;
    RefParse rp = ref_utf8_parse(buf, total);
    FromRes r = x_from(g_utf8, buf, total, 64);
    std::string outcome;
    std::string err = check_from(rp, r, 64, true, &outcome);
    if (err.empty() && !r.threw && rp.term == RefParse::ILLFORMED && r.eaten == rp.term_pos) {
        // deferred: the next call, which starts on the ill-formed sequence, has to raise the error
        FromRes r2 = x_from(g_utf8, buf + r.eaten, total - r.eaten, 64);
        if (!r2.threw && (total - r.eaten) >= (size_t)utf8_announced_len(buf[r.eaten])) err = "ill-formed sequence deferred by the first call is accepted by the second";
        else outcome = "deferred-then-rejected";
    }
    if (!err.empty()) { c.violation("utf8-decode", "\"input_hex\":" + jstr("61 x " + std::to_string(pad) + " + " + hexb(tail, n)) + ",\"problem\":" + jstr(err) + ",\"ref_term\":" + std::to_string((int)rp.term)); return; }
    lc.m["padded:" + outcome]++;
}

// every edge of every byte range of Table 3-7 (and its neighbours), plus one plain ASCII letter and one mid continuation byte
static const int U8_BOUNDARY[32] = {0x00, 0x41, 0x7F, 0x80, 0x8F, 0x90, 0x9F, 0xA0, 0xB0, 0xBF, 0xC0, 0xC1, 0xC2, 0xDF, 0xE0, 0xE1,
                                    0xEC, 0xED, 0xEE, 0xEF, 0xF0, 0xF1, 0xF3, 0xF4, 0xF5, 0xF7, 0xF8, 0xFB, 0xFC, 0xFD, 0xFE, 0xFF};
static bool u8_is_boundary(int b) { for (int x : U8_BOUNDARY) if (x == b) return true; return false; }

static void run_utf8dec(uint64_t idx, Ctx& c) {
    const U8Case& k = g_u8cases[idx];
    LocalCounts lc;
    uint8_t s[4];
    uint64_t strings = 0;
    if (k.len <= 2) {  // the single case holding all strings of length 0,1,2
        u8_one(c, s, 0, lc); strings++;
        for (int a = 0; a < 256; a++) { s[0] = (uint8_t)a; u8_one(c, s, 1, lc); strings++; }
        for (int a = 0; a < 256; a++) for (int b = 0; b < 256; b++) { s[0] = (uint8_t)a; s[1] = (uint8_t)b; u8_one(c, s, 2, lc); strings++; }
    } else if (k.len == 3) {
        s[0] = (uint8_t)k.prefix;
        for (int a = 0; a < 256; a++) for (int b = 0; b < 256; b++) { s[1] = (uint8_t)a; s[2] = (uint8_t)b; u8_one(c, s, 3, lc); strings++; }
    } else {
        s[0] = (uint8_t)(k.prefix >> 8); s[1] = (uint8_t)(k.prefix & 0xFF);
        for (int a = 0; a < 256; a++) {
            s[2] = (uint8_t)a;
            if (k.kind == 1) {  // quick subset: the first three bytes must be a legal (possibly incomplete) prefix
                RefParse p3 = ref_utf8_parse(s, 3);
                if (p3.term == RefParse::ILLFORMED) continue;
            }
            if (k.kind == 3) {  // boundary-byte product behind 31, 32, 33 and 40 already decoded characters (lengths 1..4)
                if (!u8_is_boundary(a)) continue;
                static const int PADS[] = {31, 32, 33, 40};
                for (int pad : PADS) {
                    if (a == U8_BOUNDARY[0]) { u8_padded(c, s, 2, pad, lc); strings++; }
                    u8_padded(c, s, 3, pad, lc); strings++;
                    for (int b = 0; b < 256; b++) { if (!u8_is_boundary(b)) continue; s[3] = (uint8_t)b; u8_padded(c, s, 4, pad, lc); strings++; }
                }
                continue;
            }
            if (k.kind == 2) {  // boundary-byte product: third and fourth byte from U8_BOUNDARY only
                if (!u8_is_boundary(a)) continue;
                for (int b = 0; b < 256; b++) { if (!u8_is_boundary(b)) continue; s[3] = (uint8_t)b; u8_one(c, s, 4, lc); strings++; }
                continue;
            }
            for (int b = 0; b < 256; b++) { s[3] = (uint8_t)b; u8_one(c, s, 4, lc); strings++; }
        }
    }
    lc.flush(c);
    c.count("strings", strings);
    if (idx % 997 == 0) c.sample("{\"len\":" + std::to_string(k.len) + ",\"prefix_hex\":" + jstr(k.len <= 2 ? "" : k.len == 3 ? hexb(s, 1) : hexb(s, 2)) + "}");
}

static void setup_utf8dec(const Args& a, Runner& R) {
    g_utf8 = make_tc("UTF-8");
    std::string mode = a.str("mode", "quick");
    g_u8cases.push_back(U8Case{2, 0, 0});
    // 3-byte strings: every first byte (thorough) / every first byte C0..FF and the boundary values 00,41,7F,80,BF of the two remaining rows (quick)
    for (int b = 0; b < 256; b++) if (mode != "quick" || b >= 0xC0 || b == 0x00 || b == 0x41 || b == 0x7F || b == 0x80 || b == 0xBF) g_u8cases.push_back(U8Case{3, (uint32_t)b, 0});
    if (mode == "quick") {
        // 4-byte strings: (a) every string over the 32 boundary bytes (32^4); (b) every string whose first byte is F0,F1,F4,F5 and whose
        // second byte is one of 6 boundary values (7F,80,8F,90,BF,C0), with ALL third and fourth bytes (24 x 65536)
        static const int B1[] = {0x7F, 0x80, 0x8F, 0x90, 0xBF, 0xC0};
        std::set<uint32_t> full;
        for (int b0 : {0xF0, 0xF1, 0xF4, 0xF5}) for (int b1 : B1) full.insert((uint32_t)(b0 << 8 | b1));
        for (uint32_t p : full) g_u8cases.push_back(U8Case{4, p, 0});
        for (int b0 : U8_BOUNDARY) for (int b1 : U8_BOUNDARY) { uint32_t p = (uint32_t)(b0 << 8 | b1); if (!full.count(p)) g_u8cases.push_back(U8Case{4, p, 2}); }
    } else if (mode == "padded") {
        g_u8cases.clear();
        for (int b0 : U8_BOUNDARY) for (int b1 : U8_BOUNDARY) if (b0 >= 0x80) g_u8cases.push_back(U8Case{4, (uint32_t)(b0 << 8 | b1), 3});
    } else if (mode == "thorough") {
        // every 4-byte string whose first byte is C0..FF (all lead-byte rows of Table 3-7 and all illegal leads), and every 4-byte
        // string whose first byte is a boundary value of the two remaining rows (00..7F: 00,41,7F; 80..BF: 80,BF)
        for (uint32_t b0 = 0xC0; b0 < 256; b0++) for (uint32_t b1 = 0; b1 < 256; b1++) g_u8cases.push_back(U8Case{4, b0 << 8 | b1, 0});
        for (uint32_t b0 : {0x00u, 0x41u, 0x7Fu, 0x80u, 0xBFu}) for (uint32_t b1 = 0; b1 < 256; b1++) g_u8cases.push_back(U8Case{4, b0 << 8 | b1, 0});
    } else if (mode == "all4") {
        g_u8cases.clear();
        for (uint32_t p = 0; p < 65536; p++) g_u8cases.push_back(U8Case{4, p, 0});
    } else if (mode == "slice4") {  // 1/256 slice of the 4-byte space (second byte == slice) for the asan cross-check of the fast run
        g_u8cases.clear();
        uint32_t sl = (uint32_t)a.num("slice", 0x80);
        for (uint32_t b0 = 0; b0 < 256; b0++) g_u8cases.push_back(U8Case{4, b0 << 8 | sl, 0});
    }
    R.total = g_u8cases.size();
    R.fn = run_utf8dec;
    R.describe = [](uint64_t i) { return "{\"len\":" + std::to_string(g_u8cases[i].len) + ",\"prefix\":" + std::to_string(g_u8cases[i].prefix) + "}"; };
    R.extra_json = "\"bounds\":" + jstr("utf8dec mode=" + mode);
}

// =================================================================================================
// space enc: every scalar value through transcodeTo / canTranscodeTo of every encoding
// =================================================================================================
static const uint32_t ENC_BLOCK = 4096;
static uint32_t g_enc_thin = 16;   // supplementary code points: exception mode / block variants only for every g_enc_thin-th one (1 = all)
static const uint32_t ENC_NBLOCKS = 0x110000 / ENC_BLOCK;

// stream-encode `u` the way a block-wise caller does: source blocks of `sb` units, output blocks of `mb` bytes
static std::string stream_encode(XMLTranscoder* t, const U16& u, size_t sb, size_t mb, Bytes& out, bool& threw, std::map<std::string, uint64_t>& cnt) {
    size_t pos = 0; out.clear(); threw = false;
    size_t guard = 0;
    size_t ext = 0, mbx = mb;
    while (pos < u.size()) {
        if (++guard > 4 * u.size() + 64) return "no termination";
        size_t avail = std::min(sb + ext, u.size() - pos);
        ToRes r = x_to(t, u.data() + pos, avail, mbx);
        if (r.threw) { threw = true; return ""; }
        if (r.eaten > avail) return "charsEaten > srcCount";
        if (r.out.size() > mbx) return "more bytes than maxBytes";
        out += r.out;
        if (r.eaten == 0 && r.out.empty()) {
            bool ends_hi = u[pos + avail - 1] >= 0xD800 && u[pos + avail - 1] <= 0xDBFF;
            if (avail == 1 && ends_hi && pos + avail < u.size()) { ext++; cnt["enc_split_pair_deferred"]++; continue; }
            if (mbx < 8) { mbx++; cnt["enc_output_block_too_small_stall"]++; continue; }
            return "no progress (0 chars eaten, 0 bytes) with room for a whole character";
        }
        if (r.eaten < avail && avail > 0) {
            bool ends_hi = u[pos + avail - 1] >= 0xD800 && u[pos + avail - 1] <= 0xDBFF;
            if (ends_hi && r.eaten == avail - 1) cnt["enc_split_pair_deferred"]++;
        }
        pos += r.eaten; ext = 0; mbx = mb;
    }
    return "";
}

static void run_enc(uint64_t idx, Ctx& c) {
    int ei = g_encsel[idx / ENC_NBLOCKS];
    uint32_t base = (uint32_t)(idx % ENC_NBLOCKS) * ENC_BLOCK;
    const Enc& E = ENCS[ei];
    std::map<std::string, uint64_t> cnt;
    XMLTranscoder* t = make_tc(E.xname);
    g_src_pad_units = (E.intrinsic || g_strict) ? 0 : 1;
    bool full_variants = (E.kind == R_UTF8 || E.kind == R_UCS4LE || E.kind == R_UCS4BE);
    auto fresh = [&]() { if (!E.intrinsic) { delete t; t = make_tc(E.xname); } };
    auto viol = [&](const char* kind, uint32_t cp, const std::string& what) {
        char b[16]; snprintf(b, sizeof b, "U+%04X", cp);
        c.violation(kind, "\"encoding\":" + jstr(encdesc(ei)) + ",\"cp\":" + jstr(b) + ",\"problem\":" + jstr(what));
        if (c.verbose) printf("enc %s %s: %s\n", E.xname, b, what.c_str());
    };
    for (uint32_t cp = base; cp < base + ENC_BLOCK; cp++) {
        if (is_surrogate(cp)) continue;
        U16 u; append_scalar(u, cp);
        Bytes want;
        bool repr = ref_encode(ei, cp, want);
        cnt[repr ? "representable" : "unrepresentable"]++;
        // known defects of the table transcoders -------------------------------------------------
        bool table = E.intrinsic && E.kind == R_ICU && strcmp(E.xname, "ISO-8859-1") != 0 && strcmp(E.xname, "US-ASCII") != 0;
        // 1. canTranscodeTo
        bool can = t->canTranscodeTo(cp);
        if (can != repr) {
            if (table && cp == 0 && !can) known_or_violation(c, "table-nul-unrepresentable", "\"encoding\":" + jstr(E.xname));
            else if (table && can && !repr && cp >= 0x10000) {
                if (t->canTranscodeTo(cp & 0xFFFF)) known_or_violation(c, "table-cantranscodeto-truncates", "\"encoding\":" + jstr(E.xname) + ",\"cp\":" + std::to_string(cp));
                else viol("cantranscodeto", cp, "canTranscodeTo=true but the reference has no mapping");
            } else if (!E.intrinsic && cp >= 0x10000 && can && !repr && [&] { ToRes r = x_to(t, u.data(), u.size(), 16); if (r.threw) fresh(); return !r.threw && r.out.empty() && r.eaten == u.size(); }()) {
                // supplementary default-ignorable code point (U+1BCA0, U+1D173, U+E0000...): same listed defect as in the BMP, visible since canTranscodeTo
                // builds the right surrogate pair
                known_or_violation(c, "icu-default-ignorable-dropped", "\"encoding\":" + jstr(E.xname) + ",\"cp\":" + std::to_string(cp));
                continue;
            } else if (!E.intrinsic && cp >= 0x10000) {
                // the wrapper forms the pair as (cp>>10)+0xD800, (cp&0x3FF)+0xDC00 without subtracting 0x10000; tolerated as the known
                // defect only when the answer is exactly what an independent converter says about THAT unit pair
                uint16_t pr[2] = {(uint16_t)((cp >> 10) + 0xD800), (uint16_t)((cp & 0x3FF) + 0xDC00)};
                Bytes tmp; bool predicted = g_icu[ei]->encode(pr, 2, tmp);
                if (predicted == can) known_or_violation(c, "icu-cantranscodeto-supplementary", "\"encoding\":" + jstr(E.xname) + ",\"cp\":" + std::to_string(cp));
                else viol("cantranscodeto", cp, std::string("canTranscodeTo=") + (can ? "true" : "false") + " reference representable=" + (repr ? "true" : "false"));
            } else if (!E.intrinsic && can && !repr) {
                // ICU skips unmappable default-ignorable code points: tolerated as the known defect only when exactly that happens
                ToRes r = x_to(t, u.data(), u.size(), 16);
                if (!r.threw && r.out.empty() && r.eaten == u.size()) { known_or_violation(c, "icu-default-ignorable-dropped", "\"encoding\":" + jstr(E.xname) + ",\"cp\":" + std::to_string(cp)); continue; }
                if (r.threw) fresh();
                // narrowing: private-use code points have no defined legal byte sequence; ICU always applies its vendor one-way mapping for them
                bool pua = (cp >= 0xE000 && cp <= 0xF8FF) || cp >= 0xF0000;
                Bytes raw; U16 back;
                if (pua && !r.threw && g_icu[ei]->encode(u.data(), u.size(), raw) && raw == r.out && r.eaten == u.size()) { cnt["pua_vendor_oneway_mapping_accepted"]++; continue; }
                viol("cantranscodeto", cp, "canTranscodeTo=true but the reference has no round-trip mapping");
            } else if (table && can && !repr) {
                // best-fit ("fallback") mapping: only tolerated as the known defect when it is exactly a one-way mapping, i.e. the byte
                // it produces decodes to some OTHER character
                ToRes r = x_to(t, u.data(), u.size(), 8);
                U16 back; bool ok = !r.threw && r.out.size() == 1 && g_icu[ei]->decode((const uint8_t*)r.out.data(), 1, back) && back != u;
                if (ok) { known_or_violation(c, "table-fallback-mapping", "\"encoding\":" + jstr(E.xname) + ",\"cp\":" + std::to_string(cp)); continue; }
                viol("cantranscodeto", cp, "canTranscodeTo=true but the reference has no mapping");
            } else viol("cantranscodeto", cp, std::string("canTranscodeTo=") + (can ? "true" : "false") + " but reference representable=" + (repr ? "true" : "false"));
            if (table && cp == 0) continue;
        }
        // 2. transcodeTo, throwing mode (all BMP; supplementary unrepresentable ones thinned to every 16th: same code path, exceptions are slow)
        bool do_throw_mode = repr || cp < 0x10000 || (cp % (g_enc_thin * 4)) == 0 || cp >= 0x10FFF0;
        if (do_throw_mode) {
            ToRes r = x_to(t, u.data(), u.size(), 16);
            if (E.kind == R_UCS4BE && cp >= 0x10000 && !r.threw && r.eaten == 2 && r.out == ref_utf32_encode(cp, false) && r.out != want) {
                // exactly the known wrong behaviour: the supplementary value is emitted in native (little-endian) order
                known_or_violation(c, "ucs4-swapped-supplementary-not-swapped", "\"cp\":" + std::to_string(cp) + ",\"expected\":" + jstr(hexs(want)) + ",\"observed\":" + jstr(hexs(r.out)));
                continue;
            }
            if (repr) {
                if (r.threw) viol("encode", cp, "exception " + r.exc + " for a representable character");
                else if (r.eaten != u.size() || r.out != want) viol("encode", cp, "expected " + hexs(want) + " eaten=" + std::to_string(u.size()) + " observed " + hexs(r.out) + " eaten=" + std::to_string(r.eaten));
                else cnt["encoded_ok"]++;
            } else {
                if (!r.threw && !E.intrinsic && r.out.empty() && r.eaten == u.size()) { known_or_violation(c, "icu-default-ignorable-dropped", "\"encoding\":" + jstr(E.xname) + ",\"cp\":" + std::to_string(cp)); continue; }
                else if (!r.threw) viol("encode", cp, "unrepresentable character encoded as " + hexs(r.out) + " instead of being reported");
                else { cnt["unrepresentable_reported:" + r.exc]++; fresh(); }
            }
        }
        // 3. replacement mode never throws and eats the character
        if (!repr) {
            ToRes r = x_to(t, u.data(), u.size(), 16, XMLTranscoder::UnRep_RepChar);
            if (!r.threw && !E.intrinsic && r.out.empty() && r.eaten == u.size()) known_or_violation(c, "icu-default-ignorable-dropped", "\"encoding\":" + jstr(E.xname) + ",\"cp\":" + std::to_string(cp));
            else if (r.threw) { viol("encode-repchar", cp, "UnRep_RepChar threw " + r.exc); fresh(); }
            else if (r.eaten != u.size() || r.out.empty()) viol("encode-repchar", cp, "UnRep_RepChar: eaten=" + std::to_string(r.eaten) + " bytes=" + hexs(r.out));
            else cnt["replaced"]++;
            continue;
        }
        // 4. decode(encode(c)) == c
        {
            FromRes d = x_from(t, (const uint8_t*)want.data(), want.size(), 4);
            if (d.threw || d.out != u || d.eaten != want.size()) {
                bool kd = !strcmp(E.xname, "IBM1047") && cp == 0x85 && !d.threw && d.out == U16(1, 0x000A) && d.eaten == 1;
                if (kd) known_or_violation(c, "ibm1047-nl-decodes-to-lf", "\"cp\":133");
                if (d.threw) fresh();
                if (!kd) viol("roundtrip", cp, "decode(" + hexs(want) + ") gave [" + hex16(d.out) + "] eaten=" + std::to_string(d.eaten) + (d.threw ? " exc=" + d.exc : ""));
            } else cnt["roundtrip_ok"]++;
        }
        // 5. block variants: the character as last item of a source block of 1..8 units (splits a surrogate pair), and output blocks of 1..8 bytes
        bool variants = cp < 0x10000 || cp >= 0x10FFC0 || (full_variants ? (cp % g_enc_thin) == 0 : (cp % (g_enc_thin * 4)) == 0);
        if (!variants) continue;
        for (size_t sb = 1; sb <= 8 && cp >= 0x10000; sb++) {
            U16 w(sb - 1, (uint16_t)'a'); w += u; w += (uint16_t)'z';
            Bytes wb; ref_encode_units(ei, w, wb);
            Bytes got; bool threw;
            std::string e = stream_encode(t, w, sb, 64, got, threw, cnt);
            if (threw || !e.empty() || got != wb) {
                bool swapped = (E.kind == R_UCS4BE);
                if (swapped && !threw && e.empty() && got.size() == wb.size()) { known_or_violation(c, "ucs4-swapped-supplementary-not-swapped", "\"cp\":" + std::to_string(cp)); break; }
                viol("encode-srcblock", cp, "source block " + std::to_string(sb) + ": " + (threw ? "exception" : e.empty() ? "expected " + hexs(wb) + " observed " + hexs(got) : e));
                if (threw) fresh();
            } else cnt["srcblock_variants_ok"]++;
        }
        for (size_t mb = 1; mb <= 8; mb++) {
            U16 w; w += (uint16_t)'a'; w += u; w += (uint16_t)'z';
            Bytes wb; ref_encode_units(ei, w, wb);
            Bytes got; bool threw;
            std::string e = stream_encode(t, w, 64, mb, got, threw, cnt);
            if (threw || !e.empty() || got != wb) {
                if (E.kind == R_UCS4BE && cp >= 0x10000 && !threw && e.empty() && got.size() == wb.size()) { known_or_violation(c, "ucs4-swapped-supplementary-not-swapped", "\"cp\":" + std::to_string(cp)); break; }
                if (!E.intrinsic && mb < (size_t)E.maxlen && (threw || (e.empty() && got.size() < wb.size() && wb.compare(0, got.size(), got) == 0))) { known_or_violation(c, "icu-encode-overflow-lost", "\"encoding\":" + jstr(E.xname) + ",\"cp\":" + std::to_string(cp) + ",\"maxBytes\":" + std::to_string(mb)); fresh(); continue; }
                viol("encode-outblock", cp, "output block " + std::to_string(mb) + ": " + (threw ? "exception" : e.empty() ? "expected " + hexs(wb) + " observed " + hexs(got) : e));
                fresh();
            } else cnt["outblock_variants_ok"]++;
        }
    }
    delete t;
    for (auto& kv : cnt) c.count(kv.first, kv.second);
    if (idx % 499 == 0) { char b[64]; snprintf(b, sizeof b, "U+%04X..U+%04X", base, base + ENC_BLOCK - 1); c.sample("{\"encoding\":" + jstr(E.xname) + ",\"block\":" + jstr(b) + "}"); }
}
static void setup_enc(const Args& a, Runner& R) {
    select_encs(a);
    g_enc_thin = (uint32_t)a.num("thin", 16);
    R.total = (uint64_t)g_encsel.size() * ENC_NBLOCKS;
    R.fn = run_enc;
    R.describe = [](uint64_t i) { return "{\"encoding\":" + jstr(ENCS[g_encsel[i / ENC_NBLOCKS]].xname) + ",\"block\":" + std::to_string((i % ENC_NBLOCKS) * ENC_BLOCK) + "}"; };
    R.extra_json = "\"bounds\":" + jstr("every scalar value x " + std::to_string(g_encsel.size()) + " encodings; block variants / exception mode of supplementary code points thinned 1/" + std::to_string(g_enc_thin));
}

// =================================================================================================
// space utf16: every unit, every unit PAIR (case = first unit, the 65536 second units laid out consecutively), odd byte counts,
// small output blocks.  The transcoder level is a pure unit copy (+ byte swap); surrogate pairing is the scanner's job (c05_docs).
// =================================================================================================
static XMLTranscoder* g_u16[2];  // LE, BE
static std::vector<uint32_t> g_u16first;
static void run_utf16(uint64_t idx, Ctx& c) {
    int be = (int)(idx & 1);
    uint32_t u1 = g_u16first[idx >> 1];
    XMLTranscoder* t = g_u16[be];
    const size_t NP = 65536;
    static std::vector<uint8_t> bytes(NP * 4);
    static std::vector<uint16_t> units(NP * 2);
    for (size_t u2 = 0; u2 < NP; u2++) {
        units[2 * u2] = (uint16_t)u1; units[2 * u2 + 1] = (uint16_t)u2;
        uint16_t w[2] = {(uint16_t)u1, (uint16_t)u2};
        for (int k = 0; k < 2; k++) {
            bytes[4 * u2 + 2 * k + (be ? 0 : 1)] = (uint8_t)(w[k] >> 8);
            bytes[4 * u2 + 2 * k + (be ? 1 : 0)] = (uint8_t)(w[k] & 0xFF);
        }
    }
    // decode all pairs in one call, then in blocks of odd maxChars
    for (size_t mc : {NP * 2, (size_t)4093}) {
        size_t pos = 0; U16 got; std::vector<uint8_t> sz;
        while (pos < bytes.size()) {
            FromRes r = x_from(t, bytes.data() + pos, bytes.size() - pos, mc);
            if (r.threw || r.eaten == 0 || r.eaten != r.out.size() * 2) { c.violation("utf16-decode", "\"u1\":" + std::to_string(u1) + ",\"be\":" + std::to_string(be) + ",\"problem\":" + jstr(r.threw ? "exception " + r.exc : "eaten/chars inconsistent")); return; }
            got += r.out; sz.insert(sz.end(), r.sizes.begin(), r.sizes.end()); pos += r.eaten;
        }
        bool ok = got.size() == units.size() && memcmp(got.data(), units.data(), units.size() * 2) == 0;
        for (size_t i = 0; ok && i < sz.size(); i++) if (sz[i] != 2) ok = false;
        if (!ok) {
            size_t d = 0; while (d < got.size() && d < units.size() && got[d] == units[d]) d++;
            c.violation("utf16-decode", "\"u1\":" + std::to_string(u1) + ",\"be\":" + std::to_string(be) + ",\"first_diff_unit\":" + std::to_string(d) + ",\"problem\":\"unit copy differs or charSizes != 2\"");
            return;
        }
        c.count("utf16_pairs_decoded", NP);
    }
    // encode all pairs
    {
        size_t pos = 0; Bytes got;
        while (pos < units.size()) {
            ToRes r = x_to(t, units.data() + pos, units.size() - pos, 8191);  // odd block: only whole units may be written
            if (r.threw || r.eaten == 0 || r.out.size() != r.eaten * 2) { c.violation("utf16-encode", "\"u1\":" + std::to_string(u1) + ",\"be\":" + std::to_string(be) + ",\"problem\":\"exception or eaten/bytes inconsistent\""); return; }
            got += r.out; pos += r.eaten;
        }
        if (got.size() != bytes.size() || memcmp(got.data(), bytes.data(), bytes.size()) != 0) { c.violation("utf16-encode", "\"u1\":" + std::to_string(u1) + ",\"be\":" + std::to_string(be) + ",\"problem\":\"bytes differ\""); return; }
        c.count("utf16_pairs_encoded", NP);
    }
    // byte counts 0..5 of the first pairs, maxChars 1..3: an odd trailing byte is never consumed
    for (size_t u2 : {(size_t)0, (size_t)0xD800, (size_t)0xDC00, (size_t)0xFFFF}) {
        for (size_t n = 0; n <= 5; n++) for (size_t mc = 1; mc <= 3; mc++) {
            uint8_t b6[8]; memcpy(b6, &bytes[4 * u2], 4); b6[4] = 0x41; b6[5] = 0x42;
            RefParse rp = ref_parse(be ? 2 : 1, b6, n);
            FromRes r = x_from(t, b6, n, mc);
            std::string outcome, e = check_from(rp, r, mc, true, &outcome);
            if (!e.empty()) c.violation("utf16-decode-split", "\"u1\":" + std::to_string(u1) + ",\"u2\":" + std::to_string(u2) + ",\"be\":" + std::to_string(be) + ",\"bytes\":" + std::to_string(n) + ",\"maxChars\":" + std::to_string(mc) + ",\"problem\":" + jstr(e));
            else c.count("utf16_split:" + outcome);
        }
        for (size_t mb = 1; mb <= 8; mb++) {
            ToRes r = x_to(t, &units[2 * u2], 2, mb);
            size_t wantu = std::min<size_t>(2, mb / 2);
            if (r.threw || r.eaten != wantu || r.out != Bytes((const char*)&bytes[4 * u2], wantu * 2))
                c.violation("utf16-encode-block", "\"u1\":" + std::to_string(u1) + ",\"u2\":" + std::to_string(u2) + ",\"be\":" + std::to_string(be) + ",\"maxBytes\":" + std::to_string(mb));
            else c.count("utf16_outblocks_ok");
        }
    }
    if (!g_u16[be]->canTranscodeTo(u1) || !g_u16[be]->canTranscodeTo(0x10000 + u1 * 16)) c.violation("utf16-cantranscodeto", "\"u1\":" + std::to_string(u1));
    if (idx % 9973 == 0) c.sample("{\"first_unit\":" + std::to_string(u1) + ",\"be\":" + std::to_string(be) + "}");
}
static void setup_utf16(const Args& a, Runner& R) {
    g_u16[0] = make_tc("UTF-16LE"); g_u16[1] = make_tc("UTF-16BE");
    if (enc_index("UTF-16LE") != 1 || enc_index("UTF-16BE") != 2) { fprintf(stderr, "ENCS order\n"); exit(2); }
    if (a.str("mode", "quick") == "quick") {
        // first units: every class edge of UTF-16 (+-1) and every byte-swap-sensitive pattern; second unit: ALL 65536 values
        for (uint32_t u : {0x0000u, 0x0001u, 0x0041u, 0x007Fu, 0x0080u, 0x00FFu, 0x0100u, 0x07FFu, 0x0800u, 0x3C00u, 0x003Cu, 0xD7FFu, 0xD800u, 0xD801u, 0xDBFEu, 0xDBFFu,
                           0xDC00u, 0xDC01u, 0xDFFEu, 0xDFFFu, 0xE000u, 0xFEFFu, 0xFFFEu, 0xFFFDu, 0xFFFFu, 0x00D8u, 0x00DCu, 0xFF00u, 0x1234u, 0x3412u, 0x8000u, 0x7FFFu})
            g_u16first.push_back(u);
    } else for (uint32_t u = 0; u < 65536; u++) g_u16first.push_back(u);
    R.total = g_u16first.size() * 2;
    R.fn = run_utf16;
    R.describe = [](uint64_t i) { return "{\"first_unit\":" + std::to_string(g_u16first[i >> 1]) + ",\"be\":" + std::to_string(i & 1) + "}"; };
    R.extra_json = "\"bounds\":" + jstr(std::to_string(g_u16first.size()) + " first units x all 65536 second units x {LE,BE}");
}

// =================================================================================================
// space ucs4: one transcodeFrom call per 32-bit value
// =================================================================================================
static XMLTranscoder* g_u4[2];
static std::vector<uint32_t> g_u4extra;   // byte-class product values
static uint64_t g_u4dense = 0;            // all values below this bound
static const uint32_t U4_CHUNK = 4096;
static void ucs4_value(Ctx& c, uint32_t v, int be, std::map<std::string, uint64_t>& cnt) {
    Bytes b = ref_utf32_encode(v, be != 0);
    FromRes r = x_from(g_u4[be], (const uint8_t*)b.data(), 4, 2);
    auto where_fn = [&]() { char hv[16]; snprintf(hv, sizeof hv, "%08X", v); return std::string("\"value\":") + jstr(hv) + ",\"encoding\":" + jstr(be ? "UCS-4BE" : "UCS-4LE") + ",\"bytes\":" + jstr(hexs(b)); };
#define where where_fn()
    if (is_scalar(v)) {
        U16 want; append_scalar(want, v);
        std::vector<uint8_t> ws = {4}; if (want.size() == 2) ws.push_back(0);
        if (r.threw || r.out != want || r.eaten != 4 || r.sizes != ws) c.violation("ucs4-decode", where + ",\"expected\":" + jstr(hex16(want)) + ",\"observed\":" + jstr(r.threw ? r.exc : hex16(r.out)));
        else cnt[want.size() == 2 ? "ucs4_decoded_supplementary" : "ucs4_decoded_bmp"]++;
        // with room for one unit only, a supplementary value must be left alone
        if (want.size() == 2) {
            FromRes r1 = x_from(g_u4[be], (const uint8_t*)b.data(), 4, 1);
            if (r1.threw || !r1.out.empty() || r1.eaten != 0) c.violation("ucs4-decode", where + ",\"problem\":\"maxChars=1: expected nothing consumed\"");
            else cnt["ucs4_pair_deferred_maxchars1"]++;
        }
        return;
    }
    if (r.threw) { cnt["ucs4_rejected:" + r.exc]++; return; }
    if (is_surrogate(v)) {
        if (r.out.size() == 1 && r.out[0] == v && r.eaten == 4) { if (g_strict) c.violation("ucs4-surrogate-decoded", where + ",\"observed\":" + jstr(hex16(r.out))); else cnt["known_defect:ucs4-surrogate-decoded"]++; return; }
    } else {
        // exactly the known wrong arithmetic: lead = 0xD7C0 + (v >> 10), trail = 0xDC00 + (v & 0x3FF), both truncated to 16 bits
        U16 bogus; bogus.push_back((uint16_t)(0xD7C0 + (v >> 10))); bogus.push_back((uint16_t)(0xDC00 + (v & 0x3FF)));
        if (r.out == bogus && r.eaten == 4) {
            bool looks_valid = bogus[0] >= 0xD800 && bogus[0] <= 0xDBFF;
            if (looks_valid) cnt["ucs4_out_of_range_decoded_as_valid_pair"]++;
            if (g_strict) c.violation("ucs4-out-of-range-decoded", where + ",\"observed\":" + jstr(hex16(r.out))); else cnt["known_defect:ucs4-out-of-range-decoded"]++;
            return;
        }
    }
    c.violation("ucs4-illegal-not-rejected", where + ",\"observed\":" + jstr(hex16(r.out)) + ",\"eaten\":" + std::to_string(r.eaten));
#undef where
}
static void run_ucs4(uint64_t idx, Ctx& c) {
    std::map<std::string, uint64_t> cnt;
    uint64_t dense_chunks = g_u4dense / U4_CHUNK;
    int be = (int)(idx & 1);
    uint64_t k = idx >> 1;
    if (k < dense_chunks) for (uint32_t v = (uint32_t)(k * U4_CHUNK), e = v + U4_CHUNK; v != e; v++) ucs4_value(c, v, be, cnt);
    else {
        size_t lo = (size_t)(k - dense_chunks) * U4_CHUNK, hi = std::min(g_u4extra.size(), lo + U4_CHUNK);
        for (size_t i = lo; i < hi; i++) ucs4_value(c, g_u4extra[i], be, cnt);
    }
    for (auto& kv : cnt) c.count(kv.first, kv.second);
    if (idx % 997 == 0) c.sample("{\"chunk\":" + std::to_string(k) + ",\"be\":" + std::to_string(be) + "}");
}
static void setup_ucs4(const Args& a, Runner& R) {
    g_u4[0] = make_tc("UCS-4LE"); g_u4[1] = make_tc("UCS-4BE");
    std::string mode = a.str("mode", "quick");
    std::vector<int> cls;
    if (mode == "quick") { g_u4dense = 0x120000; cls = {0x00, 0x01, 0x0F, 0x10, 0x11, 0x1F, 0x20, 0x41, 0x7F, 0x80, 0xD7, 0xD8, 0xDB, 0xDC, 0xDF, 0xE0, 0xFD, 0xFE, 0xFF, 0x04}; }
    else { g_u4dense = 0x1000000; for (int b = 0; b < 256; b++) if (b < 0x14 || (b & 7) == 0 || (b & 7) == 7 || (b >= 0xD6 && b <= 0xE1) || b >= 0xFC || b == 0x41) cls.push_back(b); }
    for (int a3 : cls) for (int a2 : cls) for (int a1 : cls) for (int a0 : cls) {
        uint32_t v = (uint32_t)a3 << 24 | (uint32_t)a2 << 16 | (uint32_t)a1 << 8 | (uint32_t)a0;
        if (v >= g_u4dense) g_u4extra.push_back(v);
    }
    R.total = 2 * (g_u4dense / U4_CHUNK + (g_u4extra.size() + U4_CHUNK - 1) / U4_CHUNK);
    R.fn = run_ucs4;
    R.describe = [](uint64_t i) { return "{\"chunk\":" + std::to_string(i >> 1) + "}"; };
    char b[160]; snprintf(b, sizeof b, "every 32-bit value < 0x%llX plus %zu values of the %zu^4 byte-class product, x {LE,BE}", (unsigned long long)g_u4dense, g_u4extra.size(), cls.size());
    R.extra_json = "\"bounds\":" + jstr(b);
}

// =================================================================================================
// space sbcs: every byte of every single-byte encoding, alias names
// =================================================================================================
struct Alias { const char* alias; const char* canon; };
static const Alias ALIASES[] = {
    {"utf-8", "UTF-8"}, {"UTF8", "UTF-8"}, {"Utf-8", "UTF-8"},
    {"us-ascii", "US-ASCII"}, {"USASCII", "US-ASCII"}, {"ASCII", "US-ASCII"}, {"US_ASCII", "US-ASCII"}, {"ascii", "US-ASCII"},
    {"iso-8859-1", "ISO-8859-1"}, {"ISO8859-1", "ISO-8859-1"}, {"ISO_8859-1", "ISO-8859-1"}, {"IBM-819", "ISO-8859-1"}, {"IBM819", "ISO-8859-1"}, {"LATIN1", "ISO-8859-1"},
    {"LATIN-1", "ISO-8859-1"}, {"LATIN_1", "ISO-8859-1"}, {"CP819", "ISO-8859-1"}, {"CSISOLATIN1", "ISO-8859-1"}, {"ISO-IR-100", "ISO-8859-1"}, {"L1", "ISO-8859-1"}, {"latin1", "ISO-8859-1"},
    {"windows-1252", "WINDOWS-1252"}, {"Windows-1252", "WINDOWS-1252"},
    {"EBCDIC-CP-US", "IBM037"}, {"ebcdic-cp-us", "IBM037"}, {"ibm037", "IBM037"},
    {"IBM-1047", "IBM1047"}, {"ibm1047", "IBM1047"},
    {"IBM01140", "IBM1140"}, {"CCSID01140", "IBM1140"}, {"CP01140", "IBM1140"}, {"ibm1140", "IBM1140"},
    {"UTF-16 (LE)", "UTF-16LE"}, {"utf-16le", "UTF-16LE"}, {"UTF-16 (BE)", "UTF-16BE"}, {"utf-16be", "UTF-16BE"},
    {"UCS-4 (LE)", "UCS-4LE"}, {"ucs-4le", "UCS-4LE"}, {"UCS-4 (BE)", "UCS-4BE"}, {"ucs-4be", "UCS-4BE"},
    // non-endian names mean "platform order" for a free-standing transcoder (little-endian here)
    {"UTF-16", "UTF-16LE"}, {"UCS2", "UTF-16LE"}, {"IBM1200", "UTF-16LE"}, {"IBM-1200", "UTF-16LE"}, {"UTF16", "UTF-16LE"}, {"UCS-2", "UTF-16LE"}, {"ISO-10646-UCS-2", "UTF-16LE"},
    {"UCS4", "UCS-4LE"}, {"UCS-4", "UCS-4LE"}, {"UCS_4", "UCS-4LE"}, {"UTF-32", "UCS-4LE"}, {"ISO-10646-UCS-4", "UCS-4LE"},
};
static const int NALIAS = sizeof(ALIASES) / sizeof(ALIASES[0]);
static std::vector<int> g_sb;  // indices of single-byte encodings
static void run_sbcs(uint64_t idx, Ctx& c) {
    if (idx >= g_sb.size()) {  // alias cases
        const Alias& A = ALIASES[idx - g_sb.size()];
        int rc = -1;
        XMLTranscoder* ta = make_tc(A.alias, 2048, &rc);
        XMLTranscoder* tc = make_tc(A.canon);
        if (!ta || rc != (int)XMLTransService::Ok) { c.violation("alias-not-accepted", "\"alias\":" + jstr(A.alias) + ",\"code\":" + std::to_string(rc)); delete ta; delete tc; return; }
        // same decoding of a probe that distinguishes every family (bytes 0..255 as 64 groups of 4)
        uint8_t probe[256]; for (int i = 0; i < 256; i++) probe[i] = (uint8_t)i;
        bool same = true;
        for (int g = 0; g < 64 && same; g++) {
            FromRes ra = x_from(ta, probe + 4 * g, 4, 8), rb = x_from(tc, probe + 4 * g, 4, 8);
            if (ra.threw != rb.threw || ra.out != rb.out || ra.eaten != rb.eaten) same = false;
        }
        if (!same) c.violation("alias-differs", "\"alias\":" + jstr(A.alias) + ",\"canonical\":" + jstr(A.canon));
        else c.count("alias_ok");
        delete ta; delete tc;
        return;
    }
    int ei = g_sb[idx];
    const Enc& E = ENCS[ei];
    XMLTranscoder* t = make_tc(E.xname);
    uint8_t all[256]; U16 wantall; bool all_defined = true;
    for (int b = 0; b < 256; b++) {
        all[b] = (uint8_t)b;
        uint8_t s1[1] = {(uint8_t)b};
        U16 want; std::string err;
        bool ok = g_icu[ei]->decode(s1, 1, want, &err) && want.size() == 1;
        FromRes r = x_from(t, s1, 1, 1);
        char hb[8]; snprintf(hb, sizeof hb, "%02X", b);
        std::string where = "\"encoding\":" + jstr(encdesc(ei)) + ",\"byte\":" + jstr(hb);
        if (ok) {
            if (!strcmp(E.xname, "IBM1047") && b == 0x15 && !r.threw && r.out == U16(1, 0x000A) && want == U16(1, 0x0085)) {
                known_or_violation(c, "ibm1047-nl-decodes-to-lf", where + ",\"expected\":\"0085\",\"observed\":\"000A\"");
                if (!g_strict) { wantall += r.out; continue; }
            }
            wantall += want;
            if (r.threw || r.out != want || r.eaten != 1 || r.sizes != std::vector<uint8_t>{1}) c.violation("sbcs-decode", where + ",\"expected\":" + jstr(hex16(want)) + ",\"observed\":" + jstr(r.threw ? r.exc : hex16(r.out)));
            else c.count("sbcs_byte_decoded");
            // and back
            if (!r.threw && r.out == want) {
                ToRes e = x_to(t, want.data(), 1, 1);
                Bytes refb; bool rrepr = g_icu[ei]->encode_cp(want[0], refb);
                if (rrepr && (e.threw || e.out != refb)) {
                    if (want[0] == 0 && e.threw && E.intrinsic) known_or_violation(c, "table-nul-unrepresentable", where);
                    else c.violation("sbcs-reencode", where + ",\"unit\":" + jstr(hex16(want)) + ",\"expected\":" + jstr(hexs(refb)) + ",\"observed\":" + jstr(e.threw ? e.exc : hexs(e.out)));
                } else c.count("sbcs_byte_roundtrip");
            }
        } else {
            all_defined = false;
            if (!r.threw) c.violation("sbcs-undefined-byte-decoded", where + ",\"reference\":" + jstr(err) + ",\"observed\":" + jstr(hex16(r.out)));
            else { c.count("sbcs_undefined_byte_rejected"); if (!E.intrinsic) { delete t; t = make_tc(E.xname); } }
        }
    }
    if (all_defined) {  // the whole page in one call and in blocks of every maxChars 1..9
        for (size_t mc : {(size_t)256, (size_t)1, (size_t)2, (size_t)3, (size_t)7, (size_t)9, (size_t)255}) {
            size_t pos = 0; U16 got; bool bad = false;
            while (pos < 256 && !bad) {
                FromRes r = x_from(t, all + pos, 256 - pos, mc);
                if (r.threw || r.eaten == 0 || r.eaten != r.out.size() || r.out.size() > mc) bad = true;
                else { got += r.out; pos += r.eaten; for (uint8_t z : r.sizes) if (z != 1) bad = true; }
            }
            if (bad || got != wantall) c.violation("sbcs-decode-block", "\"encoding\":" + jstr(encdesc(ei)) + ",\"maxChars\":" + std::to_string(mc));
            else c.count("sbcs_page_blocks_ok");
        }
    }
    delete t;
    c.sample("{\"encoding\":" + jstr(E.xname) + "}");
}
static void setup_sbcs(const Args& a, Runner& R) {
    select_encs(a);
    for (int ei : g_encsel) if (ENCS[ei].maxlen == 1) g_sb.push_back(ei);
    R.total = g_sb.size() + NALIAS;
    R.fn = run_sbcs;
    R.describe = [](uint64_t i) { return i < g_sb.size() ? "{\"encoding\":" + jstr(ENCS[g_sb[i]].xname) + "}" : "{\"alias\":" + jstr(ALIASES[i - g_sb.size()].alias) + "}"; };
    R.extra_json = "\"bounds\":" + jstr("256 bytes x " + std::to_string(g_sb.size()) + " single-byte encodings, " + std::to_string(NALIAS) + " alias spellings");
}

// =================================================================================================
// space mbcs: ICU-provided multi-byte encodings, every 1- and 2-byte sequence (longer ones where the 2-byte prefix is incomplete)
// =================================================================================================
static std::vector<int> g_mb;
static void mbcs_seq(Ctx& c, int ei, XMLTranscoder*& t, const uint8_t* s, size_t n, std::map<std::string, uint64_t>& cnt, RefParse* out_rp = nullptr) {
    const Enc& E = ENCS[ei];
    RefParse rp = ref_parse(ei, s, n);
    if (out_rp) *out_rp = rp;
    FromRes r = x_from(t, s, n, 8);
    g_sizes_per_char = true;
    bool clean = !r.threw && rp.term == RefParse::END;
    std::string outcome, err;
    if (!r.threw && rp.term == RefParse::INCOMPLETE && r.eaten == n && r.out == rp.units(rp.items.size())) outcome = "decoded+partial-bytes-held-in-converter-state";
    else err = check_from(rp, r, 8, true, &outcome);
    if (!err.empty() && !r.threw && rp.term == RefParse::ILLFORMED) {
        U16 pred;
        if (g_icusub[ei]->decode(s, n, pred) && (r.out == pred || (r.eaten == n && pred.compare(0, r.out.size(), r.out) == 0))) {
            known_or_violation(c, "icu-illegal-input-substituted", "\"encoding\":" + jstr(E.xname) + ",\"input_hex\":" + jstr(hexb(s, n)) + ",\"observed\":" + jstr(hex16(r.out)));
            delete t; t = make_tc(E.xname);
            return;
        }
        err += " observed [" + hex16(r.out) + "] predicted-substitution [" + hex16(pred) + "]";
    }
    if (!err.empty()) c.violation("mbcs-decode", "\"encoding\":" + jstr(encdesc(ei)) + ",\"input_hex\":" + jstr(hexb(s, n)) + ",\"problem\":" + jstr(err));
    else cnt["mbcs:" + (outcome.compare(0, 9, "rejected:") == 0 ? std::string("rejected") : outcome)]++;
    if (!err.empty() && c.verbose) printf("mbcs %s %s: %s\n", E.xname, hexb(s, n).c_str(), err.c_str());
    if (!clean) { delete t; t = make_tc(E.xname); }
    if (rp.term == RefParse::END && rp.items.size() == 1 && n > 1) cnt["mbcs_multibyte_char_decoded"]++;
}
static void run_mbcs(uint64_t idx, Ctx& c) {
    int ei = g_mb[idx / 256];
    int b0 = (int)(idx % 256);
    const Enc& E = ENCS[ei];
    XMLTranscoder* t = make_tc(E.xname);
    std::map<std::string, uint64_t> cnt;
    uint8_t s[4] = {(uint8_t)b0, 0, 0, 0};
    mbcs_seq(c, ei, t, s, 1, cnt);
    static const int B2[] = {0x30, 0x39, 0x40, 0x7F, 0x80, 0x81, 0x82, 0xA1, 0xFD, 0xFE, 0xFF};
    for (int b1 = 0; b1 < 256; b1++) {
        s[1] = (uint8_t)b1;
        RefParse rp2;
        mbcs_seq(c, ei, t, s, 2, cnt, &rp2);
        if (rp2.term != RefParse::INCOMPLETE || rp2.term_pos != 0) continue;
        for (int b2 = 0; b2 < 256; b2++) {
            s[2] = (uint8_t)b2;
            RefParse rp3;
            mbcs_seq(c, ei, t, s, 3, cnt, &rp3);
            if (rp3.term != RefParse::INCOMPLETE || rp3.term_pos != 0) continue;
            bool edge = false; for (int x : B2) if (x == b2) edge = true;
            if (!edge) continue;
            for (int b3 = 0; b3 < 256; b3++) { s[3] = (uint8_t)b3; mbcs_seq(c, ei, t, s, 4, cnt); }
        }
    }
    delete t;
    for (auto& kv : cnt) c.count(kv.first, kv.second);
    if (idx % 97 == 0) c.sample("{\"encoding\":" + jstr(E.xname) + ",\"first_byte\":" + std::to_string(b0) + "}");
}
static void setup_mbcs(const Args& a, Runner& R) {
    select_encs(a);
    for (int ei : g_encsel) if (ENCS[ei].maxlen > 1 && !ENCS[ei].intrinsic) g_mb.push_back(ei);
    R.total = g_mb.size() * 256;
    R.fn = run_mbcs;
    R.describe = [](uint64_t i) { return "{\"encoding\":" + jstr(ENCS[g_mb[i / 256]].xname) + ",\"first_byte\":" + std::to_string(i % 256) + "}"; };
    R.extra_json = "\"bounds\":" + jstr("every 1- and 2-byte sequence (3rd/4th byte where the prefix is incomplete) x " + std::to_string(g_mb.size()) + " ICU multi-byte encodings");
}

// =================================================================================================
// space split: words over a character alphabet x encodings x every split offset x every maxChars (streamed), prefixes through
// TranscodeFromStr, whole words through TranscodeToStr and block-wise transcodeTo
// =================================================================================================
static const uint32_t SPLIT_ALPHA[] = {0x41, 0xE9, 0x416, 0x20AC, 0x3042, 0x4E00, 0x10000, 0x10FFFF};
static const int NSA = sizeof(SPLIT_ALPHA) / sizeof(SPLIT_ALPHA[0]);
static int g_splitk = 3;
static uint64_t g_nwords = 0;

static void run_split(uint64_t idx, Ctx& c) {
    int ei = g_encsel[idx / g_nwords];
    const Enc& E = ENCS[ei];
    g_sizes_per_char = !E.intrinsic;
    std::vector<int> w = word_at(idx % g_nwords, NSA, g_splitk);
    U16 units; Bytes bytes; std::vector<uint8_t> wsz; std::vector<size_t> bound = {0};
    std::string wdesc;
    for (int sym : w) {
        uint32_t cp = SPLIT_ALPHA[sym];
        Bytes b;
        if (!ref_encode(ei, cp, b)) { c.count("split_word_skipped_unrepresentable"); return; }
        append_scalar(units, cp); bytes += b;
        if (E.kind == R_UTF16LE || E.kind == R_UTF16BE) { wsz.push_back(2); if (cp >= 0x10000) wsz.push_back(2); }   // unit copy: 2 bytes per unit
        else { wsz.push_back((uint8_t)b.size()); if (cp >= 0x10000) wsz.push_back(0); }
        bound.push_back(bytes.size());
        char t[16]; snprintf(t, sizeof t, "U+%04X ", cp); wdesc += t;
    }
    std::string where = "\"encoding\":" + jstr(encdesc(ei)) + ",\"word\":" + jstr(wdesc) + ",\"bytes\":" + jstr(hexs(bytes));
    const uint8_t* B = (const uint8_t*)bytes.data();
    size_t len = bytes.size();
    g_src_pad_units = (E.intrinsic || g_strict) ? 0 : 1;
    std::map<std::string, uint64_t> cnt;
    // ---- 1. streamed decode: first segment bytes[0,s), then the rest; every maxChars
    for (size_t s = 0; s <= len; s++) for (size_t m = 1; m <= units.size() + 1; m++) {
        XMLTranscoder* t = make_tc(E.xname);
        size_t pos = 0, seg_end = s, guard = 0; U16 got; std::vector<uint8_t> gsz; std::string err; size_t mm = m;
        while (true) {
            if (++guard > 200) { err = "no termination"; break; }
            size_t avail = seg_end - pos;
            if (avail == 0) { if (seg_end == len) break; seg_end = len; continue; }
            FromRes r = x_from(t, B + pos, avail, mm);
            if (r.threw) { err = "exception " + r.exc + " on well-formed input"; break; }
            if (r.eaten > avail || r.out.size() > mm) { err = "eaten/chars out of range"; break; }
            got += r.out; gsz.insert(gsz.end(), r.sizes.begin(), r.sizes.end());
            if (r.eaten == 0 && r.out.empty()) {
                if (seg_end < len) { seg_end = len; cnt["split_needed_more_bytes"]++; continue; }
                size_t ci = 0; while (ci + 1 < bound.size() && bound[ci] < pos) ci++;
                if (mm == 1) { mm = 2; cnt["split_pair_needs_two_slots"]++; continue; }
                err = "stalled at byte " + std::to_string(pos); break;
            }
            pos += r.eaten; mm = m;
        }
        delete t;
        if (err.empty() && !E.intrinsic && got.size() + 1 == units.size() && units.compare(0, got.size(), got) == 0 && units.back() >= 0xDC00 && units.back() <= 0xDFFF) {
            known_or_violation(c, "icu-decode-pair-overflow-lost", where + ",\"split\":" + std::to_string(s)); continue;
        }
        if (err.empty() && got != units) err = "decoded [" + hex16(got) + "] expected [" + hex16(units) + "]";
        if (err.empty() && E.intrinsic && gsz != wsz) err = "charSizes " + hexv(gsz) + " expected " + hexv(wsz);
        if (!err.empty()) { c.violation("split-decode", where + ",\"split\":" + std::to_string(s) + ",\"maxChars\":" + std::to_string(m) + ",\"problem\":" + jstr(err)); if (c.verbose) printf("split %s\n", err.c_str()); }
        else cnt["split_streams_ok"]++;
        bool inside = true; for (size_t b : bound) if (b == s) inside = false;
        if (inside && err.empty()) cnt["split_streams_cut_inside_character"]++;
    }
    // ---- 2. every prefix through TranscodeFromStr and through one transcodeFrom call
    for (size_t p = 0; p <= len; p++) {
        RefParse rp = ref_parse(ei, B, p);
        uint8_t* buf = g_src.get(p); if (p) memcpy(buf, B, p);
        bool threw = false; std::string exc; U16 got;
        try { TranscodeFromStr tf(buf, p, E.xname); got.assign((const uint16_t*)tf.str(), tf.length()); }
        catch (const XMLException& e) { threw = true; exc = exc_name(e); }
        U16 want = rp.units(rp.items.size());
        if (rp.term == RefParse::END) {
            if (threw || got != want) c.violation("fromstr", where + ",\"prefix\":" + std::to_string(p) + ",\"problem\":" + jstr(threw ? "exception " + exc : "got [" + hex16(got) + "]"));
            else cnt["fromstr_ok"]++;
        } else {  // ends inside a character
            if (threw) cnt["fromstr_truncated_rejected"]++;
            else if (!E.intrinsic && got == want) known_or_violation(c, "icu-truncated-input-swallowed", where + ",\"prefix\":" + std::to_string(p));
            else c.violation("fromstr-truncated-accepted", where + ",\"prefix\":" + std::to_string(p) + ",\"got\":" + jstr(hex16(got)));
        }
        if (E.intrinsic) {
            XMLTranscoder* t = make_tc(E.xname);
            FromRes r = x_from(t, B, p, 16);
            std::string outcome, e = check_from(rp, r, 16, true, &outcome);
            if (!e.empty()) c.violation("prefix-decode", where + ",\"prefix\":" + std::to_string(p) + ",\"problem\":" + jstr(e));
            else cnt["prefix:" + outcome]++;
            delete t;
        }
    }
    // ---- 3. TranscodeToStr
    {
        bool threw = false; std::string exc; Bytes got;
        XMLCh* src = (XMLCh*)g_src.get((units.size() + 1) * 2);
        memcpy(src, units.data(), units.size() * 2); src[units.size()] = 0;
        try { TranscodeToStr tt(src, units.size(), E.xname); got.assign((const char*)tt.str(), tt.length()); }
        catch (const XMLException& e) { threw = true; exc = exc_name(e); }
        if (!threw && got == bytes) cnt["tostr_ok"]++;
        else if (!E.intrinsic && (threw || (got.size() < len && bytes.compare(0, got.size(), got) == 0))) known_or_violation(c, "icu-encode-overflow-lost", where + ",\"api\":\"TranscodeToStr\",\"observed\":" + jstr(threw ? exc : hexs(got)));
        else if (E.kind == R_UCS4BE && !threw && got.size() == len) known_or_violation(c, "ucs4-swapped-supplementary-not-swapped", where + ",\"api\":\"TranscodeToStr\"");
        else c.violation("tostr", where + ",\"observed\":" + jstr(threw ? exc : hexs(got)));
    }
    // ---- 4. block-wise transcodeTo: every source block 1..4 x every output block 1..8
    for (size_t sb = 1; sb <= 4; sb++) for (size_t mb = 1; mb <= 8; mb++) {
        XMLTranscoder* t = make_tc(E.xname);
        Bytes got; bool threw; std::map<std::string, uint64_t> dummy;
        std::string e = stream_encode(t, units, sb, mb, got, threw, dummy);
        delete t;
        if (!threw && e.empty() && got == bytes) { cnt["encode_streams_ok"]++; continue; }
        if (E.kind == R_UCS4BE && !threw && e.empty() && got.size() == len) { known_or_violation(c, "ucs4-swapped-supplementary-not-swapped", where); continue; }
        if (!E.intrinsic && (threw || (e.empty() && got.size() < len && bytes.compare(0, got.size(), got) == 0))) { known_or_violation(c, "icu-encode-overflow-lost", where + ",\"maxBytes\":" + std::to_string(mb)); continue; }
        c.violation("split-encode", where + ",\"srcBlock\":" + std::to_string(sb) + ",\"maxBytes\":" + std::to_string(mb) + ",\"problem\":" + jstr(threw ? "exception" : e.empty() ? "got " + hexs(got) : e));
    }
    for (auto& kv : cnt) c.count(kv.first, kv.second);
    if (idx % 997 == 0) c.sample("{" + where + "}");
}
static void setup_split(const Args& a, Runner& R) {
    select_encs(a);
    g_splitk = (int)a.num("k", 3);
    g_nwords = words_upto(NSA, g_splitk);
    R.total = g_nwords * g_encsel.size();
    R.fn = run_split;
    R.describe = [](uint64_t i) { return "{\"encoding\":" + jstr(ENCS[g_encsel[i / g_nwords]].xname) + ",\"word_index\":" + std::to_string(i % g_nwords) + "}"; };
    R.extra_json = "\"alphabet\":" + std::to_string(NSA) + ",\"k\":" + std::to_string(g_splitk) + ",\"bounds\":" + jstr("words <= k over 8 characters x " + std::to_string(g_encsel.size()) + " encodings x every split offset x every maxChars");
}

// =================================================================================================
// space witness: one minimal, strictly judged case per KNOWN_DEFECTS entry (exact-size buffers, no padding)
// =================================================================================================
static const char* WITNESS[] = {"ucs4-out-of-range-decoded", "ucs4-surrogate-decoded", "ucs4-swapped-supplementary-not-swapped", "table-fallback-mapping",
                                "table-cantranscodeto-truncates", "table-nul-unrepresentable", "ibm1047-nl-decodes-to-lf", "icu-cantranscodeto-supplementary",
                                "icu-default-ignorable-dropped", "icu-illegal-input-substituted", "icu-truncated-input-swallowed", "icu-encode-overflow-lost",
                                "icu-decode-pair-overflow-lost", "icu-unrepresentable-overread"};
static const int NWITNESS = sizeof(WITNESS) / sizeof(WITNESS[0]);
static int g_witness_base = 0;   // space "overread" runs only the last witness (it aborts under ASan and must not share a worker with others)
static void run_witness(uint64_t idx, Ctx& c) {
    std::string id = WITNESS[idx + g_witness_base];
    g_src_pad_units = 0;
    auto bad = [&](const std::string& repro, const std::string& expected, const std::string& observed) {
        c.violation(id.c_str(), "\"repro\":" + jstr(repro) + ",\"expected\":" + jstr(expected) + ",\"observed\":" + jstr(observed));
        if (c.verbose) printf("witness %s\n  repro: %s\n  expected: %s\n  observed: %s\n", id.c_str(), repro.c_str(), expected.c_str(), observed.c_str());
    };
    auto fixed = [&]() { c.count("witness_behaves_correctly:" + id); };
    auto show = [](const FromRes& r) { return r.threw ? "exception " + r.exc : "units [" + hex16(r.out) + "] bytesEaten=" + std::to_string(r.eaten); };
    auto showt = [](const ToRes& r) { return r.threw ? "exception " + r.exc : "bytes " + hexs(r.out) + " charsEaten=" + std::to_string(r.eaten); };
    if (id == "ucs4-out-of-range-decoded") {
        XMLTranscoder* t = make_tc("UCS-4LE");
        uint8_t a[4] = {0x00, 0x00, 0x11, 0x00}, b[4] = {0x00, 0x00, 0x01, 0x04};
        FromRes r = x_from(t, a, 4, 4), r2 = x_from(t, b, 4, 4);
        if (!r.threw || !r2.threw) bad("makeNewTranscoderFor(\"UCS-4LE\")->transcodeFrom(bytes 00 00 11 00 [=0x00110000]) and (bytes 00 00 01 04 [=0x04010000])", "TranscodingException for both (values > 0x10FFFF are not Unicode)", show(r) + " ; " + show(r2) + " (the second is U+10000)");
        else fixed();
        delete t;
    } else if (id == "ucs4-surrogate-decoded") {
        XMLTranscoder* t = make_tc("UCS-4BE");
        uint8_t a[8] = {0, 0, 0xD8, 0x00, 0, 0, 0xDC, 0x00};
        FromRes r = x_from(t, a, 8, 4);
        if (!r.threw) bad("makeNewTranscoderFor(\"UCS-4BE\")->transcodeFrom(bytes 00 00 D8 00 00 00 DC 00)", "TranscodingException (surrogate code points are not legal UCS-4/UTF-32 values)", show(r) + " (a well-formed pair = U+10000)");
        else fixed();
        delete t;
    } else if (id == "ucs4-swapped-supplementary-not-swapped") {
        XMLTranscoder* t = make_tc("UCS-4BE");
        uint16_t u[2] = {0xD800, 0xDC00};
        ToRes r = x_to(t, u, 2, 8);
        if (r.threw || r.out != Bytes("\x00\x01\x00\x00", 4)) bad("makeNewTranscoderFor(\"UCS-4BE\")->transcodeTo(D800 DC00 [U+10000])", "bytes 00010000", showt(r));
        else fixed();
        delete t;
    } else if (id == "table-fallback-mapping") {
        XMLTranscoder* t = make_tc("WINDOWS-1252");
        uint16_t u[1] = {0xFF1C};
        ToRes r = x_to(t, u, 1, 4);
        bool can = t->canTranscodeTo(0xFF1C);
        if (!r.threw || can) bad("makeNewTranscoderFor(\"WINDOWS-1252\"): canTranscodeTo(0xFF1C) and transcodeTo(U+FF1C FULLWIDTH LESS-THAN SIGN, UnRep_Throw); same for IBM037/IBM1047/IBM1140 and all of U+FF01..U+FF5E", "canTranscodeTo=false and TranscodingException(Trans_Unrepresentable): windows-1252 has no U+FF1C", std::string("canTranscodeTo=") + (can ? "true" : "false") + ", " + showt(r) + " (an ASCII '<')");
        else fixed();
        delete t;
    } else if (id == "table-cantranscodeto-truncates") {
        XMLTranscoder* t = make_tc("IBM1140");
        bool can = t->canTranscodeTo(0x10041);
        if (can) bad("makeNewTranscoderFor(\"IBM1140\")->canTranscodeTo(0x10041)", "false", "true (0x10041 truncated to XMLCh 0x0041)");
        else fixed();
        delete t;
    } else if (id == "table-nul-unrepresentable") {
        XMLTranscoder* t = make_tc("WINDOWS-1252");
        uint16_t u[1] = {0};
        ToRes r = x_to(t, u, 1, 4);
        bool can = t->canTranscodeTo(0);
        if (!can || r.threw) bad("makeNewTranscoderFor(\"WINDOWS-1252\"): canTranscodeTo(0), transcodeTo(U+0000)", "true, byte 00", std::string(can ? "true" : "false") + ", " + showt(r));
        else fixed();
        delete t;
    } else if (id == "ibm1047-nl-decodes-to-lf") {
        XMLTranscoder* t = make_tc("IBM1047");
        uint8_t a[1] = {0x15}; uint16_t u[1] = {0x85};
        FromRes r = x_from(t, a, 1, 2); ToRes e = x_to(t, u, 1, 2);
        if (r.threw || r.out != U16(1, 0x85)) bad("makeNewTranscoderFor(\"IBM1047\")->transcodeFrom(byte 15); ->transcodeTo(U+0085)", "U+0085 (IBM/ICU ibm-1047, and the inverse of this transcoder's own transcodeTo)", show(r) + " ; transcodeTo(U+0085) = " + showt(e));
        else fixed();
        delete t;
    } else if (id == "icu-cantranscodeto-supplementary") {
        XMLTranscoder* t = make_tc("GB18030");
        uint16_t u[2] = {0xDBC0, 0xDC00};
        ToRes r = x_to(t, u, 2, 8);
        bool can = t->canTranscodeTo(0x100000), can2 = t->canTranscodeTo(0x10000);
        if (!can) bad("makeNewTranscoderFor(\"GB18030\") [ICU]: canTranscodeTo(0x100000) vs transcodeTo(DBC0 DC00)", "true (GB18030 encodes every scalar value; transcodeTo gives " + showt(r) + ")", std::string("false; canTranscodeTo(0x10000)=") + (can2 ? "true" : "false") + " is really a test of U+20000");
        else fixed();
        delete t;
    } else if (id == "icu-default-ignorable-dropped") {
        XMLTranscoder* t = make_tc("ISO-8859-2");
        g_src_pad_units = 1;  // keep the other ICU defect (over-read) out of this witness
        uint16_t u[3] = {0x61, 0x200B, 0x62};
        ToRes r = x_to(t, u, 3, 8);
        bool can = t->canTranscodeTo(0x200B);
        g_src_pad_units = 0;
        if (!r.threw || can) bad("makeNewTranscoderFor(\"ISO-8859-2\") [ICU]: canTranscodeTo(0x200B); transcodeTo('a' U+200B 'b', UnRep_Throw)", "false; TranscodingException(Trans_Unrepresentable)", std::string(can ? "true" : "false") + "; " + showt(r) + " (the ZERO WIDTH SPACE vanished)");
        else fixed();
        delete t;
    } else if (id == "icu-illegal-input-substituted") {
        XMLTranscoder* t = make_tc("Shift_JIS");
        uint8_t a[3] = {0x41, 0xA0, 0x42};
        FromRes r = x_from(t, a, 3, 8);
        XMLTranscoder* t2 = make_tc("EUC-JP");
        uint8_t b[3] = {0xA1, 0x20, 0x42};
        FromRes r2 = x_from(t2, b, 3, 8);
        if (!r.threw || !r2.threw) bad("makeNewTranscoderFor(\"Shift_JIS\") [ICU]->transcodeFrom(41 A0 42); makeNewTranscoderFor(\"EUC-JP\")->transcodeFrom(A1 20 42)", "TranscodingException for both (A0 is unassigned in Shift_JIS; A1 20 is an illegal EUC-JP sequence)", show(r) + " ; " + show(r2));
        else fixed();
        delete t; delete t2;
    } else if (id == "icu-truncated-input-swallowed") {
        uint8_t* a = g_src.get(2); a[0] = 0x41; a[1] = 0x88;
        bool threw = false; U16 got;
        try { TranscodeFromStr tf(a, 2, "Shift_JIS"); got.assign((const uint16_t*)tf.str(), tf.length()); } catch (const XMLException&) { threw = true; }
        if (!threw) bad("TranscodeFromStr(bytes 41 88, 2, \"Shift_JIS\") - 88 is a lead byte without trail byte", "TranscodingException(Trans_BadSrcSeq), as for UTF-8 input 41 E2", "no exception, result [" + hex16(got) + "]");
        else fixed();
    } else if (id == "icu-encode-overflow-lost") {
        uint16_t* u = (uint16_t*)g_src.get(8); u[0] = u[1] = u[2] = 0x80; u[3] = 0;
        bool threw = false; Bytes got; std::string exc;
        try { TranscodeToStr tt((const XMLCh*)u, 3, "GB18030"); got.assign((const char*)tt.str(), tt.length()); } catch (const XMLException& e) { threw = true; exc = exc_name(e); }
        Bytes want; U16 w(3, 0x80); ref_encode_units(enc_index("GB18030"), w, want);
        if (threw || got != want) bad("TranscodeToStr(u\"\\u0080\\u0080\\u0080\", 3, \"GB18030\")", "bytes " + hexs(want), threw ? "exception " + exc : "bytes " + hexs(got) + " (last character cut: its tail stayed in ICU's overflow buffer)");
        else fixed();
    } else if (id == "icu-decode-pair-overflow-lost") {
        XMLTranscoder* t = make_tc("GB18030");
        uint8_t a[4] = {0x90, 0x30, 0x81, 0x30};
        FromRes r = x_from(t, a, 4, 1);
        if (r.threw || !(r.out.empty() && r.eaten == 0)) bad("makeNewTranscoderFor(\"GB18030\") [ICU]->transcodeFrom(90 30 81 30 [U+10000], maxChars=1)", "0 chars, bytesEaten=0 (as the intrinsic transcoders do when a pair does not fit)", show(r) + " (low surrogate kept inside the converter)");
        else fixed();
        delete t;
    } else if (id == "icu-unrepresentable-overread") {
        XMLTranscoder* t = make_tc("ISO-8859-2");
        uint16_t u[1] = {0x20AC};
        ToRes r = x_to(t, u, 1, 4);   // exact 2-byte heap source: ASan aborts inside ICUTranscoder::transcodeTo (reported by the runner as kind "crash")
        if (!r.threw) bad("transcodeTo(U+20AC) ISO-8859-2", "Trans_Unrepresentable", showt(r));
        else c.count("witness_no_sanitizer_report:" + id);
        delete t;
    }
}
static void setup_witness(const Args& a, Runner& R) {
    select_encs(a);
    if (a.str("space") == "overread") { g_witness_base = NWITNESS - 1; R.total = 1; }
    else R.total = NWITNESS - 1;
    R.fn = run_witness;
    R.describe = [](uint64_t i) {
        std::string id = WITNESS[i + g_witness_base];
        std::string o = "{\"witness\":" + jstr(id);
        if (id == "icu-unrepresentable-overread") o += ",\"repro\":\"makeNewTranscoderFor(\\\"ISO-8859-2\\\")->transcodeTo(src = exactly one XMLCh U+20AC on the heap, srcCount=1, maxBytes=4, UnRep_Throw)\",\"expected\":\"TranscodingException(Trans_Unrepresentable) without reading src[1]\"";
        return o + "}";
    };
}

// =================================================================================================
int main(int argc, char** argv) {
    Args a(argc, argv);
    std::string space = a.str("space", "utf8dec");
    g_strict = a.num("strict", 0) != 0;
    XMLPlatformUtils::Initialize();
    if (space == "dumptables") {
        // raw observations for the python-side codecs comparison (xv/c05.py run_pycodecs): what Xerces decodes every byte to and which
        // byte it encodes every BMP code point to, for the intrinsic single-byte transcoders
        FILE* f = fopen(a.str("dump", "/dev/stdout").c_str(), "w");
        if (!f) return 2;
        fprintf(f, "{\"tables\":{");
        bool first = true;
        for (int ei = 0; ei < NENC; ei++) {
            if (!ENCS[ei].intrinsic || ENCS[ei].maxlen != 1) continue;
            XMLTranscoder* t = make_tc(ENCS[ei].xname);
            fprintf(f, "%s\"%s\":{\"decode\":[", first ? "" : ",", ENCS[ei].xname); first = false;
            for (int b = 0; b < 256; b++) {
                uint8_t s1[1] = {(uint8_t)b};
                FromRes r = x_from(t, s1, 1, 1);
                fprintf(f, "%s%d", b ? "," : "", (r.threw || r.out.size() != 1) ? -1 : (int)r.out[0]);
            }
            fprintf(f, "],\"encode\":{");
            bool f2 = true;
            for (uint32_t cp = 0; cp < 0x10000; cp++) {
                if (is_surrogate(cp) || !t->canTranscodeTo(cp)) continue;
                uint16_t u[1] = {(uint16_t)cp};
                ToRes r = x_to(t, u, 1, 2);
                if (r.threw || r.out.size() != 1) { fprintf(f, "%s\"%u\":-1", f2 ? "" : ",", cp); f2 = false; continue; }
                fprintf(f, "%s\"%u\":%d", f2 ? "" : ",", cp, (int)(uint8_t)r.out[0]); f2 = false;
            }
            fprintf(f, "}}");
            delete t;
        }
        fprintf(f, "}}\n");
        fclose(f);
        return 0;
    }
    Runner R;
    R.name = space;
    if (space == "utf8dec") setup_utf8dec(a, R);
    else if (space == "enc") setup_enc(a, R);
    else if (space == "utf16") setup_utf16(a, R);
    else if (space == "ucs4") setup_ucs4(a, R);
    else if (space == "sbcs") setup_sbcs(a, R);
    else if (space == "mbcs") setup_mbcs(a, R);
    else if (space == "split") setup_split(a, R);
    else if (space == "witness" || space == "overread") setup_witness(a, R);
    else { fprintf(stderr, "unknown space %s\n", space.c_str()); return 2; }
    return R.main_tail(a);
}
