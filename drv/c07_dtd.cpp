// c07_dtd - bounded-exhaustive check of DTD validation (property C07).
//
//   --space cm     content models: one case = one content-spec tree (model); the document holds one <e>..</e> instance per child
//                  sequence (one per line); verdict per instance = "an error of severity E was reported on that line".
//                  Oracle: Brzozowski-derivative membership of the element-child subsequence + the XML 1.0 section 3.2 rules for
//                  character data / white space / comments / PIs in EMPTY, ANY, mixed and element content.
//   --space cmx    extended child tokens (character references, CDATA sections, entity references) on a fixed list of models,
//                  single-instance documents.
//   --space attr   attribute type x default x value x presence (single document per case); also validation on/off dump
//                  equality and subset-placement equality.
//   --space idref  ID / IDREF / IDREFS graphs over <= 3 elements.
//   --space vc     single-constraint violations of the remaining validity constraints + root name + standalone="yes" matrix.
//   --space place  content-model batches under every subset placement.
//
// Every disagreement found in a batched document is re-run as a single-instance document before it counts.
#include "c07_model.hpp"
#include "xv_xml.hpp"
using namespace xv;
using namespace c07;

// ====================================================================================================== configurations
struct PCfg { int scanner, api, val; };
static std::vector<PCfg> all_cfgs() {  // {IG,DG} x {SAX2,DOM} x {always,auto}
    std::vector<PCfg> v;
    for (int sc : {IG, DG}) for (int api : {SAX2, DOM}) for (int val : {1, 2}) v.push_back({sc, api, val});
    return v;
}
static Config mk(const PCfg& p) { Config c; c.scanner = p.scanner; c.api = p.api; c.val = p.val; c.ns = false; return c; }
static std::string cfgname(const PCfg& p) { return mk(p).str(); }

// KNOWN_DEFECTS: genuine library defects found by this check (details, repro and suggested patches in docs/c07.md).  The cases that
// hit exactly these defects are skipped (and counted as known_defect_skipped:<id>) so that the rest of the space is explored and the
// check can exit 0; run the driver with --strict 1 to disable the list and see them fail.  A case is only skipped when the
// *defect-tolerant* variant of the reference explains the observed verdict; everything else is still compared strictly.
struct KnownDefect { const char* id; const char* slug; const char* what; };  // slug: stable kind "defect:<slug>" of the witness space
static const KnownDefect KNOWN_DEFECTS[] = {
    {"KD1-auto-skips-declaration-VCs", "val-auto-skips-declaration-constraints",
     "Val_Auto with a DOCTYPE: validity constraints checked while the DTD is scanned (ID attribute default, duplicate element declaration, "
     "duplicate name in mixed content, PE nesting) are only reported when the scheme is Val_Always (DTDScanner tests getValidationScheme()==Val_Always)"},
    {"KD2-enumerated-value-list-accepted", "enumerated-attribute-accepts-token-list",
     "a value consisting of several listed tokens ('en1 en2', 'n1 n2') is accepted for an enumeration / NOTATION attribute "
     "(DTDValidator::validateAttrValue treats Notation and Enumeration as multi-valued)"},
    {"KD3-charref-whitespace-splits-tokens", "charref-whitespace-splits-attribute-tokens",
     "a TAB/LF/CR produced by a character reference inside an IDREFS/ENTITIES/NMTOKENS value is treated as a token separator "
     "(validateAttrValue -> XMLString::collapseWS) although only #x20 separates tokens after normalisation"},
    {"KD4-duplicate-notation-is-warning", "duplicate-notation-declaration-only-warns", "VC Unique Notation Name: a second <!NOTATION n ...> only yields a warning"},
    {"KD5-ext-subset-ending-in-PE-reference", "external-subset-ending-in-pe-reference-fatal",
     "an external subset whose last construct is a reference to an internal parameter entity: ReaderMgr::popReader silently pops the exhausted "
     "external-subset reader (ignoring its throw-at-end flag), the DTD scanner runs into the document and reports a fatal error"},
    {"KD6-standalone-normalisation-trailing-or-inner", "standalone-attribute-normalisation-unreported",
     "standalone='yes' + externally declared tokenized attribute: only leading white space is reported (NoAttNormForStandalone); trailing or "
     "repeated inner spaces change the value as well but go unreported (scanAttValue)"},
    {"KD7-empty-entity-in-EMPTY-element", "empty-element-accepts-empty-entity-reference", "an element declared EMPTY containing a reference to an entity with empty replacement text is accepted"},
};
static const int N_KD = sizeof(KNOWN_DEFECTS) / sizeof(KNOWN_DEFECTS[0]);
static bool g_strict = false;
// g_kdFixed[i]: the witness of defect i passed when probed at start-up (probe_defects) => the library no longer has the defect and the
// tolerance for it is switched off: the cases it used to explain are compared strictly again.
static bool g_kdFixed[16] = {false};
// returns true when the case must be skipped as a known defect (and counts it)
static bool kd_skip(Ctx& c, const std::string& id) {
    if (g_strict || id.empty()) return false;
    for (int i = 0; i < N_KD; i++)
        if (id == KNOWN_DEFECTS[i].id) {
            if (g_kdFixed[i]) return false;
            c.count(std::string("known_defect_skipped:") + KNOWN_DEFECTS[i].id);
            return true;
        }
    return false;
}
static const char* KD1 = "KD1-auto-skips-declaration-VCs";
static const char* KD2 = "KD2-enumerated-value-list-accepted";
static const char* KD3 = "KD3-charref-whitespace-splits-tokens";
static const char* KD4 = "KD4-duplicate-notation-is-warning";
static const char* KD5 = "KD5-ext-subset-ending-in-PE-reference";
static const char* KD6 = "KD6-standalone-normalisation-trailing-or-inner";
static const char* KD7 = "KD7-empty-entity-in-EMPTY-element";

// ====================================================================================================== subset placement
enum Place { P_INT = 0, P_EXT, P_SPLIT, P_PEINT, P_PEEXT, P_INCLUDE, P_INCLUDE_PE, P_COUNT };
static const char* PlaceName[] = {"internal", "external", "split", "pe-internal-literal", "pe-external", "include-section", "include-via-pe+ignore"};

static std::string pe_escape(const std::string& s) {
    std::string o;
    for (char c : s) {
        if (c == '&') o += "&#38;";
        else if (c == '%') o += "&#37;";
        else if (c == '"') o += "&#34;";
        else o += c;
    }
    return o;
}
// Renders "<!DOCTYPE root ...>" for the declarations under a placement; external parts are stored in the VFS.
// ignoredDecl: a conflicting declaration that is placed inside an IGNORE section (must have no effect).
static std::string doctype(const std::string& root, const std::vector<std::string>& decls, int place, const std::string& ignoredDecl = "") {
    std::string all;
    for (auto& d : decls) all += d;
    switch (place) {
    case P_INT: return "<!DOCTYPE " + root + " [" + all + "]>";
    case P_EXT: g_vfs->put("/v/x.dtd", all); return "<!DOCTYPE " + root + " SYSTEM \"x.dtd\">";
    case P_SPLIT: {
        std::string a, b;
        for (size_t i = 0; i < decls.size(); i++) (i < decls.size() / 2 ? a : b) += decls[i];
        g_vfs->put("/v/x.dtd", b);
        return "<!DOCTYPE " + root + " SYSTEM \"x.dtd\" [" + a + "]>";
    }
    case P_PEINT: return "<!DOCTYPE " + root + " [<!ENTITY % p \"" + pe_escape(all) + "\">%p;]>";
    case P_PEEXT: g_vfs->put("/v/p.ent", all); return "<!DOCTYPE " + root + " [<!ENTITY % p SYSTEM \"p.ent\">%p;]>";
    case P_INCLUDE: g_vfs->put("/v/x.dtd", "<![INCLUDE[" + all + "]]>"); return "<!DOCTYPE " + root + " SYSTEM \"x.dtd\">";
    case P_INCLUDE_PE:
        g_vfs->put("/v/x.dtd", "<!ENTITY % inc \"INCLUDE\"><!ENTITY % ign \"IGNORE\"><![%ign;[" + ignoredDecl + "]]><![ %inc; [" + all + "]]>");
        return "<!DOCTYPE " + root + " SYSTEM \"x.dtd\">";
    }
    return "";
}

// ====================================================================================================== error helpers
struct ErrInfo { char sev; long line; std::string msg; std::string sys; };
static ErrInfo parse_err(const std::string& e) {
    ErrInfo r; r.sev = e.empty() ? '?' : e[0];
    size_t a = e.find('|'), b = e.find('|', a + 1), c = e.find('|', b + 1), d = e.rfind('|');
    r.line = atol(e.substr(a + 1, b - a - 1).c_str());
    r.msg = (d > c) ? e.substr(c + 1, d - c - 1) : e.substr(c + 1);
    r.sys = (d > c) ? e.substr(d + 1) : "";
    return r;
}
static std::string errs_of(const ParseResult& r, size_t maxn = 4) {
    std::string o;
    for (size_t i = 0; i < r.errors.size() && i < maxn; i++) { if (i) o += " ;; "; o += r.errors[i]; }
    if (!r.exc.empty()) o += " EXC=" + r.exc;
    return o;
}
// Lean batch parse: same parser objects and settings as xv::parse_xerces (SAX2XMLReader / XercesDOMParser, scanner, validation
// scheme), but without the canonical event dump, which is not needed for documents holding thousands of instances: only the
// error stream (severity, line, entity; message text on request) is observed.  Single-instance confirmations always go through
// xv::parse_xerces.
struct ErrLite { char sev; long line; bool inDoc; std::string msg; };
struct BatchResult {
    std::vector<ErrLite> errors;
    int fatals = 0, errs = 0, warns = 0;
    std::string exc;
    bool ok() const { return fatals == 0 && exc.empty(); }
    std::string first(size_t n = 4) const {
        std::string o;
        for (size_t i = 0; i < errors.size() && i < n; i++) { if (i) o += " ;; "; o += std::string(1, errors[i].sev) + "|" + std::to_string(errors[i].line) + "|" + errors[i].msg; }
        if (!exc.empty()) o += " EXC=" + exc;
        return o;
    }
};
struct ErrOnly : public DefaultHandler {
    BatchResult* r; bool wantMsg = false;
    void add(char sev, const SAXParseException& e) {
        const XMLCh* sys = e.getSystemId();
        XMLSize_t n = sys ? XMLString::stringLen(sys) : 0;
        static const XMLCh tail[] = {'d', 'o', 'c', '.', 'x', 'm', 'l', 0};
        bool inDoc = n >= 7 && XMLString::equals(sys + n - 7, tail);
        r->errors.push_back(ErrLite{sev, (long)e.getLineNumber(), inDoc, (wantMsg || sev == 'F' || !inDoc) ? esc16(e.getMessage()) : std::string()});
    }
    void warning(const SAXParseException& e) override { r->warns++; add('W', e); }
    void error(const SAXParseException& e) override { r->errs++; add('E', e); }
    void fatalError(const SAXParseException& e) override { r->fatals++; add('F', e); }
    void resetErrors() override {}
};
static BatchResult parse_batch(const Config& c, const ParseIO& io, bool wantMsg) {
    BatchResult r;
    try {
        ErrOnly h; h.r = &r; h.wantMsg = wantMsg;
        if (c.api == SAX2) {
            std::unique_ptr<SAX2XMLReader> p(XMLReaderFactory::createXMLReader());
            p->setProperty(XMLUni::fgXercesScannerName, (void*)X16(ScnName[c.scanner]).p());
            p->setFeature(XMLUni::fgSAX2CoreNameSpaces, c.ns);
            p->setFeature(XMLUni::fgSAX2CoreValidation, c.val != 0);
            p->setFeature(XMLUni::fgXercesDynamic, c.val == 2);
            p->setFeature(XMLUni::fgXercesSchema, false);
            p->setErrorHandler(&h);
            std::unique_ptr<InputSource> src(make_source(io));
            p->parse(*src);
        } else {
            XercesDOMParser p;
            config_common(p, c);
            p.setErrorHandler(&h);
            std::unique_ptr<InputSource> src(make_source(io));
            p.parse(*src);
        }
    }
    XV_CATCH_DOCUMENTED(r)
    return r;
}

// short slug of a message for counters (first 3 words)
static std::string slug(const std::string& msg) {
    std::string o; int words = 0;
    for (char c : msg) {
        if (c == ' ') { if (++words >= 4) break; o += '_'; }
        else if (isalnum((unsigned char)c)) o += c;
    }
    return o;
}

// ====================================================================================================== space cm
static const char* TOK8[8] = {"<a/>", "<b/>", "<c/>", "<d/>", "x", " ", "<!--k-->", "<?p q?>"};
enum { T_A = 0, T_B, T_C, T_D, T_TEXT, T_WS, T_COMMENT, T_PI };

struct Model {
    int kind = 0;  // 0 children, 1 EMPTY, 2 ANY, 3 (#PCDATA), 4 mixed
    CS ast;
    unsigned mixedNames = 0;  // bit set of names allowed in mixed
    std::string spec;
};
static std::vector<Model> MODELS;
static int g_k = 3, g_alpha = 8;
static unsigned g_cfgmask = 0xff;
static bool g_cfgrotate = false;  // run each model under ONE configuration of the mask, chosen round-robin by model index
static std::vector<int> g_places = {P_INT};

static void add_specials() {
    Model m;
    m.kind = 1; m.spec = "EMPTY"; MODELS.push_back(m);
    m.kind = 2; m.spec = "ANY"; MODELS.push_back(m);
    m.kind = 3; m.spec = "(#PCDATA)"; MODELS.push_back(m);
    m.kind = 3; m.spec = "(#PCDATA)*"; MODELS.push_back(m);
    m.kind = 4;
    const char* mixed[] = {"(#PCDATA|a)*", "(#PCDATA|b)*", "(#PCDATA|a|b)*", "(#PCDATA|b|a)*", "(#PCDATA|a|c)*", "(#PCDATA|a|b|c)*", "( #PCDATA | c | b | a )*"};
    for (const char* s : mixed) {
        m.spec = s; m.mixedNames = 0;
        for (const char* p = s + 8; *p; p++) if (*p >= 'a' && *p <= 'c') m.mixedNames |= 1u << (*p - 'a');
        MODELS.push_back(m);
    }
}
static void add_children_models(int minLeaves, int maxLeaves, bool canonical, bool wrap, int maxSufs) {
    for (int n = minLeaves; n <= maxLeaves; n++) {
        std::vector<CS> tops = gen_top(n, 3, wrap);
        auto nm = namings(n, canonical);
        for (auto& t : tops) {
            if (maxSufs >= 0 && count_sufs(t) > maxSufs) continue;
            for (auto& names : nm) {
                Model m; m.kind = 0; m.ast = t;
                size_t pos = 0; assign_names(m.ast, names, pos);
                m.spec = render(m.ast);
                MODELS.push_back(m);
            }
        }
    }
}

static std::string inst_text(const std::vector<int>& w, bool emptyTag) {
    if (emptyTag) return "<e/>";
    std::string s = "<e>";
    for (int t : w) s += TOK8[t];
    s += "</e>";
    return s;
}
static std::string word_str(const std::vector<int>& w) {
    static const char* nm[8] = {"a", "b", "c", "d", "TEXT", "WS", "COMMENT", "PI"};
    std::string s = "[";
    for (size_t i = 0; i < w.size(); i++) { if (i) s += ' '; s += nm[w[i]]; }
    return s + "]";
}

// Global instance table (identical for every model): instance 0 is "<e/>", instance i>0 is word i-1 of the shortest-first
// enumeration of all words of length <= k over the first g_alpha tokens of TOK8 (word 0 = empty = "<e></e>").
struct Inst {
    std::vector<int> w;
    bool emptyTag = false, hasD = false, hasText = false;
    uint32_t elemIdx = 0;  // index of the element-child subsequence (over a,b,c) in the shortest-first enumeration over 3 symbols
    unsigned elemSet = 0;  // names occurring
    uint8_t nElems = 0;
};
static std::vector<Inst> INST;
static std::string BODY;  // all instances, one per line
static uint64_t word_index(const std::vector<int>& w, uint64_t n) {  // inverse of word_at
    uint64_t base = 0, p = 1;
    for (size_t i = 0; i < w.size(); i++) { base += p; p *= n; }
    uint64_t v = 0;
    for (int x : w) v = v * n + x;
    return base + v;
}
static void init_instances() {
    uint64_t nw = words_upto(g_alpha, g_k);
    INST.reserve(nw + 1);
    for (uint64_t i = 0; i <= nw; i++) {
        Inst in;
        in.emptyTag = i == 0;
        if (i) in.w = word_at(i - 1, g_alpha, g_k);
        std::vector<int> elems;
        for (int t : in.w) {
            if (t == T_D) in.hasD = true;
            else if (t == T_TEXT) in.hasText = true;
            if (t < T_D) { elems.push_back(t); in.elemSet |= 1u << t; }
        }
        in.nElems = (uint8_t)elems.size();
        in.elemIdx = (uint32_t)word_index(elems, 3);
        INST.push_back(in);
        BODY += inst_text(in.w, in.emptyTag);
        BODY += '\n';
    }
}

// XML 1.0 section 3.2 / VC Element Valid.  member[j] = "the j-th word over {a,b,c} belongs to the language of the content model".
static bool expected_valid(const Model& m, const std::vector<char>& member, const Inst& in) {
    if (in.hasD) return false;  // VC Element Valid: every element needs a declaration
    switch (m.kind) {
    case 1: return in.emptyTag || in.w.empty();  // EMPTY: no content, not even comments, PIs or white space
    case 2: return true;                         // ANY: any declared children and character data
    case 3: return in.nElems == 0;               // (#PCDATA): character data only
    case 4: return (in.elemSet & ~m.mixedNames) == 0;  // mixed: listed element types in any order/number, character data
    default: return !in.hasText && member[in.elemIdx];  // element content: only S, comments, PIs between the children
    }
}

static std::vector<std::string> cm_decls(const Model& m) {
    return {"<!ELEMENT r ANY>", "<!ELEMENT e " + m.spec + ">", "<!ELEMENT a EMPTY>", "<!ELEMENT b EMPTY>", "<!ELEMENT c EMPTY>"};
}

// returns verdict 0 valid / 1 invalid for a single-instance document, -1 on fatal/exception
static int single_instance(const Model& m, const std::vector<int>& w, bool emptyTag, const PCfg& pc, int place, std::string& detail) {
    g_vfs->clear();
    ParseIO io;
    io.bytes = "<?xml version=\"1.0\"?>" + doctype("r", cm_decls(m), place, "<!ELEMENT e (d,d,d)>") + "<r>\n" + inst_text(w, emptyTag) + "\n</r>\n";
    ParseResult r = parse_xerces(mk(pc), io);
    detail = errs_of(r);
    if (!r.ok()) return -1;
    return r.errs ? 1 : 0;
}

static void run_cm(uint64_t idx, Ctx& c) {
    const Model& m = MODELS[idx];
    // membership of every word of length <= k over {a,b,c}: Brzozowski derivatives (oracle), cross-checked by the position matcher
    std::vector<char> member;
    if (m.kind == 0) {
        RP re = to_re(m.ast);
        uint64_t n3 = words_upto(3, g_k);
        member.resize(n3);
        for (uint64_t j = 0; j < n3; j++) {
            std::vector<int> w = word_at(j, 3, g_k);
            bool a = member_deriv(re, w), b = member_pos(m.ast, w);
            if (a != b) { c.violation("oracle-self-disagreement", "\"model\":" + jstr(m.spec)); return; }
            member[j] = a;
        }
        c.count("oracle_crosschecks", n3);
    }
    std::vector<char> expect(INST.size());
    uint64_t nvalid = 0;
    for (size_t i = 0; i < INST.size(); i++) { expect[i] = expected_valid(m, member, INST[i]); nvalid += expect[i]; }
    // non-vacuity
    c.count("models");
    c.count(m.kind == 0 ? "models_children" : m.kind == 1 ? "models_EMPTY" : m.kind == 2 ? "models_ANY" : m.kind == 3 ? "models_PCDATA" : "models_mixed");
    if (m.kind == 0) {
        c.count(predicted_simple(m.ast) ? "models_predicted_SimpleContentModel" : "models_predicted_DFAContentModel");
        c.count(is_deterministic(m.ast) ? "models_deterministic" : "models_nondeterministic");
        if (nvalid == 0) c.count("models_with_no_valid_instance_in_bound");
    }
    c.count("instances", expect.size());
    c.count("instances_expected_valid", nvalid);
    c.count("instances_expected_invalid", expect.size() - nvalid);
    const std::string& body = BODY;
    std::vector<PCfg> cfgs = all_cfgs();
    for (int place : g_places) {
        std::vector<size_t> active;
        for (size_t ci = 0; ci < cfgs.size(); ci++) if (g_cfgmask >> ci & 1) active.push_back(ci);
        if (g_cfgrotate && !active.empty()) active = {active[idx % active.size()]};
        for (size_t ci : active) {
            const PCfg& pc = cfgs[ci];
            g_vfs->clear();
            ParseIO io;
            io.bytes = "<?xml version=\"1.0\"?>" + doctype("r", cm_decls(m), place, "<!ELEMENT e (d,d,d)>") + "<r>\n" + body + "</r>\n";
            bool wantMsg = c.verbose || (ci == active[0] && place == P_INT);
            BatchResult r = parse_batch(mk(pc), io, wantMsg);
            c.count("parses_batch");
            std::string where = cfgname(pc) + " place=" + PlaceName[place];
            if (!r.ok()) {
                c.violation("fatal-on-wellformed", "\"model\":" + jstr(m.spec) + ",\"config\":" + jstr(where) + ",\"errors\":" + jstr(r.first()));
                continue;
            }
            std::vector<char> bad(expect.size(), 0);
            bool stray = false;
            for (auto& ei : r.errors) {
                if (ei.sev == 'W') { c.count("warnings"); continue; }
                long i = ei.line - 2;
                if (!ei.inDoc || i < 0 || i >= (long)expect.size()) {
                    if (!stray) c.violation("error-outside-instances", "\"model\":" + jstr(m.spec) + ",\"config\":" + jstr(where) + ",\"error\":" + jstr(ei.msg) + ",\"line\":" + std::to_string(ei.line));
                    stray = true;
                    continue;
                }
                bad[i] = 1;
                if (ci == active[0] && place == P_INT) c.count("err:" + slug(ei.msg));
            }
            int reported = 0;
            for (size_t i = 0; i < expect.size(); i++) {
                bool obsValid = !bad[i];
                if (obsValid == (bool)expect[i]) continue;
                // re-run alone before it counts
                std::string detail;
                int sv = single_instance(m, INST[i].w, INST[i].emptyTag, pc, place, detail);
                c.count("single_reruns");
                std::string fields = "\"model\":" + jstr(m.spec) + ",\"children\":" + jstr(word_str(INST[i].w)) + ",\"instance\":" + jstr(inst_text(INST[i].w, INST[i].emptyTag)) +
                                     ",\"config\":" + jstr(where) + ",\"expected\":" + jstr(expect[i] ? "valid" : "invalid") + ",\"observed_batch\":" +
                                     jstr(obsValid ? "valid" : "invalid") + ",\"observed_single\":" + jstr(sv == 0 ? "valid" : sv == 1 ? "invalid" : "fatal") +
                                     ",\"single_errors\":" + jstr(detail);
                if (sv < 0) c.violation("fatal-on-wellformed", fields);
                else if ((sv == 0) != (bool)expect[i]) {
                    c.violation(expect[i] ? "valid-instance-rejected" : "invalid-instance-accepted", fields);
                } else c.violation("verdict-depends-on-batch-context", fields);
                if (++reported >= 3) break;
            }
            c.count("instance_verdicts_compared", expect.size());
        }
    }
    if (idx % 997 == 0) c.sample("{\"model\":" + jstr(m.spec) + ",\"instances\":" + std::to_string(expect.size()) + ",\"valid\":" + std::to_string(nvalid) + "}");
    if (c.verbose) {
        printf("model %s kind=%d instances=%zu expected-valid=%llu deterministic=%d\n", m.spec.c_str(), m.kind, expect.size(), (unsigned long long)nvalid,
               m.kind == 0 ? (int)is_deterministic(m.ast) : -1);
        for (size_t i = 0; i < INST.size() && i < 60; i++) printf("  %-40s expected %s\n", inst_text(INST[i].w, INST[i].emptyTag).c_str(), expect[i] ? "valid" : "INVALID");
    }
}

// ====================================================================================================== space cmx
// extended child tokens; general entities declared in the DTD:
//   w  -> literal "&#32;"      replacement text is one space                     => matches S in element content
//   wr -> literal "&#38;#32;"  replacement text is the character reference &#32; => does NOT match S (section 3.2.1 note, 4.4.? examples)
//   t  -> "x" ; ea -> "<a/>" ; ee -> "" (empty)
struct XTok { const char* text; const char* name; int cls; };
// cls: 0 element a, 1 element d(undeclared), 2 text (non-ws character data), 3 S white space, 4 white space that is not S
//      (character reference or CDATA section), 5 comment/PI, 6 empty entity reference (content of an EMPTY element but no data)
static const XTok XTOK[] = {
    {"<a/>", "a", 0}, {"<b/>", "b", 0}, {"x", "TEXT", 2}, {" ", "WS", 3}, {"&#32;", "CHARREF-WS", 4}, {"&#10;", "CHARREF-LF", 4},
    {"<![CDATA[ ]]>", "CDATA-WS", 4}, {"<![CDATA[x]]>", "CDATA-TEXT", 2}, {"<![CDATA[]]>", "CDATA-EMPTY", 7}, {"&w;", "ENT-WS", 3}, {"&wr;", "ENT-CHARREF-WS", 4},
    {"&t;", "ENT-TEXT", 2}, {"&ea;", "ENT-ELEM-a", 0}, {"&ee;", "ENT-EMPTY", 6}, {"&#120;", "CHARREF-x", 2}, {"<!--k-->", "COMMENT", 5},
};
static const int NXTOK = sizeof(XTOK) / sizeof(XTOK[0]);
static std::vector<Model> XMODELS;
static int g_xk = 2;
static void init_xmodels() {
    std::vector<Model> save; save.swap(MODELS);
    add_specials();
    add_children_models(1, 2, true, true, -1);
    for (auto& m : MODELS) {
        // fixed list: specials + a handful of children models of each implementation class
        static const std::set<std::string> keep = {"EMPTY", "ANY", "(#PCDATA)", "(#PCDATA|a)*", "(#PCDATA|a|b)*", "(a)", "(a)*", "(a?)", "(a+)", "(a,b)", "(a|b)", "(a|b)*",
                                                   "(a?,b?)", "(a*,b)", "(a,a)", "(a?)*"};
        if (keep.count(m.spec)) XMODELS.push_back(m);
    }
    // non-deterministic models whose subset construction needs more DFA states than the builder's initial guess of 4 x (leaves + 1), so that its state
    // tables are re-allocated while states are already marked: "b, or anything whose (K+1)-th child from the end is a" for K = 5, 6, also optional / repeated
    for (int K : {5, 6}) for (int wrap = 0; wrap < 3; wrap++) {
        auto leaf = [](int n) { CS l; l.kind = 0; l.name = n; return l; };
        CS ab; ab.kind = 2; ab.kids = {leaf(0), leaf(1)};
        CS abStar = ab; abStar.suf = 2;
        CS seq; seq.kind = 1; seq.kids = {abStar, leaf(0)};
        for (int i = 0; i < K; i++) seq.kids.push_back(ab);
        CS top; top.kind = 2; top.kids = {leaf(1), seq};
        top.suf = wrap == 0 ? 0 : wrap == 1 ? 1 : 3;
        Model m; m.kind = 0; m.ast = top; render(top, m.spec);
        if (m.spec.empty() || m.spec[0] != '(') m.spec = "(" + m.spec + ")";
        XMODELS.push_back(m);
    }
    MODELS.swap(save);
}
static void run_cmx(uint64_t idx, Ctx& c) {
    uint64_t nw = words_upto(NXTOK, g_xk);
    const Model& m = XMODELS[idx / nw];
    std::vector<int> w = word_at(idx % nw, NXTOK, g_xk);
    // expectation
    std::vector<int> elems;
    bool hasD = false, hasText = false, hasNonS = false, any = !w.empty(), hasElemB = false;
    std::string inst = "<e>", desc = "[";
    for (int t : w) {
        inst += XTOK[t].text; desc += std::string(desc.size() > 1 ? " " : "") + XTOK[t].name;
        switch (XTOK[t].cls) {
        case 0: elems.push_back(XTOK[t].text[1] == 'b' ? 1 : 0); if (XTOK[t].text[1] == 'b') hasElemB = true; break;
        case 1: hasD = true; break;
        case 2: hasText = true; break;
        case 4: hasNonS = true; break;
        default: break;
        }
    }
    (void)hasElemB;
    inst += "</e>"; desc += "]";
    bool exp;
    // Adjacent character data merges: "x" next to white space is simply text; nothing else interacts.
    if (hasD) exp = false;
    else switch (m.kind) {
        case 1: exp = !any; break;  // EMPTY: "no content (not even entity references, comments, PIs or white space)"
        case 2: exp = true; break;
        case 3: exp = elems.empty(); break;
        case 4: { exp = true; for (int e : elems) if (!(m.mixedNames >> e & 1)) exp = false; break; }
        default: exp = !hasText && !hasNonS && member_deriv(to_re(m.ast), elems);
        }
    // narrowing: an empty CDATA section is neither character data nor S; the spec's grammar for element content admits no CDSect at all,
    // so it is invalid there, and it is content for EMPTY.  (cls 7)
    bool hasEmptyCdata = false;
    for (int t : w) if (XTOK[t].cls == 7) hasEmptyCdata = true;
    if (hasEmptyCdata && m.kind == 0) exp = false;
    c.count(exp ? "expected_valid" : "expected_invalid");
    std::vector<std::string> decls = cm_decls(m);
    decls.push_back("<!ENTITY w \"&#32;\">"); decls.push_back("<!ENTITY wr \"&#38;#32;\">"); decls.push_back("<!ENTITY t \"x\">");
    decls.push_back("<!ENTITY ea \"<a/>\">"); decls.push_back("<!ENTITY ee \"\">");
    for (const PCfg& pc : all_cfgs()) {
        g_vfs->clear();
        ParseIO io;
        io.bytes = "<?xml version=\"1.0\"?>" + doctype("r", decls, P_INT) + "<r>" + inst + "</r>";
        ParseResult r = parse_xerces(mk(pc), io);
        c.count("parses");
        std::string fields = "\"model\":" + jstr(m.spec) + ",\"children\":" + jstr(desc) + ",\"instance\":" + jstr(inst) + ",\"config\":" + jstr(cfgname(pc)) +
                             ",\"expected\":" + jstr(exp ? "valid" : "invalid") + ",\"errors\":" + jstr(errs_of(r));
        if (!r.ok()) { c.violation("fatal-on-wellformed", fields); continue; }
        bool obs = r.errs == 0;
        if (obs != exp) {
            // KD7: EMPTY element whose only content is references to the empty entity
            bool onlyEmptyEnt = m.kind == 1 && !w.empty();
            for (int t : w) if (XTOK[t].cls != 6) onlyEmptyEnt = false;
            if (onlyEmptyEnt && !exp && kd_skip(c, KD7)) continue;
            c.violation(exp ? "valid-instance-rejected" : "invalid-instance-accepted", fields);
        }
        if (c.verbose) printf("%s %s expected=%d observed=%d %s\n", cfgname(pc).c_str(), io.bytes.c_str(), exp, obs, errs_of(r).c_str());
    }
    if (idx % 4999 == 0) c.sample("{\"model\":" + jstr(m.spec) + ",\"instance\":" + jstr(inst) + "}");
}

// ====================================================================================================== single-document engine
// A case = declarations + prolog + body + expected verdict.  Executed under every placement x configuration; verdicts compared with
// the reference; dumps compared between validation off / always / auto.
struct DocCase {
    std::string root = "r";
    std::vector<std::string> decls;
    std::string xmldecl = "<?xml version=\"1.0\"?>";
    std::string body;
    int expect = 0;            // 0 valid, 1 invalid (>=1 error, no fatal), 2 invalid-or-not-wellformed (>=1 error or fatal)
    bool placements = true;    // may be rendered under all placements (false: internal only, e.g. standalone cases build their own)
    std::string fixedDoctype;  // when non-empty, used verbatim (VFS content prepared by the caller through vfsFiles)
    std::vector<std::pair<std::string, std::string>> vfsFiles;
    std::string label;
    std::string kd;            // id of the known defect that explains "expected invalid, observed valid" (or, for KD5, a fatal error)
    int kdVal = 0;             // 0: under every validation scheme, 2: only under Val_Auto
    std::string reason;        // short slug naming the violated constraint (appended to the violation kind)
    std::string ignoredDecl = "<!ATTLIST e zz CDATA #REQUIRED>";
};
static unsigned g_placemask = 0x7f;
static bool g_onoff = true;
static bool g_placerotate = false;  // single-document spaces: besides 'internal', each case runs under ONE other placement (round-robin by case index)
static std::string g_dumpViol;  // development aid: append "kind<TAB>label<TAB>config" of every document-level violation to this file
static void dump_viol(const std::string& kind, const std::string& label, const std::string& cfg) {
    if (g_dumpViol.empty()) return;
    FILE* f = fopen(g_dumpViol.c_str(), "a");
    if (!f) return;
    fprintf(f, "%s\t%s\t%s\n", kind.c_str(), label.c_str(), cfg.c_str());
    fclose(f);
}

static const std::set<std::string> DROP_NONE = {};

static void run_doc(const DocCase& dc, Ctx& c, const std::string& key) {
    c.count(dc.expect == 0 ? "expected_valid" : "expected_invalid");
    std::vector<std::string> refDump;  // (IG,SAX2,val=1,internal) dump for placement comparison of content
    for (int place = 0; place < P_COUNT; place++) {
        if (place != P_INT && (!dc.placements || !(g_placemask >> place & 1))) continue;
        if (place != P_INT && g_placerotate && place != 1 + (int)(c.idx % (P_COUNT - 1))) continue;
        for (int sc : {IG, DG}) for (int api : {SAX2, DOM}) {
            // placements other than internal: two diagonal configurations only
            if (place != P_INT && !((sc == IG && api == SAX2) || (sc == DG && api == DOM))) continue;
            std::vector<std::string> dumpOff;
            for (int val : {0, 1, 2}) {
                if (val == 0 && (!g_onoff || place != P_INT)) continue;
                if (place != P_INT && val == 2) continue;
                g_vfs->clear();
                for (auto& f : dc.vfsFiles) g_vfs->put(f.first, f.second);
                ParseIO io;
                std::string dt = dc.fixedDoctype.empty() ? doctype(dc.root, dc.decls, place, dc.ignoredDecl) : dc.fixedDoctype;
                io.bytes = dc.xmldecl + dt + dc.body;
                Config cfg; cfg.scanner = sc; cfg.api = api; cfg.val = val;
                ParseResult r = parse_xerces(cfg, io);
                c.count("parses");
                std::string where = cfg.str() + " place=" + PlaceName[place];
                std::string fields = "\"label\":" + jstr(dc.label) + ",\"doc\":" + jstr(io.bytes) + ",\"config\":" + jstr(where) + ",\"expected\":" +
                                     jstr(dc.expect == 0 ? "valid" : dc.expect == 1 ? "invalid(error, no fatal)" : "invalid or not well-formed") +
                                     ",\"errors\":" + jstr(errs_of(r));
                if (c.verbose) printf("[%s] %s\n   errs=%d fatals=%d %s\n", where.c_str(), io.bytes.c_str(), r.errs, r.fatals, errs_of(r, 8).c_str());
                if (val == 0) {
                    // validation off: never a validity error; fatal only when the case is allowed to be not well-formed
                    if (r.errs) c.violation("validity-error-with-validation-off", fields);
                    if (!r.ok() && dc.expect != 2 && !(dc.kd == KD5 && kd_skip(c, KD5))) c.violation("fatal-on-wellformed", fields);
                    dumpOff = project(r.d.lines, DROP_NONE, true);
                    continue;
                }
                if (!r.ok()) {
                    if (dc.expect == 2) c.count("observed_fatal_where_allowed");
                    else if (dc.kd == KD5 && kd_skip(c, KD5)) {}
                    else c.violation("fatal-on-wellformed", fields);
                    continue;
                }
                bool obsValid = r.errs == 0;
                bool expValid = dc.expect == 0;
                if (obsValid != expValid) {
                    if (!expValid && !dc.kd.empty() && (dc.kdVal == 0 || dc.kdVal == val) && kd_skip(c, dc.kd)) {}
                    else {
                        std::string kind = std::string(expValid ? "valid-document-rejected" : "invalid-document-accepted") + (dc.reason.empty() ? "" : "/" + dc.reason) +
                                           (val == 2 ? "/auto" : "");
                        c.violation(kind, fields);
                        dump_viol(kind, dc.label, where);
                    }
                } else if (place == P_INT && sc == IG && api == SAX2 && val == 1)
                    for (auto& e : r.errors) { ErrInfo ei = parse_err(e); if (ei.sev == 'E') c.count("err:" + slug(ei.msg)); }
                // on/off: identical events (attribute defaults, normalised values, entity expansion) modulo ignorable-whitespace flag
                if (g_onoff && place == P_INT && !dumpOff.empty()) {
                    std::vector<std::string> on = project(r.d.lines, DROP_NONE, true);
                    c.count("onoff_dump_compared");
                    if (on != dumpOff) {
                        size_t at = 0;
                        while (at < on.size() && at < dumpOff.size() && on[at] == dumpOff[at]) at++;
                        c.violation("dump-differs-validation-on-vs-off", fields + ",\"off\":" + jstr(at < dumpOff.size() ? dumpOff[at] : "<end>") + ",\"on\":" +
                                                                             jstr(at < on.size() ? on[at] : "<end>"));
                    }
                }
                // placement: identical element/attribute/text events as the internal placement (same scanner/api, val=1)
                if (val == 1 && sc == IG && api == SAX2) {
                    static const std::set<std::string> DROPP = {"DT", "DTE", "ED", "AD", "IE", "XE", "NO", "UE", "RS", "RE", "L", "SK"};
                    std::vector<std::string> p = project(r.d.lines, DROPP, true);
                    if (place == P_INT) refDump = p;
                    else {
                        c.count("placement_dump_compared");
                        if (p != refDump) {
                            size_t at = 0;
                            while (at < p.size() && at < refDump.size() && p[at] == refDump[at]) at++;
                            c.violation("dump-differs-between-placements", fields + ",\"internal\":" + jstr(at < refDump.size() ? refDump[at] : "<end>") +
                                                                               ",\"this\":" + jstr(at < p.size() ? p[at] : "<end>"));
                        }
                    }
                }
            }
        }
    }
}

// ====================================================================================================== space attr
static const char* ATYPE[10] = {"CDATA", "ID", "IDREF", "IDREFS", "ENTITY", "ENTITIES", "NMTOKEN", "NMTOKENS", "NOTATION (n1|n2)", "(en1|en2)"};
enum { A_CDATA = 0, A_ID, A_IDREF, A_IDREFS, A_ENTITY, A_ENTITIES, A_NMTOKEN, A_NMTOKENS, A_NOTATION, A_ENUM };
// raw literals (between double quotes in the document / declaration)
static const char* AVAL[] = {
    "", "a1", "1a", "-a", "a:b", "a!b", "a1 b1", " a1", "a1 ", "  a1  ", "a1  b1", "a1\tb1", "a1&#9;b1", "&#32;a1", "a1&#32;&#32;b1",
    "u1", "u2", "p1", "u1 u2", "u1 p1", "u1 zz", "n1", "n2", "n3", "n1 n2", "i1", "i2", "i9", "i1 i2", "i1 i9", "i9 i1", "en1", "en2", "en3", "en1 en2", " en1 ",
    "i1 i1", "1a 2b", "a1 !",
};
static const int NAVAL = sizeof(AVAL) / sizeof(AVAL[0]);
static const std::set<std::string> DOC_IDS = {"i1", "i2"};
static const std::set<std::string> UNPARSED = {"u1", "u2"};

// Validity of a normalised value for a type (XML 1.0 section 3.3.1).  isDefaultDecl: only the syntactic constraints apply
// (VC Attribute Default Value Syntactically Correct).  tolerant: the variant of the rules that models known defects KD2/KD3
// (used only to decide whether an observed acceptance is explained by those defects, never to relax the expectation).
static bool value_ok(int type, std::string nv, bool isDefaultDecl, bool tolerant = false) {
    std::vector<std::string> toks;
    bool multi = type == A_IDREFS || type == A_ENTITIES || type == A_NMTOKENS;
    if (tolerant && (multi || type == A_NOTATION || type == A_ENUM)) {  // KD3: any white space character separates tokens
        for (char& ch : nv) if (ch == '\t' || ch == '\n' || ch == '\r') ch = ' ';
        nv = normalize_att(nv, false);
    }
    switch (type) {
    case A_CDATA: return true;
    case A_ID: return is_name(nv) && (isDefaultDecl || !DOC_IDS.count(nv));
    case A_IDREF: return is_name(nv) && (isDefaultDecl || DOC_IDS.count(nv));
    case A_IDREFS:
        if (!split_tokens(nv, toks)) return false;
        for (auto& t : toks) if (!is_name(t) || (!isDefaultDecl && !DOC_IDS.count(t))) return false;
        return true;
    case A_ENTITY: return is_name(nv) && (isDefaultDecl || UNPARSED.count(nv));
    case A_ENTITIES:
        if (!split_tokens(nv, toks)) return false;
        for (auto& t : toks) if (!is_name(t) || (!isDefaultDecl && !UNPARSED.count(t))) return false;
        return true;
    case A_NMTOKEN: return is_nmtoken(nv);
    case A_NMTOKENS:
        if (!split_tokens(nv, toks)) return false;
        for (auto& t : toks) if (!is_nmtoken(t)) return false;
        return true;
    case A_NOTATION:
    default: {
        const char* l1 = type == A_NOTATION ? "n1" : "en1"; const char* l2 = type == A_NOTATION ? "n2" : "en2";
        if (!tolerant) return nv == l1 || nv == l2;  // "MUST match one of the (notation) names / Nmtoken tokens in the declaration"
        if (!split_tokens(nv, toks)) return false;   // KD2: a list of listed tokens
        for (auto& t : toks) if (t != l1 && t != l2) return false;
        return true;
    }
    }
}

static std::vector<int> DVS;  // indices into AVAL used as declared default values (all, or the quick subset)
static uint64_t N_DEF = 0;    // #REQUIRED, #IMPLIED, #FIXED dv..., dv...
static const uint64_t N_PRES = 1 + (uint64_t)NAVAL;  // absent, value...
static void init_attr(bool quickDefaults) {
    static const std::set<std::string> quick = {"", "a1", "1a", "a!b", "a1 b1", " a1", "a1&#9;b1", "u1", "p1", "u1 u2", "n1", "n3", "i1", "i9", "en1", "en3", "en1 en2"};
    for (int i = 0; i < NAVAL; i++) if (!quickDefaults || quick.count(AVAL[i])) DVS.push_back(i);
    N_DEF = 2 + 2 * (uint64_t)DVS.size();
}
static uint64_t attr_total() { return 10 * N_DEF * N_PRES; }

static DocCase attr_case(uint64_t idx, std::string& label) {
    int type = (int)(idx / (N_DEF * N_PRES));
    uint64_t rem = idx % (N_DEF * N_PRES);
    int def = (int)(rem / N_PRES), pres = (int)(rem % N_PRES);
    int nd = (int)DVS.size();
    int defKind = def == 0 ? 0 : def == 1 ? 1 : (def - 2) < nd ? 2 : 3;  // 0 REQUIRED 1 IMPLIED 2 FIXED 3 default
    const char* dv = defKind >= 2 ? AVAL[DVS[(def - 2) % nd]] : nullptr;
    const char* v = pres ? AVAL[pres - 1] : nullptr;
    bool cdata = type == A_CDATA;
    std::string defText = defKind == 0 ? "#REQUIRED" : defKind == 1 ? "#IMPLIED" : defKind == 2 ? std::string("#FIXED \"") + dv + "\"" : std::string("\"") + dv + "\"";
    DocCase dc;
    dc.decls = {"<!ELEMENT r ANY>", "<!ELEMENT t EMPTY>", "<!ELEMENT e ANY>", "<!NOTATION n1 SYSTEM \"n1\">", "<!NOTATION n2 SYSTEM \"n2\">",
                "<!ENTITY u1 SYSTEM \"u1.bin\" NDATA n1>", "<!ENTITY u2 SYSTEM \"u2.bin\" NDATA n2>", "<!ENTITY p1 \"ptext\">",
                "<!ATTLIST t id ID #IMPLIED>", std::string("<!ATTLIST e x ") + ATYPE[type] + " " + defText + ">"};
    dc.body = std::string("<r><t id=\"i1\"/><t id=\"i2\"/><e") + (v ? std::string(" x=\"") + v + "\"" : "") + "/></r>";
    // ---- reference (XML 1.0 section 3.3)
    std::string why;
    auto verdict = [&](bool tolerantTokens, bool ignoreIdDefault, std::string* whyOut) {
        bool valid = true;
        auto fail = [&](const char* r) { valid = false; if (whyOut) { *whyOut += r; *whyOut += ';'; } };
        if (type == A_ID && defKind >= 2 && !ignoreIdDefault) fail("ID-attribute-default");  // VC ID Attribute Default
        std::string ndv;
        if (dv) {
            ndv = normalize_att(dv, cdata);
            if (!value_ok(type, ndv, true, tolerantTokens)) fail("default-not-syntactically-correct");  // VC Attribute Default Value Syntactically Correct
        }
        if (!v) {
            if (defKind == 0) fail("required-missing");  // VC Required Attribute
            else if (defKind >= 2 && !value_ok(type, ndv, false, tolerantTokens)) fail("defaulted-value-invalid");  // VC IDREF / Entity Name on the value in effect
        } else {
            std::string nv = normalize_att(v, cdata);
            if (!value_ok(type, nv, false, tolerantTokens)) fail("value-invalid-for-type");
            std::string cv = nv, cdv = ndv;
            if (tolerantTokens && (type == A_IDREFS || type == A_ENTITIES || type == A_NMTOKENS)) {  // KD3 also applies to the stored default
                for (std::string* p : {&cv, &cdv}) { for (char& ch : *p) if (ch == '\t' || ch == '\n' || ch == '\r') ch = ' '; *p = normalize_att(*p, false); }
            }
            if (defKind == 2 && cv != cdv) fail("fixed-mismatch");  // VC Fixed Attribute Default
        }
        return valid;
    };
    bool valid = verdict(false, false, &why);
    if (!valid) {
        if (verdict(true, false, nullptr)) { dc.kd = (type == A_NOTATION || type == A_ENUM) ? KD2 : KD3; dc.kdVal = 0; }
        else if (verdict(true, true, nullptr)) { dc.kd = KD1; dc.kdVal = 2; }
    }
    dc.expect = valid ? 0 : 1;
    label = std::string(ATYPE[type]) + " " + defText + " " + (v ? std::string("x=\"") + v + "\"" : "absent") + " => " + (valid ? "valid" : why);
    dc.label = label;
    dc.reason = std::string(ATYPE[type]).substr(0, std::string(ATYPE[type]).find(' ')) + ":" + why.substr(0, why.find(';'));
    return dc;
}
static void run_attr(uint64_t idx, Ctx& c) {
    std::string label;
    DocCase dc = attr_case(idx, label);
    int type = (int)(idx / (N_DEF * N_PRES));
    c.count(std::string("type_") + ATYPE[type] + (dc.expect ? "_invalid" : "_valid"));
    run_doc(dc, c, "attr:" + label);
    if (idx % 2999 == 0) c.sample("{\"case\":" + jstr(label) + "}");
}

// ====================================================================================================== space idref
static std::vector<std::string> ID_OPTS, REF_OPTS, REFS_OPTS;
static int g_maxElems = 3;
static uint64_t idref_per_elem() { return ID_OPTS.size() * REF_OPTS.size() * REFS_OPTS.size(); }
static uint64_t idref_total() { return words_upto(idref_per_elem(), g_maxElems); }
static DocCase idref_case(uint64_t idx, std::string& label) {
    std::vector<int> w = word_at(idx, idref_per_elem(), g_maxElems);
    DocCase dc;
    dc.decls = {"<!ELEMENT r (n*)>", "<!ELEMENT n EMPTY>", "<!ATTLIST n id ID #IMPLIED ref IDREF #IMPLIED refs IDREFS #IMPLIED>"};
    std::string body = "<r>";
    std::multiset<std::string> ids;
    std::vector<std::string> refs;
    for (int e : w) {
        int a = e % ID_OPTS.size(), b = (e / ID_OPTS.size()) % REF_OPTS.size(), d = e / (ID_OPTS.size() * REF_OPTS.size());
        body += "<n";
        if (!ID_OPTS[a].empty()) { body += " id=\"" + ID_OPTS[a] + "\""; ids.insert(ID_OPTS[a]); }
        if (!REF_OPTS[b].empty()) { body += " ref=\"" + REF_OPTS[b] + "\""; refs.push_back(REF_OPTS[b]); }
        if (!REFS_OPTS[d].empty()) {
            body += " refs=\"" + REFS_OPTS[d] + "\"";
            std::vector<std::string> t; split_tokens(REFS_OPTS[d], t);
            for (auto& s : t) refs.push_back(s);
        }
        body += "/>";
    }
    body += "</r>";
    dc.body = body;
    bool valid = true;
    for (auto& i : ids) if (ids.count(i) > 1) valid = false;  // VC ID: unique
    for (auto& r : refs) if (!ids.count(r)) valid = false;    // VC IDREF: matches some ID in the document
    dc.expect = valid ? 0 : 1;
    label = body;
    dc.label = label;
    return dc;
}
static void run_idref(uint64_t idx, Ctx& c) {
    std::string label;
    DocCase dc = idref_case(idx, label);
    run_doc(dc, c, "idref:" + label);
    if (idx % 4999 == 0) c.sample("{\"doc\":" + jstr(label) + ",\"expected\":" + (dc.expect ? "\"invalid\"" : "\"valid\"") + "}");
}

// ====================================================================================================== space vc
static std::vector<DocCase> VC;
static void vc_add(const std::string& label, std::vector<std::string> decls, const std::string& body, int expect, const std::string& root = "r",
                   const std::string& xmldecl = "<?xml version=\"1.0\"?>") {
    DocCase dc; dc.label = label; dc.decls = decls; dc.body = body; dc.expect = expect; dc.root = root; dc.xmldecl = xmldecl;
    VC.push_back(dc);
}
static void init_vc() {
    const std::string EL_R = "<!ELEMENT r ANY>", EL_E = "<!ELEMENT e ANY>", EL_A = "<!ELEMENT a EMPTY>";
    // ---- VC Root Element Type: DOCTYPE name x root element
    for (const char* dtn : {"r", "e", "zz"}) for (const char* root : {"r", "e"})
        vc_add(std::string("root-element-type doctype=") + dtn + " root=" + root, {EL_R, EL_E}, std::string("<") + root + "/>", strcmp(dtn, root) ? 1 : 0, dtn);
    // ---- base valid document and single-constraint mutations
    vc_add("base", {EL_R, EL_E, EL_A, "<!ATTLIST e x CDATA #IMPLIED>"}, "<r><e x=\"1\"><a/></e></r>", 0);
    vc_add("element-undeclared", {EL_R, EL_E, EL_A}, "<r><zz/></r>", 1);
    vc_add("root-undeclared", {EL_E}, "<r/>", 1);
    vc_add("attribute-undeclared", {EL_R, EL_E}, "<r><e y=\"1\"/></r>", 1);
    vc_add("attribute-undeclared-on-element-without-attlist", {EL_R, EL_E, "<!ATTLIST r x CDATA #IMPLIED>"}, "<r><e x=\"1\"/></r>", 1);
    vc_add("attlist-for-undeclared-element-unused", {EL_R, "<!ATTLIST zz x CDATA #IMPLIED>"}, "<r/>", 0);  // only a warning may be issued
    vc_add("unique-element-type-declaration", {EL_R, EL_E, "<!ELEMENT e EMPTY>"}, "<r><e/></r>", 1);
    VC.back().kd = KD1; VC.back().kdVal = 2;
    vc_add("no-duplicate-types-in-mixed", {EL_R, EL_A, "<!ELEMENT e (#PCDATA|a|a)*>"}, "<r><e/></r>", 1);
    VC.back().kd = KD1; VC.back().kdVal = 2;
    vc_add("mixed-ok", {EL_R, EL_A, "<!ELEMENT e (#PCDATA|a)*>"}, "<r><e>x<a/>y</e></r>", 0);
    vc_add("one-id-per-element-type", {EL_R, EL_E, "<!ATTLIST e i ID #IMPLIED j ID #IMPLIED>"}, "<r><e/></r>", 1);
    vc_add("one-id-per-element-type-two-attlists", {EL_R, EL_E, "<!ATTLIST e i ID #IMPLIED>", "<!ATTLIST e j ID #IMPLIED>"}, "<r><e/></r>", 1);
    vc_add("one-id-ok", {EL_R, EL_E, "<!ATTLIST e i ID #IMPLIED j IDREF #IMPLIED>"}, "<r><e i=\"k\" j=\"k\"/></r>", 0);
    vc_add("one-notation-per-element-type", {EL_R, EL_E, "<!NOTATION n1 SYSTEM \"n1\">", "<!ATTLIST e p NOTATION (n1) #IMPLIED q NOTATION (n1) #IMPLIED>"}, "<r><e/></r>", 1);
    vc_add("no-notation-on-empty-element", {EL_R, "<!ELEMENT e EMPTY>", "<!NOTATION n1 SYSTEM \"n1\">", "<!ATTLIST e p NOTATION (n1) #IMPLIED>"}, "<r><e/></r>", 1);
    vc_add("notation-attr-ok", {EL_R, EL_E, "<!NOTATION n1 SYSTEM \"n1\">", "<!ATTLIST e p NOTATION (n1) #IMPLIED>"}, "<r><e p=\"n1\"/></r>", 0);
    vc_add("notation-attributes-undeclared-notation-in-list", {EL_R, EL_E, "<!NOTATION n1 SYSTEM \"n1\">", "<!ATTLIST e p NOTATION (n1|n9) #IMPLIED>"}, "<r><e/></r>", 1);
    vc_add("no-duplicate-tokens-notation", {EL_R, EL_E, "<!NOTATION n1 SYSTEM \"n1\">", "<!ATTLIST e p NOTATION (n1|n1) #IMPLIED>"}, "<r><e/></r>", 1);
    vc_add("no-duplicate-tokens-enumeration", {EL_R, EL_E, "<!ATTLIST e p (x|y|x) #IMPLIED>"}, "<r><e/></r>", 1);
    // ---- token lists whose tokens are prefixes of one another (a, ab, abc) in every order, with duplicates: VC Enumeration / Notation Attributes / No Duplicate
    //      Tokens must depend on token equality only, not on the position of a token in the list or on what it is a prefix of
    {
        const char* T[] = {"a", "ab", "abc", "b"};
        const char* V[] = {"a", "ab", "abc", "b", "abcd"};
        const std::string NOTS = "<!NOTATION a SYSTEM \"a\"><!NOTATION ab SYSTEM \"ab\"><!NOTATION abc SYSTEM \"abc\"><!NOTATION b SYSTEM \"b\">";
        for (int len = 1; len <= 3; len++) {
            int n = 1; for (int i = 0; i < len; i++) n *= 4;
            for (int w = 0; w < n; w++) {
                std::vector<std::string> toks; int r = w; for (int i = 0; i < len; i++) { toks.push_back(T[r % 4]); r /= 4; }
                bool dup = false; for (size_t i = 0; i < toks.size(); i++) for (size_t j = i + 1; j < toks.size(); j++) if (toks[i] == toks[j]) dup = true;
                std::string list; for (auto& t : toks) list += (list.empty() ? "" : "|") + t;
                for (int notation = 0; notation < 2; notation++) {
                    std::string type = notation ? "NOTATION (" + list + ")" : "(" + list + ")";
                    std::vector<std::string> base = {EL_R, EL_E};
                    if (notation) base.push_back(NOTS);
                    for (const char* v : V) {
                        bool in = false; for (auto& t : toks) if (t == v) in = true;
                        std::vector<std::string> d = base; d.push_back("<!ATTLIST e p " + type + " #IMPLIED>");
                        vc_add(std::string(notation ? "notation" : "enumeration") + "-token-list (" + list + ") value " + v, d, std::string("<r><e p=\"") + v + "\"/></r>", (dup || !in) ? 1 : 0);
                        if (!notation && len >= 2) {
                            std::vector<std::string> d2 = base; d2.push_back("<!ATTLIST e p " + type + " \"" + v + "\">");
                            vc_add("enumeration-token-list (" + list + ") default " + v + " attribute absent", d2, "<r><e/></r>", (dup || !in) ? 1 : 0);
                        }
                    }
                }
            }
        }
    }
    vc_add("enumeration-ok", {EL_R, EL_E, "<!ATTLIST e p (x|y|z) #IMPLIED>"}, "<r><e p=\"z\"/></r>", 0);
    vc_add("notation-declared-for-unparsed-entity", {EL_R, "<!ENTITY u SYSTEM \"u.bin\" NDATA n9>"}, "<r/>", 1);
    vc_add("unparsed-entity-ok", {EL_R, "<!NOTATION n1 PUBLIC \"pub\">", "<!ENTITY u SYSTEM \"u.bin\" NDATA n1>", "<!ATTLIST r x ENTITY #IMPLIED>"}, "<r x=\"u\"/>", 0);
    vc_add("unique-notation-name", {EL_R, "<!NOTATION n1 SYSTEM \"a\">", "<!NOTATION n1 SYSTEM \"b\">"}, "<r/>", 1);
    VC.back().kd = KD4;
    vc_add("first-attribute-declaration-binds", {EL_R, EL_E, "<!ATTLIST e x CDATA #IMPLIED>", "<!ATTLIST e x ID #REQUIRED>"}, "<r><e/></r>", 0);
    vc_add("first-entity-declaration-binds", {EL_R, "<!ENTITY g \"<r/>\">", "<!ENTITY g \"text\">", "<!ELEMENT e (r)>"}, "<r><e>&g;</e></r>", 0);
    vc_add("entity-declared-vc", {EL_R, "<!ENTITY % pe \"\">", "%pe;"}, "<r>&nope;</r>", 2);  // with a PE reference in the subset this is a VC, not a WFC
    vc_add("attribute-default-with-lt-via-entity-unused", {EL_R, "<!ENTITY g \"v\">", "<!ATTLIST r x CDATA \"&g;\">"}, "<r/>", 0);
    vc_add("required-on-root", {EL_R, "<!ATTLIST r x CDATA #REQUIRED>"}, "<r/>", 1);
    vc_add("empty-root-with-required-children", {"<!ELEMENT r (e)>", EL_E}, "<r/>", 1);
    vc_add("nested-content-errors-inner-only", {"<!ELEMENT r (e)>", "<!ELEMENT e (a)>", EL_A}, "<r><e><a/></e></r>", 0);
    vc_add("nested-content-error-in-inner", {"<!ELEMENT r (e)>", "<!ELEMENT e (a)>", EL_A}, "<r><e><a/><a/></e></r>", 1);
    vc_add("nested-content-error-in-outer", {"<!ELEMENT r (e)>", "<!ELEMENT e (a)>", EL_A}, "<r><e><a/></e><e><a/></e></r>", 1);
    vc_add("deep-nesting-valid", {"<!ELEMENT r (e?)>", "<!ELEMENT e (r?)>"}, "<r><e><r><e><r><e><r/></e></r></e></r></e></r>", 0);
    vc_add("deep-nesting-invalid-at-depth", {"<!ELEMENT r (e?)>", "<!ELEMENT e (r?)>"}, "<r><e><r><e><r><e><e/></e></r></e></r></e></r>", 1);
    vc_add("xml-space-ok", {EL_R, "<!ATTLIST r xml:space (default|preserve) 'preserve'>"}, "<r/>", 0);
    // ---- proper nesting with parameter entities (external subset only: PE references inside declarations)
    {
        DocCase dc; dc.label = "proper-group-pe-nesting"; dc.placements = false; dc.expect = 1;
        dc.fixedDoctype = "<!DOCTYPE r SYSTEM \"x.dtd\">";
        dc.vfsFiles = {{"/v/x.dtd", "<!ELEMENT a EMPTY><!ELEMENT b EMPTY><!ENTITY % p \"(a,b\"><!ELEMENT r %p;)>"}};
        dc.body = "<r><a/><b/></r>";
        dc.kd = KD1; dc.kdVal = 2;
        VC.push_back(dc);
        dc.kd = ""; dc.kdVal = 0;
        dc.label = "proper-group-pe-nesting-ok"; dc.expect = 0;
        dc.vfsFiles = {{"/v/x.dtd", "<!ELEMENT a EMPTY><!ELEMENT b EMPTY><!ENTITY % p \"(a,b)\"><!ELEMENT r %p;>"}};
        VC.push_back(dc);
        dc.label = "proper-declaration-pe-nesting"; dc.expect = 2;  // also WFC "PE Between Declarations" since the 3rd edition
        dc.vfsFiles = {{"/v/x.dtd", "<!ENTITY % p \"<!ELEMENT r ANY\">%p;>"}};
        dc.body = "<r/>";
        VC.push_back(dc);
        dc.label = "proper-conditional-section-pe-nesting-ok"; dc.expect = 0;
        dc.vfsFiles = {{"/v/x.dtd", "<!ENTITY % p \"<![INCLUDE[<!ELEMENT r ANY>]]>\">%p;\n"}};
        VC.push_back(dc);
        dc.label = "external-subset-ends-with-internal-pe-reference"; dc.expect = 0; dc.kd = KD5;
        dc.vfsFiles = {{"/v/x.dtd", "<!ENTITY % p \"<!ELEMENT r ANY>\">%p;"}};
        VC.push_back(dc);
        dc.label = "external-subset-ends-with-internal-pe-reference-then-newline"; dc.expect = 0; dc.kd = "";
        dc.vfsFiles = {{"/v/x.dtd", "<!ENTITY % p \"<!ELEMENT r ANY>\">%p;\n"}};
        VC.push_back(dc);
    }
    // ---- standalone="yes" matrix (section 2.9, VC Standalone Document Declaration)
    struct Scn { const char* name; const char* decl; const char* body; bool triggers; int expectWhenTriggered; const char* kd = nullptr; };
    static const Scn scn[] = {
        {"default-attr-absent", "<!ATTLIST e x CDATA \"dv\">", "<r><e/></r>", true, 1},
        {"default-attr-present", "<!ATTLIST e x CDATA \"dv\">", "<r><e x=\"v\"/></r>", false, 0},
        {"fixed-attr-absent", "<!ATTLIST e x CDATA #FIXED \"dv\">", "<r><e/></r>", true, 1},
        {"implied-attr-absent", "<!ATTLIST e x CDATA #IMPLIED>", "<r><e/></r>", false, 0},
        {"tokenized-attr-normalisation-changes", "<!ATTLIST e x NMTOKEN #IMPLIED>", "<r><e x=\" a1 \"/></r>", true, 1},
        {"tokenized-attr-normalisation-changes-inner", "<!ATTLIST e x NMTOKENS #IMPLIED>", "<r><e x=\"a1  b1\"/></r>", true, 1, KD6},
        {"tokenized-attr-normalisation-changes-trailing", "<!ATTLIST e x NMTOKEN #IMPLIED>", "<r><e x=\"a1 \"/></r>", true, 1, KD6},
        {"tokenized-attr-normalisation-changes-leading-only", "<!ATTLIST e x IDREFS #IMPLIED i ID #IMPLIED>", "<r><e i=\"k\" x=\" k\"/></r>", true, 1},
        {"tokenized-attr-tab-becomes-space-as-for-cdata", "<!ATTLIST e x NMTOKENS #IMPLIED>", "<r><e x=\"a1\tb1\"/></r>", false, 0},
        {"tokenized-attr-normalisation-same", "<!ATTLIST e x NMTOKENS #IMPLIED>", "<r><e x=\"a1 b1\"/></r>", false, 0},
        {"cdata-attr-with-spaces", "<!ATTLIST e x CDATA #IMPLIED>", "<r><e x=\" a1 \"/></r>", false, 0},
        {"ws-in-element-content", "<!ELEMENT w (a*)>", "<r><w> <a/></w></r>", true, 1},
        {"ws-in-element-content-newline-at-end", "<!ELEMENT w (a*)>", "<r><w><a/>\n</w></r>", true, 1},
        {"no-ws-in-element-content", "<!ELEMENT w (a*)>", "<r><w><a/></w></r>", false, 0},
        {"ws-in-mixed-content", "<!ELEMENT w (#PCDATA|a)*>", "<r><w> <a/></w></r>", false, 0},
        {"ws-in-any-content", "<!ELEMENT w ANY>", "<r><w> <a/></w></r>", false, 0},
        {"entity-referenced", "<!ENTITY en \"text\">", "<r><e>&en;</e></r>", true, 2},
        {"entity-referenced-in-attribute", "<!ENTITY en \"text\">", "<r><e y=\"&en;\"/></r>", true, 2},
        {"entity-declared-not-referenced", "<!ENTITY en \"text\">", "<r><e/></r>", false, 0},
    };
    for (const char* sa : {"", "no", "yes"})
        for (int where = 0; where < 4; where++)  // 0 internal, 1 external subset, 2 external PE referenced from the internal subset, 3 INCLUDE section of the external subset
            for (auto& s : scn) {
                DocCase dc;
                dc.placements = false;
                dc.xmldecl = std::string("<?xml version=\"1.0\"") + (*sa ? std::string(" standalone=\"") + sa + "\"" : "") + "?>";
                std::string common = "<!ELEMENT r ANY><!ELEMENT e ANY><!ELEMENT a EMPTY><!ATTLIST e y CDATA #IMPLIED>";
                switch (where) {
                case 0: dc.fixedDoctype = "<!DOCTYPE r [" + common + s.decl + "]>"; break;
                case 1: dc.fixedDoctype = "<!DOCTYPE r SYSTEM \"x.dtd\" [" + common + "]>"; dc.vfsFiles = {{"/v/x.dtd", s.decl}}; break;
                case 2: dc.fixedDoctype = "<!DOCTYPE r [" + common + "<!ENTITY % p SYSTEM \"p.ent\">%p;]>"; dc.vfsFiles = {{"/v/p.ent", s.decl}}; break;
                default: dc.fixedDoctype = "<!DOCTYPE r SYSTEM \"x.dtd\" [" + common + "]>"; dc.vfsFiles = {{"/v/x.dtd", std::string("<![INCLUDE[") + s.decl + "]]>"}}; break;
                }
                dc.body = s.body;
                bool trig = s.triggers && !strcmp(sa, "yes") && where != 0;
                dc.expect = trig ? s.expectWhenTriggered : 0;
                if (trig && s.kd) dc.kd = s.kd;
                static const char* wn[] = {"internal", "external-subset", "external-PE", "external-INCLUDE"};
                dc.label = std::string("standalone=") + (*sa ? sa : "absent") + " decl-in=" + wn[where] + " " + s.name;
                VC.push_back(dc);
            }
}
static void run_vc(uint64_t idx, Ctx& c) {
    run_doc(VC[idx], c, "vc:" + VC[idx].label);
    c.sample("{\"case\":" + jstr(VC[idx].label) + "}");
}

// ====================================================================================================== space witness
// Exactly one minimal witness per entry of KNOWN_DEFECTS, executed strictly (no tolerance).  A witness that still fails is reported as a
// violation of kind "defect:<slug>" (matched by /verif/known_findings.json => one KNOWN-FINDING line per defect); a witness that passes
// reports nothing.  The same witnesses are probed at the start of every other space: a passing witness switches the tolerance off.
struct Witness { int kd; const char* doc; const char* dtdPath; const char* dtd; int val; bool expectValid; const char* expected; };
static const Witness WITNESS[] = {
    {0, "<?xml version=\"1.0\"?><!DOCTYPE r [<!ELEMENT r ANY><!ELEMENT e ANY><!ELEMENT e EMPTY>]><r><e/></r>", "", "", 2, false,
     "Val_Auto + DOCTYPE: validity error (VC Unique Element Type Declaration), as reported under Val_Always"},
    {1, "<?xml version=\"1.0\"?><!DOCTYPE r [<!ELEMENT r EMPTY><!ATTLIST r x (en1|en2) #IMPLIED>]><r x=\"en1 en2\"/>", "", "", 1, false,
     "validity error (VC Enumeration: the value must match ONE of the Nmtoken tokens)"},
    {2, "<?xml version=\"1.0\"?><!DOCTYPE r [<!ELEMENT r EMPTY><!ATTLIST r x NMTOKENS #IMPLIED>]><r x=\"a1&#9;b1\"/>", "", "", 1, false,
     "validity error (VC Name Token: the normalised value a1<TAB>b1 does not match Nmtokens; only #x20 separates tokens)"},
    {3, "<?xml version=\"1.0\"?><!DOCTYPE r [<!ELEMENT r EMPTY><!NOTATION n1 SYSTEM \"a\"><!NOTATION n1 SYSTEM \"b\">]><r/>", "", "", 1, false,
     "validity error (VC Unique Notation Name)"},
    {4, "<?xml version=\"1.0\"?><!DOCTYPE r SYSTEM \"x.dtd\"><r/>", "/v/x.dtd", "<!ENTITY % p \"<!ELEMENT r ANY>\">%p;", 1, true,
     "valid: no error, no fatal error (well-formed, r declared ANY by the parameter entity)"},
    {5, "<?xml version=\"1.0\" standalone=\"yes\"?><!DOCTYPE r SYSTEM \"x.dtd\"><r x=\"a1 \"/>", "/v/x.dtd", "<!ELEMENT r EMPTY><!ATTLIST r x NMTOKEN #IMPLIED>", 1, false,
     "validity error (VC Standalone Document Declaration: normalisation by the external declaration changes the value)"},
    {6, "<?xml version=\"1.0\"?><!DOCTYPE r [<!ELEMENT r EMPTY><!ENTITY ee \"\">]><r>&ee;</r>", "", "", 1, false,
     "validity error (EMPTY: no content, not even entity references)"},
};
static const int N_WITNESS = sizeof(WITNESS) / sizeof(WITNESS[0]);
// true when the defect is still present; observed (optional) gets a rendering of what the library reported
static bool witness_fails(const Witness& w, std::string* observed, std::string* cfgOut) {
    g_vfs->clear();
    if (*w.dtdPath) g_vfs->put(w.dtdPath, w.dtd);
    ParseIO io; io.bytes = w.doc;
    Config cfg; cfg.scanner = IG; cfg.api = SAX2; cfg.val = w.val;
    ParseResult r = parse_xerces(cfg, io);
    if (cfgOut) *cfgOut = cfg.str();
    if (observed) {
        *observed = "errors=" + std::to_string(r.errs) + " fatals=" + std::to_string(r.fatals) + " warnings=" + std::to_string(r.warns);
        if (!r.errors.empty() || !r.exc.empty()) *observed += " : " + errs_of(r);
    }
    if (w.expectValid) return !(r.ok() && r.errs == 0);
    return !(r.ok() && r.errs > 0);
}
static void probe_defects() {  // before the workers are forked
    for (int i = 0; i < N_WITNESS; i++) g_kdFixed[WITNESS[i].kd] = !witness_fails(WITNESS[i], nullptr, nullptr);
    g_vfs->clear();
}
static void run_witness(uint64_t idx, Ctx& c) {
    const Witness& w = WITNESS[idx];
    const KnownDefect& k = KNOWN_DEFECTS[w.kd];
    std::string observed, cfg;
    bool fails = witness_fails(w, &observed, &cfg);
    c.count(fails ? "witness_defect_present" : "witness_defect_absent");
    c.count(std::string(fails ? "present:" : "absent:") + k.slug);
    if (fails)
        c.violation(std::string("defect:") + k.slug, "\"id\":" + jstr(k.id) + ",\"document\":" + jstr(w.doc) + ",\"dtd\":" + jstr(*w.dtdPath ? std::string(w.dtdPath) + " = " + w.dtd : "(internal subset)") +
                                                        ",\"config\":" + jstr(cfg) + ",\"expected\":" + jstr(w.expected) + ",\"observed\":" + jstr(observed) + ",\"what\":" + jstr(k.what));
    c.sample("{\"defect\":" + jstr(k.slug) + ",\"present\":" + (fails ? "true" : "false") + "}");
    if (c.verbose) printf("%s [%s] %s\n  dtd: %s %s\n  expected: %s\n  observed: %s\n  => defect %s\n", k.id, cfg.c_str(), w.doc, w.dtdPath, w.dtd, w.expected, observed.c_str(),
                          fails ? "PRESENT" : "absent");
}

// ====================================================================================================== main
int main(int argc, char** argv) {
    Args a(argc, argv);
    std::string space = a.str("space", "cm");
    xml_init();
    Runner R;
    R.name = space;
    g_placemask = (unsigned)strtoul(a.str("placemask", "0x7f").c_str(), nullptr, 0);
    g_onoff = a.num("onoff", 1) != 0;
    g_dumpViol = a.str("dump-viol", "");
    g_strict = a.num("strict", 0) != 0;
    if (space != "witness" && !g_strict && a.num("probe", 1)) probe_defects();
    g_placerotate = a.num("placerotate", 0) != 0;
    if (space == "cm" || space == "place") {
        g_k = (int)a.num("k", 3);
        g_alpha = (int)a.num("alpha", 8);
        g_cfgmask = (unsigned)strtoul(a.str("cfgmask", "0xff").c_str(), nullptr, 0);
        g_cfgrotate = a.num("cfgrotate", 0) != 0;
        bool canonical = a.str("naming", "canonical") == "canonical";
        if (a.num("specials", 1)) add_specials();
        add_children_models((int)a.num("minleaves", 1), (int)a.num("maxleaves", 2), canonical, a.num("wrap", 1) != 0, (int)a.num("maxsufs", -1));
        if (space == "place") { g_places.clear(); for (int p = 0; p < P_COUNT; p++) if (g_placemask >> p & 1) g_places.push_back(p); }
        init_instances();
        R.total = MODELS.size();
        R.fn = run_cm;
        R.describe = [](uint64_t i) { return "{\"model\":" + jstr(MODELS[i].spec) + "}"; };
        R.extra_json = "\"alphabet\":" + std::to_string(g_alpha) + ",\"k\":" + std::to_string(g_k) + ",\"bounds\":" +
                       jstr("leaves " + a.str("minleaves", "1") + ".." + a.str("maxleaves", "2") + " naming=" + (canonical ? "canonical" : "all") + " wrap=" +
                            a.str("wrap", "1") + " maxsufs=" + a.str("maxsufs", "-1") + " cfgmask=" + a.str("cfgmask", "255"));
        if (a.has("count")) { printf("%zu models, %llu instances each\n", MODELS.size(), (unsigned long long)words_upto(g_alpha, g_k) + 1); return 0; }
    } else if (space == "cmx") {
        g_xk = (int)a.num("k", 2);
        init_xmodels();
        R.total = XMODELS.size() * words_upto(NXTOK, g_xk);
        R.fn = run_cmx;
        R.describe = [](uint64_t i) {
            uint64_t nw = words_upto(NXTOK, g_xk);
            std::string inst = "<e>";
            for (int t : word_at(i % nw, NXTOK, g_xk)) inst += XTOK[t].text;
            return "{\"model\":" + jstr(XMODELS[i / nw].spec) + ",\"instance\":" + jstr(inst + "</e>") + "}";
        };
        R.extra_json = "\"alphabet\":" + std::to_string(NXTOK) + ",\"k\":" + std::to_string(g_xk);
    } else if (space == "attr") {
        init_attr(a.str("defaults", "all") == "quick");
        R.total = attr_total();
        R.fn = run_attr;
        R.describe = [](uint64_t i) { std::string l; attr_case(i, l); return "{\"case\":" + jstr(l) + "}"; };
        R.extra_json = "\"alphabet\":" + std::to_string(NAVAL) + ",\"bounds\":" + jstr("10 types x (2+2*" + std::to_string(DVS.size()) + ") defaults x (1+" + std::to_string(NAVAL) + ") presence/value");
    } else if (space == "idref") {
        g_maxElems = (int)a.num("elems", 3);
        bool big = a.num("big", 0) != 0;
        ID_OPTS = {"", "i1", "i2"}; if (big) ID_OPTS.push_back("i3");
        REF_OPTS = {"", "i1", "i2", "i3"};
        if (a.num("small", 0)) REF_OPTS = {"", "i1", "i3"};
        REFS_OPTS = {"", "i1 i2"}; if (big) REFS_OPTS.push_back("i3 i3");
        R.total = idref_total();
        R.fn = run_idref;
        R.describe = [](uint64_t i) { std::string l; idref_case(i, l); return "{\"doc\":" + jstr(l) + "}"; };
        R.extra_json = "\"alphabet\":" + std::to_string(idref_per_elem()) + ",\"k\":" + std::to_string(g_maxElems);
    } else if (space == "witness") {
        R.total = N_WITNESS;
        R.fn = run_witness;
        R.describe = [](uint64_t i) { return "{\"defect\":" + jstr(KNOWN_DEFECTS[WITNESS[i].kd].slug) + ",\"document\":" + jstr(WITNESS[i].doc) + "}"; };
    } else if (space == "vc") {
        init_vc();
        R.total = VC.size();
        R.fn = run_vc;
        R.describe = [](uint64_t i) { return "{\"case\":" + jstr(VC[i].label) + "}"; };
    } else {
        fprintf(stderr, "unknown space\n");
        return 2;
    }
    return R.main_tail(a);
}
