// c14_world.hpp - a "world" = one fresh Xerces DOMDocument plus the reference model, driven in lock-step.
#pragma once
#include "xv_xml.hpp"
#include "c14_apply.hpp"

#include <unordered_map>
#include <xercesc/dom/DOMRangeException.hpp>
#include <xercesc/dom/DOMXPathException.hpp>
// hidden fields of the view implementations are part of the state key; the orchestrator passes -fno-access-control, the defines
// below make a plain compile (bin/xv replay) work as well
#define private public
#define protected public
#include <xercesc/dom/impl/DOMDeepNodeListImpl.hpp>
#include <xercesc/dom/impl/DOMDocumentImpl.hpp>
#include <xercesc/dom/impl/DOMNodeIteratorImpl.hpp>
#include <xercesc/dom/impl/DOMRangeImpl.hpp>
#include <xercesc/dom/impl/DOMTreeWalkerImpl.hpp>
#include <xercesc/dom/impl/DOMXPathResultImpl.hpp>
#undef private
#undef protected

namespace c14 {
using namespace xercesc;
using xv::X16;
using xv::jstr;

// ---------------------------------------------------------------- KNOWN_DEFECTS
// Genuine defects of the pinned library that corrupt or crash every state in which they trigger.  While a defect is
// present (decided at start-up by executing its witness in a forked child) the explorer does not execute the triggering
// step (predicate evaluated on the reference model) and counts it as guarded:<id>; the witness itself is executed and
// reported by the "witnesses" space, so the defect keeps being detected.  Once the library is fixed the witness passes
// and the guard switches itself off.
struct KnownDefect { const char* id; const char* what; const char* history; };
// (range-insertData-start-offset and iterator-null-current-on-remove were listed here until they were fixed in /repo by
//  65be3d8 and d11221e; those transitions are now explored and compared strictly.)
enum { KD_SHOW_PRECEDENCE = 0, KD_PREV_DEEPEST = 1, KD_PARTIAL_TEXT = 2, KD_SKIPPED_CURRENT = 3, KD_SPLIT_INVERSION = 4 };
static const KnownDefect KNOWN_DEFECTS[] = {
    {"walker-whatToShow-filter-precedence",
     "DOMTreeWalkerImpl::acceptNode lets the filter REJECT a node that whatToShow already skips (header: the whatToShow skip takes precedence over the filter)",
     "mkTW(1,2,1);tw.firstChild(0)"},
    {"walker-previousNode-not-deepest",
     "DOMTreeWalkerImpl::previousNode descends only one level into the previous sibling instead of to its deepest last descendant",
     "appendChild(2,6);mkTW(1,0,0);tw.setCurrentNode(0,4);tw.previousNode(0)"},
    {"range-partial-text-zeroes-other-ranges",
     "DOMRangeImpl::traverseTextNode truncates a partially selected Text node with setNodeValue, which resets the offsets of every other Range in that node to 0",
     "mkRange(1);mkRange(3);rg.deleteContents(1)"},
    {"walker-child-of-skipped-current-escapes",
     "DOMTreeWalkerImpl::getFirstChild/getLastChild continue with the siblings of the current node when the current node itself is skipped: firstChild()/lastChild() return a node that is not a descendant of the current node",
     "mkTW(0,1,2);tw.setCurrentNode(0,2);tw.firstChild(0)"},
    {"range-splitText-start-after-end",
     "DOMTextImpl::splitText / DOMRangeImpl::updateSplitInfo move a start point behind the split offset into the new Text node but leave an end point at (parent, index+1) in front of that node: start after end",
     "mkRange(1);rg.setEnd(0,2,1);splitText(3,0)"},
};
static const int N_KNOWN = sizeof(KNOWN_DEFECTS) / sizeof(KNOWN_DEFECTS[0]);
static bool g_guard[8] = {false, false, false, false, false, false, false, false};

struct NameFilter : public DOMNodeFilter {
    FilterAction verdict;
    explicit NameFilter(FilterAction v) : verdict(v) {}
    FilterAction acceptNode(const DOMNode* nd) const override {
        if (nd->getNodeType() == DOMNode::ELEMENT_NODE) {
            const XMLCh* nm = nd->getNodeName();
            if (nm && nm[0] == 'a' && nm[1] == 0) return verdict;
        }
        return FILTER_ACCEPT;
    }
};
static NameFilter g_rejectA(DOMNodeFilter::FILTER_REJECT), g_skipA(DOMNodeFilter::FILTER_SKIP);

struct IView {
    int kind = 0;
    DOMNodeIterator* ni = nullptr;
    DOMTreeWalker* tw = nullptr;
    DOMNodeList* list = nullptr;
    DOMNamedNodeMap* map = nullptr;
    DOMRange* rg = nullptr;
    DOMXPathResult* xp = nullptr;
};

struct Sink {  // where discrepancies go (xv::Ctx or nothing during quiet replays)
    xv::Ctx* ctx = nullptr;
    std::string history;   // history up to (excluding) the current op
    std::string op;
    std::string tag;       // extra JSON fields attached to every violation (e.g. the known-defect id of a witness)
    int nviol = 0;
    void viol(const std::string& kind, const std::string& expected, const std::string& observed, const std::string& extra = "") {
        nviol++;
        if (!ctx) return;
        ctx->violation(kind, "\"history\":" + jstr(history) + ",\"op\":" + jstr(op) + ",\"expected\":" + jstr(expected) + ",\"observed\":" + jstr(observed) +
                                 (extra.empty() ? "" : "," + extra) + (tag.empty() ? "" : "," + tag));
        if (ctx->verbose) printf("  VIOLATION %s after [%s] op %s\n    expected: %s\n    observed: %s\n", kind.c_str(), history.c_str(), op.c_str(), expected.c_str(), observed.c_str());
    }
    void count(const std::string& k, uint64_t n = 1) { if (ctx) ctx->count(k, n); }
};

enum ApplyResult { AR_OK, AR_SKIPPED, AR_GUARDED, AR_VIOLATION };

struct World {
    DOMDocument* doc = nullptr;
    std::vector<DOMNode*> in;                       // reference id -> implementation node
    std::unordered_map<const DOMNode*, int> ids;    // implementation node -> reference id
    RModel ref;
    std::vector<IView> iv;
    int guardedId = -1;

    World() {
        static const XMLCh core[] = {'C', 'o', 'r', 'e', 0};
        DOMImplementation* impl = DOMImplementationRegistry::getDOMImplementation(core);
        doc = impl->createDocument();
        ref.init_universe();
        in.assign(ref.n.size(), nullptr);
        bind(0, doc);
        bind(1, doc->createElement(X16("r")));
        bind(2, doc->createElement(X16("a")));
        bind(3, doc->createTextNode(X16("abcd")));
        bind(4, doc->createTextNode(X16("xy")));
        bind(5, doc->createElement(X16("b")));
        bind(6, doc->createElement(X16("a")));
        bind(7, doc->createTextNode(X16("z")));
        doc->appendChild(in[1]); in[1]->appendChild(in[2]); in[2]->appendChild(in[3]); in[1]->appendChild(in[4]); in[1]->appendChild(in[5]);
        in[6]->appendChild(in[7]);
    }
    ~World() {
        for (auto& w : iv) if (w.xp) w.xp->release();
        if (doc) doc->release();
    }
    World(const World&) = delete;
    void bind(int id, DOMNode* nd) {
        if ((int)in.size() <= id) in.resize(id + 1, nullptr);
        in[id] = nd; ids[nd] = id;
    }
    int idOf(const DOMNode* nd) const {
        if (!nd) return -1;
        auto it = ids.find(nd);
        return it == ids.end() ? -2 : it->second;
    }
    std::string nodeValI(const DOMNode* nd) const { int i = idOf(nd); return i == -1 ? "null" : i == -2 ? "unknown-node" : "n" + std::to_string(i); }
    static std::string nar(const XMLCh* s) { return xv::esc16(s); }

    // ------------------------------------------------------------ dumps
    void dumpI(const DOMNode* nd, std::string& o, bool anon) const {
        int i = idOf(nd);
        if (anon || i < 0) o += "#"; else o += std::to_string(i);
        switch (nd->getNodeType()) {
        case DOMNode::TEXT_NODE: o += "\"" + nar(nd->getNodeValue()) + "\""; return;
        case DOMNode::ELEMENT_NODE: {
            o += "<" + nar(nd->getNodeName());
            DOMNamedNodeMap* am = nd->getAttributes();
            std::vector<std::string> as;
            for (XMLSize_t k = 0; am && k < am->getLength(); k++) {
                DOMAttr* a = (DOMAttr*)am->item(k);
                as.push_back(nar(a->getName()) + "=" + nar(a->getValue()) + (a->isId() ? "*" : ""));
            }
            std::sort(as.begin(), as.end());
            for (auto& s : as) o += " " + s;
            o += ">";
            break;
        }
        case DOMNode::DOCUMENT_NODE: o += "D"; break;
        case DOMNode::DOCUMENT_FRAGMENT_NODE: o += "F"; break;
        default: o += "?" + std::to_string((int)nd->getNodeType()); break;
        }
        o += "(";
        bool f = true;
        int guard = 0;
        for (DOMNode* k = nd->getFirstChild(); k && guard < 64; k = k->getNextSibling(), guard++) {
            if (!f) o += ",";
            f = false;
            if (k->getParentNode() != nd) o += "!badparent ";
            dumpI(k, o, anon);
        }
        o += ")";
    }
    void dumpR(int x, std::string& o, int anonFrom) const {
        const RNode& r = ref.n[x];
        if (x >= anonFrom) o += "#"; else o += std::to_string(x);
        switch (r.type) {
        case T_TEXT: o += "\"" + r.data + "\""; return;
        case T_ELEM: {
            o += "<" + r.name;
            for (auto& kv : r.attrs) o += " " + kv.first + "=" + kv.second.first + (kv.second.second ? "*" : "");
            o += ">";
            break;
        }
        case T_DOC: o += "D"; break;
        case T_FRAG: o += "F"; break;
        default: o += "?dead"; break;
        }
        o += "(";
        for (size_t i = 0; i < r.kids.size(); i++) { if (i) o += ","; dumpR(r.kids[i], o, anonFrom); }
        o += ")";
    }
    std::string treeI() const {  // document tree followed by every detached root, in id order
        std::string o;
        for (int x = 0; x < (int)in.size(); x++) {
            if (!in[x] || !ref.valid(x)) continue;
            if (x != 0 && in[x]->getParentNode() != nullptr) continue;
            dumpI(in[x], o, false);
            o += ";";
        }
        return o;
    }
    std::string treeR() const {
        std::string o;
        for (int x = 0; x < (int)ref.n.size(); x++) {
            if (!ref.valid(x) || ref.n[x].parent >= 0) continue;
            dumpR(x, o, 1 << 30);
            o += ";";
        }
        return o;
    }
    // hidden + observable state of the views
    std::string viewsI() const {
        std::string o;
        for (size_t i = 0; i < iv.size(); i++) {
            const IView& w = iv[i]; const RView& r = ref.v[i];
            char b[160];
            switch (w.kind) {
            case V_NI: {
                DOMNodeIteratorImpl* p = (DOMNodeIteratorImpl*)w.ni;
                snprintf(b, sizeof b, "NI[%d,%d,%d|%d,%d,%d]", r.root, r.show, r.filt, idOf(p->fCurrentNode), (int)p->fForward, (int)p->fDetached);
                break;
            }
            case V_TW: snprintf(b, sizeof b, "TW[%d,%d,%d|%d]", r.root, r.show, r.filt, idOf(w.tw->getCurrentNode())); break;
            case V_TAG: {
                DOMDeepNodeListImpl* p = (DOMDeepNodeListImpl*)w.list;
                bool fresh = p->fChanges == ((DOMDocumentImpl*)doc)->changes();
                snprintf(b, sizeof b, "TAG[%d|%d,%d,%d]", r.tag, fresh ? idOf(p->fCurrentNode) : -9, fresh ? (int)p->fCurrentIndexPlus1 : -9, (int)fresh);
                break;
            }
            case V_KIDS: snprintf(b, sizeof b, "KIDS[%d]", r.node); break;
            case V_ATTRS: snprintf(b, sizeof b, "ATTRS[%d]", r.node); break;
            case V_ID: snprintf(b, sizeof b, "ID"); break;
            case V_XP: {
                std::string s = "XP[" + std::to_string(r.tag) + "|";
                for (XMLSize_t k = 0; k < w.xp->getSnapshotLength(); k++) { w.xp->snapshotItem(k); s += std::to_string(idOf(w.xp->getNodeValue())) + ","; }
                o += s + "]";
                continue;
            }
            case V_RANGE: {
                DOMRangeImpl* p = (DOMRangeImpl*)w.rg;
                snprintf(b, sizeof b, "RG[%d,%d,%d,%d,%d]", idOf(p->fStartContainer), (int)p->fStartOffset, idOf(p->fEndContainer), (int)p->fEndOffset, (int)p->fDetached);
                break;
            }
            default: b[0] = 0;
            }
            o += b;
        }
        return o;
    }
    std::string key() const { return treeI() + "|" + viewsI() + "|c" + std::to_string(ref.created); }
    bool anyLiveView() const {
        for (auto& w : ref.v) if (!((w.kind == V_NI || w.kind == V_RANGE) && w.detached)) return true;
        return false;
    }

    // ------------------------------------------------------------ execution of one op on the implementation
    DOMNodeFilter* filt(int f) { return f == 1 ? &g_rejectA : f == 2 ? &g_skipA : nullptr; }
    Out implExec(const VOp& op, DOMNode*& retNode) {
        Out o;
        retNode = nullptr;
        try {
            switch (op.c) {
            case K_MK_NI: { IView w; w.kind = V_NI; w.ni = doc->createNodeIterator(in[op.a], (DOMNodeFilter::ShowType)SHOWS[op.b], filt(op.d), true); iv.push_back(w); break; }
            case K_MK_TW: { IView w; w.kind = V_TW; w.tw = doc->createTreeWalker(in[op.a], (DOMNodeFilter::ShowType)SHOWS[op.b], filt(op.d), true); iv.push_back(w); break; }
            case K_MK_TAG: { IView w; w.kind = V_TAG; w.list = doc->getElementsByTagName(X16(TAGS[op.a])); iv.push_back(w); break; }
            case K_MK_KIDS: { IView w; w.kind = V_KIDS; w.list = in[op.a]->getChildNodes(); iv.push_back(w); break; }
            case K_MK_ATTRS: { IView w; w.kind = V_ATTRS; w.map = in[op.a]->getAttributes(); iv.push_back(w); break; }
            case K_MK_ID: { IView w; w.kind = V_ID; iv.push_back(w); break; }
            case K_MK_XP: {
                IView w; w.kind = V_XP;
                w.xp = doc->evaluate(X16(op.a == 0 ? ".//a" : "*"), in[1], nullptr, DOMXPathResult::ORDERED_NODE_SNAPSHOT_TYPE, nullptr);
                iv.push_back(w);
                break;
            }
            case K_MK_RANGE: {
                IView w; w.kind = V_RANGE; w.rg = doc->createRange();
                iv.push_back(w);
                if (op.a > 0) { const Preset& q = PRESETS[op.a]; w.rg->setStart(in[q.sc], q.so); w.rg->setEnd(in[q.ec], q.eo); }
                break;
            }
            case K_APPEND: in[op.a]->appendChild(in[op.b]); break;
            case K_INSERT: in[op.a]->insertBefore(in[op.b], in[op.d]); break;
            case K_REMOVE: in[op.a]->getParentNode()->removeChild(in[op.a]); break;
            case K_REPLACE: in[op.b]->getParentNode()->replaceChild(in[op.a], in[op.b]); break;
            case K_NORMALIZE: in[op.a]->normalize(); break;
            case K_INSDATA: ((DOMText*)in[op.a])->insertData(op.b, X16(STRS[op.d])); break;
            case K_DELDATA: ((DOMText*)in[op.a])->deleteData(op.b, op.d); break;
            case K_REPDATA: ((DOMText*)in[op.a])->replaceData(op.b, op.d, X16(STRS[op.e])); break;
            case K_SPLIT: retNode = ((DOMText*)in[op.a])->splitText(op.b); o.val = "new"; break;
            case K_SETVAL: in[op.a]->setNodeValue(X16(STRS[op.b])); break;
            case K_SETATTR: ((DOMElement*)in[op.a])->setAttribute(X16(ANAMES[op.b]), X16(AVALS[op.d])); break;
            case K_RMATTR: ((DOMElement*)in[op.a])->removeAttribute(X16(ANAMES[op.b])); break;
            case K_SETIDATTR: ((DOMElement*)in[op.a])->setIdAttribute(X16(ANAMES[op.b]), true); break;
            case K_MKEL: retNode = doc->createElement(X16("a")); o.val = "new"; break;
            case K_MKTEXT: retNode = doc->createTextNode(X16(STRS[op.a])); o.val = "new"; break;
            case K_NEXT: o.val = nodeValI(iv[op.a].ni->nextNode()); break;
            case K_PREV: o.val = nodeValI(iv[op.a].ni->previousNode()); break;
            case K_DETACH: iv[op.a].ni->detach(); break;
            case K_TW_PARENT: o.val = nodeValI(iv[op.a].tw->parentNode()); break;
            case K_TW_FIRST: o.val = nodeValI(iv[op.a].tw->firstChild()); break;
            case K_TW_LAST: o.val = nodeValI(iv[op.a].tw->lastChild()); break;
            case K_TW_NEXTSIB: o.val = nodeValI(iv[op.a].tw->nextSibling()); break;
            case K_TW_PREVSIB: o.val = nodeValI(iv[op.a].tw->previousSibling()); break;
            case K_TW_NEXT: o.val = nodeValI(iv[op.a].tw->nextNode()); break;
            case K_TW_PREV: o.val = nodeValI(iv[op.a].tw->previousNode()); break;
            case K_TW_SETCUR: iv[op.a].tw->setCurrentNode(in[op.b]); break;
            case K_LEN: {
                IView& w = iv[op.a];
                XMLSize_t L = w.kind == V_ATTRS ? w.map->getLength() : w.kind == V_XP ? w.xp->getSnapshotLength() : w.list->getLength();
                o.val = "len:" + std::to_string((unsigned long)L);
                break;
            }
            case K_ITEM: {
                IView& w = iv[op.a];
                if (w.kind == V_ATTRS) { w.map->item(op.b); o.val = "attr"; }
                else if (w.kind == V_XP) { bool ok = w.xp->snapshotItem(op.b); o.val = ok ? nodeValI(w.xp->getNodeValue()) : "null"; }
                else o.val = nodeValI(w.list->item(op.b));
                break;
            }
            case K_IDGET: o.val = nodeValI(doc->getElementById(X16(AVALS[op.b]))); break;
            case K_R_SETSTART: iv[op.a].rg->setStart(in[op.b], op.d); break;
            case K_R_SETEND: iv[op.a].rg->setEnd(in[op.b], op.d); break;
            case K_R_COLLAPSE: iv[op.a].rg->collapse(op.b != 0); break;
            case K_R_SELNODE: iv[op.a].rg->selectNode(in[op.b]); break;
            case K_R_SELCONT: iv[op.a].rg->selectNodeContents(in[op.b]); break;
            case K_R_CMP: o.val = "i:" + std::to_string((int)iv[op.a].rg->compareBoundaryPoints((DOMRange::CompareHow)op.b, iv[op.d].rg)); break;
            case K_R_DELETE: iv[op.a].rg->deleteContents(); break;
            case K_R_EXTRACT: retNode = iv[op.a].rg->extractContents(); o.val = "frag"; break;
            case K_R_CLONE: retNode = iv[op.a].rg->cloneContents(); o.val = "frag"; break;
            case K_R_INSERT: iv[op.a].rg->insertNode(in[op.b]); break;
            case K_R_SURROUND: iv[op.a].rg->surroundContents(in[op.b]); break;
            case K_R_TOSTRING: o.val = "s:" + nar(iv[op.a].rg->toString()); break;
            case K_R_CLONERANGE: {
                DOMRange* c = iv[op.a].rg->cloneRange();
                o.val = "pts:" + std::to_string(idOf(c->getStartContainer())) + "," + std::to_string((int)c->getStartOffset()) + "," +
                        std::to_string(idOf(c->getEndContainer())) + "," + std::to_string((int)c->getEndOffset());
                c->detach();
                break;
            }
            case K_R_DETACH: iv[op.a].rg->detach(); break;
            default: break;
            }
        } catch (const DOMRangeException& e) { o = Out(); o.ex = 2; o.code = e.code; }
        catch (const DOMXPathException& e) { o = Out(); o.ex = 4; o.code = e.code; }
        catch (const DOMException& e) { o = Out(); o.ex = 1; o.code = e.code; }
        catch (const XMLException&) { o = Out(); o.ex = 9; o.code = 1; }
        catch (...) { o = Out(); o.ex = 9; o.code = 2; }
        return o;
    }

    // map reference nodes created by the last op onto implementation nodes (returned node first, then by position)
    void mapNew(int firstNew, DOMNode* retNode, int retRef) {
        if ((int)in.size() < (int)ref.n.size()) in.resize(ref.n.size(), nullptr);
        if (retRef >= 0 && retNode && ref.valid(retRef) && idOf(retNode) == -2) bind(retRef, retNode);
        bool progress = true;
        while (progress) {
            progress = false;
            for (int x = firstNew; x < (int)ref.n.size(); x++) {
                if (!ref.valid(x) || in[x]) continue;
                int p = ref.n[x].parent;
                if (p < 0 || !in[p]) continue;
                int k = ref.idx(x);
                DOMNode* c = in[p]->getFirstChild();
                for (int j = 0; j < k && c; j++) c = c->getNextSibling();
                if (c && idOf(c) == -2) { bind(x, c); progress = true; }
            }
        }
        for (int x = firstNew; x < (int)ref.n.size(); x++)
            if (ref.valid(x) && !in[x] && ref.n[x].parent < 0) ref.kill(x);  // nothing on the implementation side corresponds (garbage fragment)
    }

    // ------------------------------------------------------------ range state
    bool rangePtsI(int vi, int& sc, int& so, int& ec, int& eo) const {
        DOMRangeImpl* p = (DOMRangeImpl*)iv[vi].rg;
        if (p->fDetached) return false;
        sc = idOf(p->getStartContainer()); so = (int)p->getStartOffset(); ec = idOf(p->getEndContainer()); eo = (int)p->getEndOffset();
        return true;
    }
    static std::string pts(int sc, int so, int ec, int eo) {
        return "(" + std::to_string(sc) + "," + std::to_string(so) + ")-(" + std::to_string(ec) + "," + std::to_string(eo) + ")";
    }
    // (i) invariants that hold for every range after every step
    std::string rangeInvariant(int sc, int so, int ec, int eo) const {
        if (sc < 0 || ec < 0 || !ref.valid(sc) || !ref.valid(ec)) return "container is not a live node of the tree";
        if (so < 0 || so > ref.len(sc)) return "start offset out of bounds";
        if (eo < 0 || eo > ref.len(ec)) return "end offset out of bounds";
        if (ref.rootOf(sc) != ref.rootOf(ec)) return "start and end containers have different roots";
        if (ref.cmpPts(sc, so, ec, eo) > 0) return "start is after end";
        return "";
    }

    // ------------------------------------------------------------ one lock-step transition
    ApplyResult apply(const VOp& op, Sink& S, bool probe = true) {
        S.op = op.str();
        RModel saved = ref;
        ref.removals = 0; ref.hitD1 = ref.hitD2 = ref.hitD7 = false;
        int firstNew = (int)ref.n.size();
        Info inf;
        Out ro = ref_apply(ref, op, inf);
        if (inf.skipped) { ref = saved; return AR_SKIPPED; }
        // KNOWN_DEFECTS guard (predicates on the reference model)
        guardedId = -1;
        if (g_guard[KD_SPLIT_INVERSION] && ref.hitD7) guardedId = KD_SPLIT_INVERSION;
        else if (g_guard[KD_SHOW_PRECEDENCE] || g_guard[KD_PREV_DEEPEST] || g_guard[KD_PARTIAL_TEXT] || g_guard[KD_SKIPPED_CURRENT]) guardedId = guardPredicate(saved, op);
        if (guardedId >= 0) { ref = saved; S.count(std::string("guarded:") + KNOWN_DEFECTS[guardedId].id); return AR_GUARDED; }
        std::vector<std::string> before;
        for (size_t i = 0; i < saved.v.size(); i++)
            before.push_back(saved.v[i].kind == V_RANGE ? pts(saved.v[i].sc, saved.v[i].so, saved.v[i].ec, saved.v[i].eo) : std::string());
        DOMNode* retNode = nullptr;
        Out io = implExec(op, retNode);
        int v0 = S.nviol;
        S.count(std::string("op:") + OPNAME[op.c]);
        if (io.ex) S.count("exc:" + std::to_string(io.ex) + ":" + std::to_string(io.code) + ":" + OPNAME[op.c]);
        // 1. outcome
        if (op.c == K_IDGET) checkIdLookup(op.b, io, S);
        else if (!ro.unspec && !ro.same(io)) S.viol(std::string("outcome:") + OPNAME[op.c], ro.str(), io.str());
        else if (ro.unspec) S.count("outcome_unspecified");
        // 2. returned fragments, new nodes
        if (inf.ret >= 0 && !io.ex) {
            if (!retNode) S.viol(std::string("result-null:") + OPNAME[op.c], "node", "null");
            else if (ref.n[inf.ret].type == T_FRAG) {
                std::string a, b;
                dumpR(inf.ret, a, firstNew);
                // implementation side: nodes that are already known keep their id, new ones are anonymous
                std::string bb = anonymiseUnknown(retNode);
                if (a != bb) S.viol(std::string("content:") + OPNAME[op.c], a, bb);
                S.count("fragments_compared"); if (inf.contentNonEmpty) S.count("fragments_nonempty");
            }
        }
        if (inf.dropRet && inf.ret >= 0) ref.kill(inf.ret);
        mapNew(firstNew, inf.dropRet ? nullptr : retNode, inf.dropRet ? -1 : inf.ret);
        // 3. tree
        {
            std::string a = treeR(), b = treeI();
            if (a != b) S.viol("tree", a, b);
        }
        // 4. views
        for (size_t i = 0; i < ref.v.size() && i < iv.size(); i++) {
            RView& r = ref.v[i];
            if (r.kind == V_RANGE) {
                int sc, so, ec, eo;
                bool live = rangePtsI((int)i, sc, so, ec, eo);
                if (live == r.detached) { S.viol("range-detached-flag", r.detached ? "detached" : "live", live ? "live" : "detached"); continue; }
                if (!live) continue;
                std::string inv = rangeInvariant(sc, so, ec, eo);
                if (!inv.empty()) { S.viol("range-invariant", inv, pts(sc, so, ec, eo), "\"before\":" + jstr(i < before.size() ? before[i] : "")); continue; }
                S.count("range_invariant_checked");
                if (i < inf.adoptRange.size() && inf.adoptRange[i]) { r.sc = sc; r.so = so; r.ec = ec; r.eo = eo; S.count("range_adopted"); }
                else {
                    S.count("range_exact_checked");
                    if (sc != r.sc || so != r.so || ec != r.ec || eo != r.eo)
                        S.viol(std::string("range-position:") + OPNAME[op.c], pts(r.sc, r.so, r.ec, r.eo), pts(sc, so, ec, eo), "\"before\":" + jstr(i < before.size() ? before[i] : ""));
                    if (i < before.size() && !before[i].empty() && before[i] != pts(r.sc, r.so, r.ec, r.eo) && op.c < K_R_SETSTART) S.count("range_moved_by_mutation");
                }
            } else if (r.kind == V_TW) {
                int c = idOf(iv[i].tw->getCurrentNode());
                if (i < inf.adoptCur.size() && inf.adoptCur[i]) { if (c >= 0 && ref.valid(c)) r.cur = c; S.count("walker_adopted"); }
                else if (c != r.cur) S.viol("walker-current", nodeVal(r.cur), nodeVal(c));
            }
        }
        if (inf.iterFix) S.count("iterator_fixups", inf.iterFix);
        if (ref.removals) S.count("ops_with_removal");
        if (S.nviol != v0) return AR_VIOLATION;
        if (probe) { probeAll(S); if (S.nviol != v0) return AR_VIOLATION; }
        return AR_OK;
    }
    std::string anonymiseUnknown(const DOMNode* nd) const { std::string o; dumpA(nd, o); return o; }
    void dumpA(const DOMNode* nd, std::string& o) const {  // like dumpI but unknown nodes print '#'
        int i = idOf(nd);
        if (i < 0) o += "#"; else o += std::to_string(i);
        switch (nd->getNodeType()) {
        case DOMNode::TEXT_NODE: o += "\"" + nar(nd->getNodeValue()) + "\""; return;
        case DOMNode::ELEMENT_NODE: {
            o += "<" + nar(nd->getNodeName());
            DOMNamedNodeMap* am = nd->getAttributes();
            std::vector<std::string> as;
            for (XMLSize_t k = 0; am && k < am->getLength(); k++) {
                DOMAttr* a = (DOMAttr*)am->item(k);
                as.push_back(nar(a->getName()) + "=" + nar(a->getValue()) + (a->isId() ? "*" : ""));
            }
            std::sort(as.begin(), as.end());
            for (auto& s : as) o += " " + s;
            o += ">";
            break;
        }
        case DOMNode::DOCUMENT_FRAGMENT_NODE: o += "F"; break;
        default: o += "?"; break;
        }
        o += "(";
        bool f = true;
        for (DOMNode* k = nd->getFirstChild(); k; k = k->getNextSibling()) { if (!f) o += ","; f = false; dumpA(k, o); }
        o += ")";
    }

    // getElementById: the result must carry an ID attribute with that value; it must not be null while such an element is in the document
    void checkIdLookup(int valIdx, const Out& io, Sink& S) {
        std::vector<int> all, inDoc;
        ref.idCandidates(AVALS[valIdx], all, inDoc);
        std::string exp = "one of {";
        for (int x : all) exp += nodeVal(x) + " ";
        exp += "}" + std::string(inDoc.empty() ? " or null" : "");
        if (io.ex) { S.viol("outcome:getElementById", exp, io.str()); return; }
        bool ok;
        if (io.val == "null") ok = inDoc.empty(); else { ok = false; for (int x : all) if (io.val == nodeVal(x)) ok = true; }
        if (!ok) S.viol("id-lookup", exp, io.val);
        S.count(io.val == "null" ? "id_lookup_null" : "id_lookup_hit");
    }

    // KNOWN_DEFECTS 2..4 (found by this check): predicates evaluated on the state before the op
    int guardPredicate(const RModel& m, const VOp& op) const {
        if (op.c >= K_TW_PARENT && op.c <= K_TW_PREV && viewIs(m, op.a, V_TW)) {
            const RView& w = m.v[op.a];
            if (g_guard[KD_SHOW_PRECEDENCE] && w.filt == 1 && w.show != 0) return KD_SHOW_PRECEDENCE;  // a REJECT filter combined with a whatToShow mask that hides elements
            if (g_guard[KD_PREV_DEEPEST] && op.c == K_TW_PREV && walkerPrevNeedsDepth(m, w)) return KD_PREV_DEEPEST;
            if (g_guard[KD_SKIPPED_CURRENT] && (op.c == K_TW_FIRST || op.c == K_TW_LAST) && m.valid(w.cur) && w.cur != w.root && m.twFilter(w, w.cur) == F_SKIP) return KD_SKIPPED_CURRENT;
        }
        if (g_guard[KD_PARTIAL_TEXT] && (op.c == K_R_DELETE || op.c == K_R_EXTRACT || op.c == K_R_SURROUND) && viewIs(m, op.a, V_RANGE)) {
            const RView& w = m.v[op.a];
            if (!w.detached && w.sc != w.ec)
                for (size_t j = 0; j < m.v.size(); j++) {
                    const RView& o = m.v[j];
                    if ((int)j == op.a || o.kind != V_RANGE || o.detached) continue;
                    for (int c : {w.sc, w.ec}) if (m.isText(c) && ((o.sc == c && o.so > 0) || (o.ec == c && o.eo > 0))) return KD_PARTIAL_TEXT;
                }
        }
        return -1;
    }
    // true if some node that previousNode() may pass has a last child that itself has children (depth >= 2 below a sibling)
    static bool walkerPrevNeedsDepth(const RModel& m, const RView& w) {
        if (!m.valid(w.cur)) return false;
        for (int x = w.cur; x >= 0 && x != w.root; x = m.par(x)) {
            for (int s = m.prevSib(x); s >= 0; s = m.prevSib(s)) {
                // any descendant chain of length >= 2 under s
                for (int k : m.n[s].kids) if (!m.n[k].kids.empty()) return true;
            }
        }
        return false;
    }

    // ------------------------------------------------------------ probes: every live view is observed completely after every transition;
    // hidden view state (iterator position, list cache, walker current node) is saved and restored so that the probe is not a step.
    void probeAll(Sink& S) {
        for (size_t i = 0; i < iv.size() && i < ref.v.size(); i++) {
            IView& w = iv[i]; RView& r = ref.v[i];
            try {
                switch (w.kind) {
                case V_NI: probeNI(w, r, S); break;
                case V_TW: probeTW((int)i, w, r, S); break;
                case V_TAG: {
                    DOMDeepNodeListImpl* p = (DOMDeepNodeListImpl*)w.list;
                    int ch = p->fChanges; DOMNode* cn = p->fCurrentNode; XMLSize_t ci = p->fCurrentIndexPlus1;
                    probeList(w.list, ref.tagList(r.tag), "taglist", S);
                    p->fChanges = ch; p->fCurrentNode = cn; p->fCurrentIndexPlus1 = ci;
                    break;
                }
                case V_KIDS: probeList(w.list, ref.n[r.node].kids, "childNodes", S); break;
                case V_ATTRS: {
                    std::vector<std::string> as;
                    for (XMLSize_t k = 0; k < w.map->getLength(); k++) {
                        DOMAttr* a = (DOMAttr*)w.map->item(k);
                        if (!a) { as.push_back("null-item"); continue; }
                        as.push_back(nar(a->getName()) + "=" + nar(a->getValue()) + (a->isId() ? "*" : ""));
                        if (w.map->getNamedItem(a->getName()) != a) as.push_back("getNamedItem-mismatch");
                    }
                    std::sort(as.begin(), as.end());
                    std::string o;
                    for (auto& s : as) o += s + " ";
                    if (o != ref.attrDump(r.node)) S.viol("probe:attrmap", ref.attrDump(r.node), o);
                    S.count("probe_attrmap"); if (!as.empty()) S.count("probe_attrmap_nonempty");
                    break;
                }
                case V_ID:
                    for (int vi = 0; vi < 2; vi++) { Out io; io.val = nodeValI(doc->getElementById(X16(AVALS[vi]))); checkIdLookup(vi, io, S); }
                    break;
                case V_XP: {
                    std::string a, b;
                    for (int x : r.snap) a += nodeVal(x) + " ";
                    for (XMLSize_t k = 0; k < w.xp->getSnapshotLength(); k++) { w.xp->snapshotItem(k); b += nodeValI(w.xp->getNodeValue()) + " "; }
                    if (a != b) S.viol("probe:xpath-snapshot", a, b);
                    S.count("probe_xpath");
                    break;
                }
                case V_RANGE: {
                    if (r.detached) break;
                    std::string a = "s:" + ref.rangeString(r), b = "s:" + nar(w.rg->toString());
                    if (a != b) S.viol("probe:range-toString", a, b);
                    if (!ref.rangeString(r).empty()) S.count("probe_range_tostring_nonempty");
                    bool col = r.sc == r.ec && r.so == r.eo;
                    if (w.rg->getCollapsed() != col) S.viol("probe:range-collapsed", col ? "true" : "false", col ? "false" : "true");
                    int ca = r.sc; while (!ref.anc(ca, r.ec)) ca = ref.par(ca);
                    int ci = idOf(w.rg->getCommonAncestorContainer());
                    if (ci != ca) S.viol("probe:range-commonAncestor", nodeVal(ca), nodeVal(ci));
                    // cloneContents: structure of the selected content, without touching the tree
                    int firstNew = (int)ref.n.size();
                    RView tmp = r;
                    int f = ref.rangeContents(tmp, RModel::M_CLONE);
                    std::string ea; dumpR(f, ea, firstNew);
                    ref.kill(f); ref.n.resize(firstNew);
                    DOMDocumentFragment* fr = w.rg->cloneContents();
                    std::string eb = fr ? anonymiseUnknown(fr) : "null";
                    if (ea != eb) S.viol("probe:range-cloneContents", ea, eb);
                    S.count("probe_range");
                    break;
                }
                }
            } catch (const DOMException& e) {
                S.viol("probe-exception", "no exception", "DOMException " + std::to_string((int)e.code) + " view " + std::to_string(i));
            }
        }
    }
    void probeNI(IView& w, RView& r, Sink& S) {
        if (r.detached) return;
        DOMNodeIteratorImpl* p = (DOMNodeIteratorImpl*)w.ni;
        DOMNode* cn = p->fCurrentNode; bool fw = p->fForward;
        RView sv = r;
        for (int dir = 0; dir < 2; dir++) {
            std::string a, b;
            for (int k = 0; k < 40; k++) { int x = dir == 0 ? ref.iterNext(r) : ref.iterPrev(r); a += nodeVal(x) + " "; if (x < 0) break; }
            for (int k = 0; k < 40; k++) {
                DOMNode* x = dir == 0 ? w.ni->nextNode() : w.ni->previousNode();
                b += nodeValI(x) + " ";
                if (!x) break;
                int xi = idOf(x);
                if (xi < 0 || !ref.valid(xi) || !ref.anc(sv.root, xi)) S.viol("iterator-returned-removed-node", "a node inside the root's subtree", nodeValI(x));
            }
            if (a != b) S.viol(dir == 0 ? "probe:iterator-forward" : "probe:iterator-backward", a, b);
            if (a.size() > 5) S.count("probe_iter_nonempty");
            r = sv; p->fCurrentNode = cn; p->fForward = fw;
        }
        S.count("probe_iter");
    }
    void probeTW(int vi, IView& w, RView& r, Sink& S) {
        if (!ref.twWellPosed(r)) { S.count("probe_walker_outside_root"); return; }
        DOMNode* cn = w.tw->getCurrentNode();
        RView sv = r;
        static const int moves[7] = {K_TW_PARENT, K_TW_FIRST, K_TW_LAST, K_TW_NEXTSIB, K_TW_PREVSIB, K_TW_NEXT, K_TW_PREV};
        for (int mv : moves) {
            VOp op; op.c = mv; op.a = vi;
            if (guardPredicate(ref, op) >= 0) { S.count("probe_walker_guarded"); continue; }
            int x;
            DOMNode* y;
            switch (mv) {
            case K_TW_PARENT: x = ref.twParent(r); y = w.tw->parentNode(); break;
            case K_TW_FIRST: x = ref.twChildren(r, true); y = w.tw->firstChild(); break;
            case K_TW_LAST: x = ref.twChildren(r, false); y = w.tw->lastChild(); break;
            case K_TW_NEXTSIB: x = ref.twSiblings(r, true); y = w.tw->nextSibling(); break;
            case K_TW_PREVSIB: x = ref.twSiblings(r, false); y = w.tw->previousSibling(); break;
            case K_TW_NEXT: x = ref.twNext(r); y = w.tw->nextNode(); break;
            default: x = ref.twPrev(r); y = w.tw->previousNode(); break;
            }
            if (nodeVal(x) != nodeValI(y)) S.viol(std::string("probe:") + OPNAME[mv], nodeVal(x), nodeValI(y), "\"current\":" + jstr(nodeVal(sv.cur)));
            else if (idOf(w.tw->getCurrentNode()) != r.cur) S.viol(std::string("probe-current:") + OPNAME[mv], nodeVal(r.cur), nodeValI(w.tw->getCurrentNode()));
            if (x >= 0) S.count("probe_walker_moved");
            r = sv; w.tw->setCurrentNode(cn);
        }
        S.count("probe_walker");
    }
    void probeList(DOMNodeList* l, const std::vector<int>& exp, const char* what, Sink& S) {
        std::string a = "len:" + std::to_string(exp.size()) + " ", b;
        for (int x : exp) a += nodeVal(x) + " ";
        a += "null | ";
        for (int k = (int)exp.size() - 1; k >= 0; k--) a += nodeVal(exp[k]) + " ";
        XMLSize_t L = l->getLength();
        b = "len:" + std::to_string((unsigned long)L) + " ";
        for (XMLSize_t k = 0; k <= exp.size(); k++) b += nodeValI(l->item(k)) + " ";
        b += "| ";
        for (int k = (int)exp.size() - 1; k >= 0; k--) b += nodeValI(l->item(k)) + " ";
        if (a != b) S.viol(std::string("probe:") + what, a, b);
        S.count(std::string("probe_") + what); if (!exp.empty()) S.count(std::string("probe_") + what + "_nonempty");
    }
};

// replay a history on a fresh world; returns nullptr if a step is not applicable / guarded (cannot happen for explored states)
inline World* build_world(const std::vector<VOp>& h, Sink* report, bool probe, int* failedAt = nullptr) {
    World* w = new World();
    Sink quiet;
    Sink& S = report ? *report : quiet;
    std::string hist;
    for (size_t i = 0; i < h.size(); i++) {
        S.history = hist;
        ApplyResult r = w->apply(h[i], S, probe);
        if (r == AR_SKIPPED || r == AR_GUARDED) { if (failedAt) *failedAt = (int)i; delete w; return nullptr; }
        if (!hist.empty()) hist += ";";
        hist += h[i].str();
    }
    S.history = hist;
    return w;
}

}  // namespace c14
