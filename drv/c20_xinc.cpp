// c20_xinc.cpp - property C20: XInclude processing yields the specified merged tree, preserves base URIs, detects loops and
// reports invalid usage.  Bounded-exhaustive enumeration of inclusion graphs / per-include option products over files in an
// in-memory VFS (/v/a.xml, /v/s/b.xml, /v/s/t/c.xml, /v/d.xml + text targets); every case is executed by XercesDOMParser
// (setDoXInclude), DOMLSParser (fgXercesDoXInclude) and XIncludeDOMDocumentProcessor (--apis 3, default; --apis 2: parsers only)
// under ASan+UBSan and compared with the reference expander of c20_ref.hpp.
//
// Spaces (--space):
//   graph   all assignments of a template to each of --files n files (see build_variants); --tset full|mid|small; --rb k = number of
//           xml:base variants on the root of the non-main files
//   opts    main document = one include at each of 5 positions x the include-option catalogue x 9 forms of b.xml;
//           --pairs 1: additionally two includes (first+last child) x catalogue x every 4th catalogue entry x plain b.xml; --pairs 2: two includes
//           (first+last child; nested+following sibling) x catalogue^2 x 2 forms of b.xml
//   defects the minimised reproducers of KNOWN_DEFECTS, evaluated strictly (each is reported as a violation)
//   leak    catalogue x 2 contexts re-executed under LeakSanitizer with a leak check after every case (the driver re-execs
//           itself with ASAN_OPTIONS=detect_leaks=1; --leak-selftest leaks one block per case to prove the check is live)
#include <memory>
#include "c20_ref.hpp"
#include <unistd.h>
#include <xercesc/xinclude/XIncludeDOMDocumentProcessor.hpp>
using namespace xv;
using namespace c20;

// ---------------------------------------------------------------- known defects of the library (see docs/c20.md)
// Cases whose *only* discrepancy matches one of these narrow predicates are counted as known_defect:<id> in the big spaces so that
// the rest of the space is explored; the `defects` space evaluates one minimal reproducer of each strictly.
struct KnownDefect { const char* id; const char* what; };
static const KnownDefect KNOWN_DEFECTS[] = {
    {"xi-unused-fallback-processed", "xi:include inside the xi:fallback of an xi:include whose resource WAS obtained is processed anyway (at its end tag) and its failure is reported as a fatal error; XInclude 3.2: content of an ignored fallback must not cause errors"},
    {"xi-docelem-empty-not-reported", "xi:include as document element replaced by nothing (empty fallback) leaves a document without document element and reports no error (XInclude 4.5: fatal error)"},
    {"xi-include-child-not-reported", "xi:include as direct child of xi:include (XInclude 3.1: fatal error) is not reported by the parsers: the child is processed and replaced before the parent is examined"},
    {"xi-target-root-own-xmlbase", "xml:base fix-up of an included document element that already carries an xml:base: a relative value is kept unchanged (so it is resolved against the including document instead of the included one) and the xml:base of the xi:include element is prepended textually even to an absolute value; base URIs in that subtree - and the targets of xi:include elements inside it - are wrong"},
    {"xi-loop-unnormalised-uri", "loop detection compares unnormalised URI strings (base directory + href, '..' segments kept) with normalised base URIs: a loop closed through an href containing '..' is noticed one level late or - when an xml:base fix-up is skipped/incorrect on the repeated copy - not at all (reported as an unrelated resource error, or silently replaced by the fallback)"},
    {"xi-text-utf16-be-bom", "parse=text encoding=UTF-16: a big-endian byte order mark is ignored, the resource is decoded in host (little-endian) order"},
};

#if defined(__has_feature)
#if __has_feature(address_sanitizer)
extern "C" int __lsan_do_recoverable_leak_check();
#define C20_LSAN 1
#endif
#endif

// ---------------------------------------------------------------- Xerces side
// File manager with a per-parse budget of open() calls: the real library needs far fewer opens for any case of the
// enumerated spaces (counter xerces_opens_over_20); an
// implementation that does not notice an inclusion loop would recurse until the stack or the 20 s watchdog ends it.  After `budget`
// opens every further open fails (the resource "disappears"), which ends the recursion at once, and the case is reported as
// `runaway-inclusion` - a fast, deterministic stand-in for the hang.
struct GuardVfs : public Vfs {
    uint64_t budget = 300;
    uint64_t opens = 0;
    bool tripped = false;
    bool admit() { if (++opens > budget) { tripped = true; return false; } return true; }
    FileHandle fileOpen(const XMLCh* path, bool toWrite, MemoryManager* const mm) override { return admit() ? Vfs::fileOpen(path, toWrite, mm) : 0; }
    FileHandle fileOpen(const char* path, bool toWrite, MemoryManager* const mm) override { return admit() ? Vfs::fileOpen(path, toWrite, mm) : 0; }
};
static GuardVfs* g_guard = nullptr;

struct XOut {
    std::vector<std::string> lines;   // canonical DOM dump
    std::vector<std::string> bases;   // "qname=baseURI" per element, document order
    std::vector<std::string> errors;  // "sev|message|systemId"
    int fatals = 0, errs = 0, warns = 0;
    std::string exc;
    bool hasDoc = false;
    bool runaway = false;
    uint64_t opens = 0;
    bool isErr() const { return fatals || errs || !exc.empty(); }
};
struct ErrH : public ErrorHandler {
    XOut* o;
    void rec(const char* sev, const SAXParseException& e) { o->errors.push_back(std::string(sev) + "|" + esc16(e.getMessage()) + "|" + esc16(e.getSystemId())); }
    void warning(const SAXParseException& e) override { o->warns++; rec("W", e); }
    void error(const SAXParseException& e) override { o->errs++; rec("E", e); }
    void fatalError(const SAXParseException& e) override { o->fatals++; rec("F", e); }
    void resetErrors() override {}
};
struct DErrH : public DOMErrorHandler {
    XOut* o;
    bool handleError(const DOMError& e) override {
        const char* sev = e.getSeverity() == DOMError::DOM_SEVERITY_WARNING ? "W" : e.getSeverity() == DOMError::DOM_SEVERITY_ERROR ? "E" : "F";
        if (*sev == 'W') o->warns++; else if (*sev == 'E') o->errs++; else o->fatals++;
        DOMLocator* l = e.getLocation();
        o->errors.push_back(std::string(sev) + "|" + esc16(e.getMessage()) + "|" + esc16(l ? l->getURI() : 0));
        return true;
    }
};
static std::string strip_scheme(std::string b) {
    if (b.compare(0, 7, "file://") == 0) b = b.substr(7);
    if (!b.empty() && b[0] == '/') b = norm_path(b);
    return b;
}
static void collect_bases(DOMNode* n, std::vector<std::string>& out) {
    if (n->getNodeType() == DOMNode::ELEMENT_NODE) out.push_back(esc16(n->getNodeName()) + "=" + strip_scheme(esc16(n->getBaseURI())));
    for (DOMNode* c = n->getFirstChild(); c; c = c->getNextSibling()) collect_bases(c, out);
}
static void harvest(DOMDocument* doc, XOut& o) {
    if (!doc) return;
    o.hasDoc = true;
    if (g_guard->tripped) return;  // runaway inclusion: the tree is huge and the case is a violation anyway
    Dump d; dom_dump(doc, d, true); d.flush();
    o.lines = d.lines;
    collect_bases(doc, o.bases);
}
static XOut run_xerces(int api, const std::string& sys) {
    XOut o;
    g_guard->opens = 0; g_guard->tripped = false;
    try {
        if (api == 0) {
            XercesDOMParser p;
            ErrH h; h.o = &o;
            p.setDoNamespaces(true);
            p.setDoXInclude(true);
            p.setErrorHandler(&h);
            p.parse(X16(sys).p());
            harvest(p.getDocument(), o);
        } else if (api == 2) {  // XIncludeDOMDocumentProcessor on a document parsed without XInclude (top-down processing of a finished DOM)
            XercesDOMParser p;
            ErrH h; h.o = &o;
            p.setDoNamespaces(true);
            p.setDoXInclude(false);
            p.setErrorHandler(&h);
            p.parse(X16(sys).p());
            DOMDocument* src = p.getDocument();
            if (src && !o.isErr()) {
                XIncludeDOMDocumentProcessor proc;
                DOMDocument* res = proc.doXIncludeDOMProcess(src, (XMLErrorReporter*)&p);
                struct RelD { DOMDocument* d; ~RelD() { if (d) d->release(); } } rel{res};
                harvest(res, o);
            }
        } else {
            static const XMLCh ls[] = {'L', 'S', 0};
            DOMImplementationLS* impl = (DOMImplementationLS*)DOMImplementationRegistry::getDOMImplementation(ls);
            DOMLSParser* p = impl->createLSParser(DOMImplementationLS::MODE_SYNCHRONOUS, 0);
            struct Rel { DOMLSParser* p; ~Rel() { p->release(); } } rel{p};
            DErrH eh; eh.o = &o;
            DOMConfiguration* dc = p->getDomConfig();
            dc->setParameter(XMLUni::fgDOMNamespaces, true);
            dc->setParameter(XMLUni::fgXercesDoXInclude, true);
            dc->setParameter(XMLUni::fgDOMErrorHandler, &eh);
            harvest(p->parseURI(X16(sys).p()), o);
        }
    }
    catch (const OutOfMemoryException&) { o.exc = "OutOfMemoryException"; }
    catch (const XMLException& e) { o.exc = std::string("XMLException:") + esc16(e.getType()) + ":" + esc16(e.getMessage()); }
    catch (const SAXParseException& e) { o.exc = std::string("SAXParseException:") + esc16(e.getMessage()); }
    catch (const SAXException& e) { o.exc = std::string("SAXException:") + esc16(e.getMessage()); }
    catch (const DOMLSException& e) { o.exc = std::string("DOMLSException:") + std::to_string((int)e.code); }
    catch (const DOMException& e) { o.exc = std::string("DOMException:") + std::to_string((int)e.code); }
    catch (const std::exception& e) { o.exc = std::string("FOREIGN:std:") + e.what(); }
    catch (...) { o.exc = "FOREIGN:unknown"; }
    o.runaway = g_guard->tripped; o.opens = g_guard->opens;
    return o;
}

// ---------------------------------------------------------------- case model
#define XI "xmlns:xi='http://www.w3.org/2001/XInclude'"
static const char* FPATH[] = {"/v/a.xml", "/v/s/b.xml", "/v/s/t/c.xml", "/v/d.xml"};
static const char* FROOT[] = {"a", "b", "c", "d"};
static const char* OTHERDIR[] = {"s/", "t/", "../", "s/t/"};  // xml:base put on an xi:include of file i (a different directory)
enum { TG_MISSING = 10, TG_T1 = 11, TG_T2 = 12, TG_T3 = 13, TG_NOHREF = 14 };
static const char* T1_PATH = "/v/s/t1.txt";     // UTF-8, markup characters, one non-ASCII character
static const char* T2_PATH = "/v/s/t/t2.txt";   // UTF-16 little-endian with BOM
static const char* T3_PATH = "/v/t3.txt";       // UTF-16 big-endian with BOM
static std::string tgt_path(int t) {
    if (t < 4) return FPATH[t];
    switch (t) { case TG_T1: return T1_PATH; case TG_T2: return T2_PATH; case TG_T3: return T3_PATH; default: return "/v/s/zz.xml"; }
}
static std::string utf16(const std::string& ascii, bool le, unsigned extra) {
    std::string o = le ? "\xFF\xFE" : "\xFE\xFF";
    auto put = [&](unsigned u) { if (le) { o += (char)(u & 255); o += (char)(u >> 8); } else { o += (char)(u >> 8); o += (char)(u & 255); } };
    for (unsigned char c : ascii) put(c);
    if (extra) put(extra);
    return o;
}
static void put_text_targets() {
    g_vfs->put(T1_PATH, "<a>&amp;]]>\xC3\xA9 end");
    g_vfs->put(T2_PATH, utf16("<b>&lt;", true, 0xE9));
    g_vfs->put(T3_PATH, utf16("<c>&gt;", false, 0x20AC));
}

enum { FB_NONE, FB_EMPTY, FB_TEXT, FB_ELEM, FB_NESTED, FB_TWO, FB_INCCHILD, FB_ORPHAN };
struct Inc {
    int tgt = 1, parse = 0 /*0 absent 1 xml 2 text 3 bogus*/, enc = 0 /*0 absent 1 ISO-8859-1 2 UTF-16*/, xptr = 0, xbase = 0, fb = FB_NONE, fbTgt = 1, fbInner = 0;
    std::string str() const {
        char b[96];
        snprintf(b, sizeof b, "t%d p%d e%d x%d b%d f%d/%d/%d", tgt, parse, enc, xptr, xbase, fb, fbTgt, fbInner);
        return b;
    }
};
enum { TP_NONE, TP_DOCELEM, TP_FIRST, TP_MIDDLE, TP_LAST, TP_NESTED, TP_TWO_FL, TP_TWO_NS };
struct FileSpec { int tmpl = TP_NONE; Inc inc[2]; int rootBase = 0 /*0 none 1 relative 'q/' 2 absolute '/v/s/t/'*/; int prolog = 0; };

static std::string render_inc(const Inc& q, int file, std::string base, bool declareNs, bool docElem) {
    std::string at;
    if (declareNs) at += " " XI;
    if (q.xbase) { at += std::string(" xml:base='") + OTHERDIR[file] + "'"; base = resolve(OTHERDIR[file], base); }
    std::string href = q.tgt == TG_NOHREF ? "" : relpath(base, tgt_path(q.tgt));
    if (q.tgt != TG_NOHREF) at += " href='" + href + "'";
    if (q.parse == 1) at += " parse='xml'"; else if (q.parse == 2) at += " parse='text'"; else if (q.parse == 3) at += " parse='bogus'";
    if (q.enc == 1) at += " encoding='ISO-8859-1'"; else if (q.enc == 2) at += " encoding='UTF-16'";
    if (q.xptr) at += " xpointer='element(/1)'";
    std::string body;
    switch (q.fb) {
    case FB_NONE: case FB_ORPHAN: break;
    case FB_EMPTY: body = "<!--ic--><xi:fallback/>"; break;
    case FB_TEXT: body = "<xi:fallback>fb&lt;</xi:fallback>ignored"; break;
    case FB_ELEM: body = "<xi:fallback><f>t</f>u<g/></xi:fallback>"; break;
    case FB_NESTED:
        body = "<xi:fallback><xi:include href='" + relpath(base, tgt_path(q.fbTgt)) + "'" + (q.fbInner ? "><xi:fallback>in</xi:fallback></xi:include>" : "/>") + "<g/></xi:fallback>";
        break;
    case FB_TWO: body = "<xi:fallback>1</xi:fallback><xi:fallback>2</xi:fallback>"; break;
    case FB_INCCHILD: body = "<xi:include href='" + href + "'/>"; break;
    }
    if (q.fb == FB_ORPHAN && docElem) return "<xi:fallback" + std::string(declareNs ? " " XI : "") + ">o</xi:fallback>";
    std::string s = body.empty() ? "<xi:include" + at + "/>" : "<xi:include" + at + ">" + body + "</xi:include>";
    if (q.fb == FB_ORPHAN) s += "<xi:fallback>o</xi:fallback>";
    return s;
}
static std::string render_file(int i, const FileSpec& fs) {
    std::string R = FROOT[i], base = dir_of(FPATH[i]), ra = " " XI;
    if (fs.tmpl != TP_DOCELEM) {
        if (fs.rootBase == 1) { ra += " xml:base='q/'"; base = resolve("q/", base); }
        else if (fs.rootBase == 2) { ra += " xml:base='/v/s/t/'"; base = "/v/s/t/"; }
    }
    auto I = [&](int k) { return render_inc(fs.inc[k], i, base, false, false); };
    std::string body;
    switch (fs.tmpl) {
    case TP_NONE: body = "<" + R + ra + "><k/>tx</" + R + ">"; break;
    case TP_DOCELEM: body = render_inc(fs.inc[0], i, base, true, true); break;
    case TP_FIRST: body = "<" + R + ra + ">" + I(0) + "<k/>y</" + R + ">"; break;
    case TP_MIDDLE: body = "<" + R + ra + ">x<k/>" + I(0) + "y<m/></" + R + ">"; break;
    case TP_LAST: body = "<" + R + ra + "><k/>x" + I(0) + "</" + R + ">"; break;
    case TP_NESTED: body = "<" + R + ra + "><u><v>" + I(0) + "</v>z</u></" + R + ">"; break;
    case TP_TWO_FL: body = "<" + R + ra + ">" + I(0) + "<k/>" + I(1) + "</" + R + ">"; break;
    case TP_TWO_NS: body = "<" + R + ra + "><u>" + I(0) + "</u>" + I(1) + "</" + R + ">"; break;
    }
    if (fs.prolog) body = "<!--p" + R + "-->" + body + "<?e" + R + " d?>";
    return body;
}

struct Case { std::vector<std::pair<std::string, std::string>> files; std::string label; };
static std::string case_json(const Case& c) {
    std::string s = "{\"label\":" + jstr(c.label) + ",\"main\":\"/v/a.xml\",\"files\":{";
    for (size_t i = 0; i < c.files.size(); i++) s += (i ? "," : "") + jstr(c.files[i].first) + ":" + jstr(c.files[i].second);
    return s + "}}";
}

// ---------------------------------------------------------------- comparison
static bool g_strict = false;   // defects space: known defects are reported
static bool g_reuse = true;     // also parse a fixed good document on a long-lived parser after every case
static bool g_leak = false;     // leak space
static bool g_leak_selftest = false;
static int g_napi = 3;          // 0 XercesDOMParser, 1 DOMLSParser, 2 XIncludeDOMDocumentProcessor
static const char* API_NAME[] = {"XercesDOMParser", "DOMLSParser", "XIncludeDOMDocumentProcessor"};

static std::vector<std::string> filter_lines(const std::vector<std::string>& in) {
    std::vector<std::string> o;
    for (auto& l : in) {
        if (l.compare(0, 11, "A|xml:base|") == 0) continue;   // compared through getBaseURI()
        if (l.compare(0, 9, "A|xmlns||") == 0) continue;      // redundant xmlns="" added by DOM namespace normalisation
        if (l.compare(0, 12, "A|xmlns:xml|") == 0) continue;  // ditto: declaration of the implicit xml prefix
        std::string s = l;
        if (s.compare(0, 2, "T|") == 0) { size_t p; while ((p = s.find("\\uFEFF")) != std::string::npos) s.erase(p, 6); }  // BOM of a UTF-16 text resource: not claimed
        if (s == "T|") continue;
        o.push_back(s);
    }
    return o;
}
static const char* err_class(const std::string& kind) {
    if (kind == "loop") return "inclusion in document";            // "circular inclusion in document" / "self-inclusion in document"
    if (kind == "multi-fallback") return "multiple fallback";
    if (kind == "orphan-fallback") return "not a direct child of include";
    if (kind == "bad-parse") return "invalid 'parse' attribute";
    if (kind == "xpointer") return "XPointer";
    if (kind == "no-href") return "without 'href'";
    if (kind == "no-fallback") return "no fallback element";
    if (kind == "bad-child") return "not allowed as a child of include";
    return nullptr;  // docelem: any error
}
static std::string joinv(const std::vector<std::string>& v, const char* sep = "\n") { std::string o; for (auto& s : v) { if (!o.empty()) o += sep; o += s; } return o; }
static std::string joins(const std::set<std::string>& v) { std::string o; for (auto& s : v) { if (!o.empty()) o += ","; o += s; } return o; }

static void evaluate(const Case& cs, Ctx& c) {
    g_vfs->clear();
    put_text_targets();
    for (auto& f : cs.files) g_vfs->put(f.first, f.second);
    // ---- reference
    Expander ex; ex.files = &g_vfs->files;
    std::vector<RNode> top = ex.run("/v/a.xml");
    if (ex.harness) { c.violation("harness", "\"why\":" + jstr(ex.harnessWhy) + ",\"input\":" + case_json(cs)); return; }
    Dump ed; std::vector<std::string> ebases; std::vector<bool> relFlags;
    for (auto& n : top) render(n, ed, &ebases, &relFlags);
    ed.add("DE");
    std::vector<std::string> exp = filter_lines(ed.lines);
    bool refErr = !ex.errs.empty();
    for (auto& kv : ex.cnt) c.count(kv.first, kv.second);
    if (refErr) { c.count("ref_error"); for (auto& k : ex.errs) c.count("ref_error:" + k); }
    else {
        c.count("ref_ok");
        if (ex.cnt["ref_includes"]) c.count("ref_ok_with_includes");
        c.count("ref_ok_depth:" + std::to_string(ex.maxDepth));
        bool differ = false;
        for (auto& b : ebases) if (b.substr(b.find('=') + 1) != "/v/a.xml") differ = true;
        if (differ) c.count("ref_ok_with_foreign_base_uris");
        c.distinct.insert(fnv(joinv(exp) + joinv(ebases)));
    }
    if (ex.unusedFallbackHasInclude) c.count("ref_unused_fallback_with_include");
    // ---- implementation, both APIs
    XOut o[3];
    uint64_t reads0 = g_vfs->reads;
    for (int api = 0; api < g_napi; api++) {
        o[api] = run_xerces(api, "/v/a.xml");
        c.count("parses");
    }
#ifdef C20_LSAN
    if (g_leak) {
        if (g_leak_selftest) { volatile char* p = (char*)malloc(77); p[0] = 1; p = nullptr; }
        c.count("leak_checks");
        if (__lsan_do_recoverable_leak_check()) c.violation("leak", "\"input\":" + case_json(cs));
    }
#endif
    (void)reads0;
    for (int api = 0; api < g_napi; api++) {
        XOut& x = o[api];
        std::string tag = api == 0 ? "dom:" : api == 1 ? "ls:" : "proc:";
        for (auto& e : x.errors) {
            std::string m = e.substr(2, e.find('|', 2) - 2);
            size_t q = m.find('\''); if (q != std::string::npos) m = m.substr(0, q);
            if (api == 0) c.count("xerces_msg:" + e.substr(0, 2) + m);
        }
        if (!x.exc.empty() && api == 0) c.count("xerces_exc:" + x.exc);
        std::vector<std::pair<std::string, std::string>> disc;  // (kind, detail)
        if (x.runaway) disc.push_back({"runaway-inclusion", "more than " + std::to_string(g_guard->budget) + " files opened"});
        if (api == 0) { c.count("xerces_file_opens", x.opens); if (x.opens > 20) c.count("xerces_opens_over_20"); if (x.opens > 40) c.count("xerces_opens_over_40"); if (x.opens > 100) c.count("xerces_opens_over_100"); if (x.opens > 200) c.count("xerces_opens_over_200"); }
        if (x.exc.compare(0, 8, "FOREIGN:") == 0 || x.exc == "OutOfMemoryException") disc.push_back({"foreign-exception", x.exc});
        std::vector<std::string> got = filter_lines(x.lines);
        bool treeEq = false, baseEq = false;
        if (refErr) {
            if (!x.isErr()) disc.push_back({"error-not-reported", joins(ex.errs)});
            else {
                c.count(tag + "error_reported_as_expected");
                std::string missing;
                if (x.exc.empty())  // an exception ends processing: later errors cannot be reported any more
                for (auto& k : ex.errs) {
                    const char* pat = err_class(k);
                    if (!pat) continue;
                    bool found = false;
                    for (auto& e : x.errors) if (e[0] != 'W' && e.find(pat) != std::string::npos) found = true;
                    if (!found) missing += (missing.empty() ? "" : ",") + k;
                }
                if (!missing.empty()) disc.push_back({"error-class-not-reported", missing});
            }
        } else {
            if (x.isErr()) disc.push_back({"spurious-error", joinv(x.errors, " ;; ") + " exc=" + x.exc});
            if (!x.hasDoc) { if (!x.isErr()) disc.push_back({"no-document", ""}); }
            else {
                treeEq = (got == exp);
                if (!treeEq) disc.push_back({"tree-mismatch", ""});
                else {
                    c.count(tag + "tree_equal");
                    baseEq = (x.bases == ebases);
                    if (!baseEq) disc.push_back({"base-uri-mismatch", ""});
                    else c.count(tag + "bases_equal");
                }
            }
        }
        // ---- known-defect predicates: every discrepancy of the case must be explained by one of them, otherwise all are reported
        std::vector<std::string> defects;
        bool allKnown = !disc.empty();
        for (auto& d : disc) {
            const std::string& k = d.first;
            std::string defect;
            if (ex.includeUnderOwnBaseRoot) defect = "xi-target-root-own-xmlbase";  // an include resolved against a wrongly fixed-up base: anything may follow
            else if (k == "spurious-error" && ex.unusedFallbackWouldError) defect = "xi-unused-fallback-processed";
            else if (k == "error-not-reported" && ex.errs.size() == 1 && ex.errs.count("docelem") && ex.cnt["ref_docelem_empty"]) {
                bool anyElem = false;
                for (auto& l : x.lines) if (l.compare(0, 2, "S|") == 0) anyElem = true;
                if (!anyElem) defect = "xi-docelem-empty-not-reported";
            }
            else if ((k == "error-not-reported" && ex.errs.size() == 1 && ex.errs.count("bad-child")) ||
                     (k == "error-class-not-reported" && d.second == "bad-child")) defect = "xi-include-child-not-reported";
            else if (k == "base-uri-mismatch" && x.bases.size() == ebases.size()) {
                bool all = true, any = false;
                for (size_t i = 0; i < ebases.size(); i++) if (ebases[i] != x.bases[i]) { any = true; if (!relFlags[i]) all = false; }
                if (any && all) defect = "xi-target-root-own-xmlbase";
            }
            else if (ex.loopViaUnnormalised && ((k == "error-class-not-reported" && d.second == "loop") || (k == "error-not-reported" && ex.errs.size() == 1 && ex.errs.count("loop"))))
                defect = "xi-loop-unnormalised-uri";
            else if (k == "tree-mismatch" && ex.usedBigEndianBom) defect = "xi-text-utf16-be-bom";
            if (defect.empty()) allKnown = false;
            defects.push_back(defect);
        }
        if (allKnown && !g_strict) { if (api != 1) for (auto& d : std::set<std::string>(defects.begin(), defects.end())) c.count((api == 2 ? "proc:known_defect:" : "known_defect:") + d); continue; }
        for (size_t di = 0; di < disc.size(); di++) {
            auto& d = disc[di];
            const std::string& defect = defects[di];
            std::string f = "\"api\":" + jstr(API_NAME[api]) + (defect.empty() ? "" : ",\"defect\":" + jstr(defect)) +
                            ",\"detail\":" + jstr(d.second) + ",\"ref_errors\":" + jstr(joins(ex.errs)) + ",\"input\":" + case_json(cs) +
                            ",\"expected\":" + jstr(joinv(exp, "  ")) + ",\"observed\":" + jstr(joinv(got, "  ")) +
                            ",\"expected_bases\":" + jstr(joinv(ebases, " ")) + ",\"observed_bases\":" + jstr(joinv(x.bases, " ")) +
                            ",\"errors\":" + jstr(joinv(x.errors, " ;; ")) + ",\"exception\":" + jstr(x.exc);
            c.violation(d.first, f);
        }
    }
    // ---- the two parsers must agree with each other on everything observable
    {
        auto sevmsg = [](const XOut& x) { std::vector<std::string> v; for (auto& e : x.errors) v.push_back(e.substr(0, e.rfind('|'))); return v; };
        if (o[0].lines != o[1].lines || o[0].bases != o[1].bases || sevmsg(o[0]) != sevmsg(o[1]) || o[0].exc != o[1].exc || o[0].hasDoc != o[1].hasDoc)
            c.violation("api-mismatch", "\"input\":" + case_json(cs) + ",\"dom\":" + jstr(joinv(o[0].lines, "  ") + " ## " + joinv(o[0].errors, " ;; ") + " ## " + o[0].exc) +
                                            ",\"ls\":" + jstr(joinv(o[1].lines, "  ") + " ## " + joinv(o[1].errors, " ;; ") + " ## " + o[1].exc));
        else c.count("apis_agree");
    }
    // ---- history: one long-lived parser per API parses the case document (its parse may be stopped by a fatal error: the XercesDOMParser has
    // no error handler and throws, the DOMLSParser's handler answers false) and then a fixed well-behaved document with includes; the second
    // result must be what a fresh parser gives for that document
    if (g_reuse) {
        static const char* GOOD = "<g " XI "><xi:include href='gs/gp.xml'/><m/><xi:include href='gt.txt' parse='text'/><xi:include href='nope.xml'><xi:fallback><f/></xi:fallback></xi:include></g>";
        auto putGood = [&]() { g_vfs->put("/v/good.xml", GOOD); g_vfs->put("/v/gs/gp.xml", "<p><q/>one</p>"); g_vfs->put("/v/gt.txt", "a < b & c"); };
        putGood();
        static std::string want[2];
        for (int api = 0; api < 2; api++) {
            if (want[api].empty()) { XOut f = run_xerces(api == 0 ? 0 : 1, "/v/good.xml"); want[api] = joinv(filter_lines(f.lines), "\n") + "#" + joinv(f.bases, " ") + "#" + joinv(f.errors, ";") + "#" + f.exc; }
            XOut second; std::string firstEnd;
            g_guard->opens = 0; g_guard->tripped = false;
            try {
                if (api == 0) {
                    std::unique_ptr<XercesDOMParser> P(new XercesDOMParser());   // one parser per case (two parses): keeps every case reproducible on its own
                    P->setDoNamespaces(true); P->setDoXInclude(true);
                    P->setErrorHandler(nullptr);
                    try { P->parse(X16("/v/a.xml").p()); firstEnd = "completed"; } catch (const SAXParseException&) { firstEnd = "stopped by SAXParseException"; } catch (const XMLException&) { firstEnd = "stopped by XMLException"; } catch (const DOMException&) { firstEnd = "stopped by DOMException"; }
                    ErrH h; h.o = &second; P->setErrorHandler(&h);
                    P->parse(X16("/v/good.xml").p());
                    harvest(P->getDocument(), second);
                } else {
                    static const XMLCh ls[] = {'L', 'S', 0};
                    DOMLSParser* P = ((DOMImplementationLS*)DOMImplementationRegistry::getDOMImplementation(ls))->createLSParser(DOMImplementationLS::MODE_SYNCHRONOUS, 0);
                    struct RelP { DOMLSParser* p; ~RelP() { p->release(); } } relP{P};
                    P->getDomConfig()->setParameter(XMLUni::fgDOMNamespaces, true); P->getDomConfig()->setParameter(XMLUni::fgXercesDoXInclude, true);
                    struct StopH : public DOMErrorHandler { bool handleError(const DOMError& e) override { return e.getSeverity() != DOMError::DOM_SEVERITY_FATAL_ERROR; } } stop;
                    P->getDomConfig()->setParameter(XMLUni::fgDOMErrorHandler, &stop);
                    try { P->parseURI(X16("/v/a.xml").p()); firstEnd = "completed"; } catch (const DOMLSException&) { firstEnd = "stopped by DOMLSException"; } catch (const XMLException&) { firstEnd = "stopped by XMLException"; } catch (const DOMException&) { firstEnd = "stopped by DOMException"; }
                    DErrH eh; eh.o = &second; P->getDomConfig()->setParameter(XMLUni::fgDOMErrorHandler, &eh);
                    harvest(P->parseURI(X16("/v/good.xml").p()), second);
                }
            }
            catch (const XMLException& e) { second.exc = std::string("XMLException:") + esc16(e.getMessage()); }
            catch (const SAXException& e) { second.exc = std::string("SAXException:") + esc16(e.getMessage()); }
            catch (const DOMException& e) { second.exc = std::string("DOMException:") + std::to_string((int)e.code); }
            catch (...) { second.exc = "FOREIGN:unknown"; }
            if (g_guard->tripped) { c.count("reuse_skipped_runaway_first_parse"); continue; }
            std::string got = joinv(filter_lines(second.lines), "\n") + "#" + joinv(second.bases, " ") + "#" + joinv(second.errors, ";") + "#" + second.exc;
            c.count("reused_parser_checks"); c.count("reused_parser_first_parse:" + firstEnd);
            if (got != want[api])
                c.violation("parser-reuse-after-case", "\"api\":" + jstr(api == 0 ? "XercesDOMParser (reused)" : "DOMLSParser (reused)") + ",\"first_parse\":" + jstr(firstEnd) + ",\"expected\":" + jstr(want[api].substr(0, 400)) + ",\"observed\":" + jstr(got.substr(0, 400)) + ",\"input\":" + case_json(cs));
        }
    }
    if (c.verbose) {
        printf("---- case %s\n", cs.label.c_str());
        for (auto& f : cs.files) printf("  %s: %s\n", f.first.c_str(), f.second.c_str());
        printf("  reference: %s\n    tree: %s\n    bases: %s\n", refErr ? ("ERROR " + joins(ex.errs)).c_str() : "ok", joinv(exp, "  ").c_str(), joinv(ebases, " ").c_str());
        for (int api = 0; api < g_napi; api++)
            printf("  %s: opens=%llu doc=%d F=%d E=%d W=%d exc=%s\n    errors: %s\n    tree: %s\n    bases: %s\n", API_NAME[api], (unsigned long long)o[api].opens, o[api].hasDoc, o[api].fatals, o[api].errs,
                   o[api].warns, o[api].exc.c_str(), joinv(o[api].errors, " ;; ").c_str(), joinv(filter_lines(o[api].lines), "  ").c_str(), joinv(o[api].bases, " ").c_str());
    }
}

// ---------------------------------------------------------------- space: graph
static int G_files = 2;
static std::vector<std::vector<FileSpec>> G_var;   // per file
static std::vector<std::vector<std::vector<int>>> G_mentions;  // per file, per variant: file indices mentioned
static void build_variants(int n, int tset /*2 full, 1 mid, 0 small*/, int rb) {
    bool full = tset >= 1;
    G_files = n; G_var.assign(n, {}); G_mentions.assign(n, {});
    std::vector<int> tg;
    for (int i = 0; i < n; i++) tg.push_back(i);
    tg.push_back(TG_MISSING);
    auto mk = [&](int t) { Inc q; q.tgt = t; q.fb = (t == TG_MISSING) ? FB_TEXT : FB_NONE; return q; };
    for (int i = 0; i < n; i++) {
        int nrb = (i == 0) ? 1 : rb;
        for (int r = 0; r < nrb; r++) {
            auto add = [&](FileSpec fs, std::vector<int> m) {
                if (fs.tmpl == TP_DOCELEM && r) return;
                fs.rootBase = r; fs.prolog = (i != 0);
                G_var[i].push_back(fs); G_mentions[i].push_back(m);
            };
            { FileSpec fs; fs.tmpl = TP_NONE; add(fs, {}); }
            std::vector<int> single = full ? std::vector<int>{TP_DOCELEM, TP_FIRST, TP_MIDDLE, TP_LAST, TP_NESTED} : std::vector<int>{TP_DOCELEM, TP_FIRST, TP_NESTED};
            for (int tp : single) for (int t : tg) { FileSpec fs; fs.tmpl = tp; fs.inc[0] = mk(t); add(fs, {t}); }
            for (int t : tg) {  // include inside the fallback of a failing include
                FileSpec fs; fs.tmpl = TP_MIDDLE; Inc q; q.tgt = TG_MISSING; q.fb = FB_NESTED; q.fbTgt = t; q.fbInner = (t == TG_MISSING); fs.inc[0] = q; add(fs, {t});
            }
            if (full) for (int tp : {TP_TWO_FL, TP_TWO_NS}) if (tp == TP_TWO_FL || tset == 2) for (int t1 : tg) for (int t2 : tg) { FileSpec fs; fs.tmpl = tp; fs.inc[0] = mk(t1); fs.inc[1] = mk(t2); add(fs, {t1, t2}); }
        }
    }
}
static uint64_t graph_total() { uint64_t t = 1; for (auto& v : G_var) t *= v.size(); return t; }
static bool graph_case(uint64_t idx, Case& cs) {  // false: pruned (an unreachable file is not in its first variant)
    std::vector<int> sel(G_files);
    for (int i = G_files - 1; i >= 0; i--) { sel[i] = (int)(idx % G_var[i].size()); idx /= G_var[i].size(); }
    std::vector<bool> reach(G_files, false);
    std::vector<int> st = {0}; reach[0] = true;
    while (!st.empty()) { int f = st.back(); st.pop_back(); for (int m : G_mentions[f][sel[f]]) if (m < G_files && !reach[m]) { reach[m] = true; st.push_back(m); } }
    for (int i = 0; i < G_files; i++) if (!reach[i] && sel[i] != 0) return false;
    cs.label = "graph";
    for (int i = 0; i < G_files; i++) { cs.files.push_back({FPATH[i], render_file(i, G_var[i][sel[i]])}); cs.label += " " + std::to_string(sel[i]); }
    return true;
}

// ---------------------------------------------------------------- space: opts
static std::vector<Inc> O_cat;
static std::vector<FileSpec> O_bforms;
static int O_pairs = 0;   // 0 none, 1: first+last child, catalogue x every 4th catalogue entry, plain b; 2: both two-include templates x catalogue^2 x 2 forms of b (plain, includes c)
static void build_catalogue() {
    const int A = 0, B = 1, C = 2;
    auto add = [&](Inc q) { O_cat.push_back(q); };
    std::vector<int> X = {B, C, A, TG_MISSING};
    for (int t : X) for (int fb : {FB_NONE, FB_EMPTY, FB_TEXT, FB_ELEM, FB_TWO, FB_INCCHILD, FB_ORPHAN}) { Inc q; q.tgt = t; q.fb = fb; add(q); }
    for (int t : X) for (int ft : {B, C, (int)TG_MISSING, A}) for (int in : {0, 1}) { Inc q; q.tgt = t; q.fb = FB_NESTED; q.fbTgt = ft; q.fbInner = in; add(q); }
    for (int t : X) { Inc q; q.tgt = t; q.parse = 1; add(q); }
    for (int t : {B, (int)TG_MISSING}) for (int fb : {FB_NONE, FB_ELEM, FB_NESTED}) { Inc q; q.tgt = t; q.xbase = 1; q.fb = fb; q.fbTgt = C; add(q); }
    for (int t : {B, A, (int)TG_T1, (int)TG_MISSING}) { Inc q; q.tgt = t; q.parse = 2; add(q); }
    { Inc q; q.tgt = TG_T1; q.parse = 2; q.enc = 1; add(q); }
    { Inc q; q.tgt = B; q.parse = 2; q.enc = 1; add(q); }
    { Inc q; q.tgt = TG_T2; q.parse = 2; q.enc = 2; add(q); }
    { Inc q; q.tgt = TG_T3; q.parse = 2; q.enc = 2; add(q); }
    { Inc q; q.tgt = TG_MISSING; q.parse = 2; q.fb = FB_TEXT; add(q); }
    { Inc q; q.tgt = TG_MISSING; q.parse = 2; q.fb = FB_NESTED; q.fbTgt = B; add(q); }
    { Inc q; q.tgt = B; q.parse = 3; add(q); }
    { Inc q; q.tgt = TG_MISSING; q.parse = 3; q.fb = FB_TEXT; add(q); }
    { Inc q; q.tgt = B; q.parse = 1; q.xptr = 1; add(q); }
    { Inc q; q.tgt = B; q.parse = 2; q.xptr = 1; add(q); }
    { Inc q; q.tgt = B; q.xptr = 1; q.fb = FB_TEXT; add(q); }
    { Inc q; q.tgt = TG_NOHREF; add(q); }
    { Inc q; q.tgt = TG_NOHREF; q.fb = FB_TEXT; add(q); }
    // forms of b.xml
    auto bf = [&](int tmpl, int tgt, int rootBase, int prolog) { FileSpec fs; fs.tmpl = tmpl; fs.inc[0].tgt = tgt; fs.rootBase = rootBase; fs.prolog = prolog; O_bforms.push_back(fs); };
    bf(TP_NONE, 0, 0, 0);       // 0 plain
    bf(TP_NONE, 0, 2, 1);       // 1 absolute xml:base on the root, prolog comment + trailing PI
    bf(TP_MIDDLE, C, 0, 1);     // 2 b includes c
    bf(TP_NONE, 0, 1, 0);       // 3 relative xml:base on the root
    bf(TP_MIDDLE, A, 0, 0);     // 4 b includes a (loop when a includes b)
    bf(TP_DOCELEM, C, 0, 1);    // 5 b's document element is an include of c
    bf(TP_FIRST, C, 1, 0);      // 6 relative xml:base on the root and an include resolved against it
    bf(TP_NESTED, B, 0, 0);     // 7 b includes itself
    bf(TP_TWO_FL, C, 0, 0);     // 8 b includes c twice (sibling includes processed with one inclusion history)
    O_bforms.back().inc[1].tgt = C;
}
static const int O_POS[] = {TP_DOCELEM, TP_FIRST, TP_MIDDLE, TP_LAST, TP_NESTED};
static bool O_singles = true;
static uint64_t opts_singles() { return O_singles ? 5ULL * O_cat.size() * O_bforms.size() : 0; }
static uint64_t opts_total() { return opts_singles() + (O_pairs == 2 ? 2ULL * O_cat.size() * O_cat.size() * 2 : O_pairs == 1 ? 1ULL * O_cat.size() * ((O_cat.size() + 3) / 4) : 0); }
static uint64_t leak_total() { return 2ULL * O_cat.size(); }
static void opts_case(uint64_t idx, Case& cs) {
    FileSpec a; int bform;
    if (g_leak) {  // catalogue x {(middle child, plain b), (document element, b includes a: loop)}
        int v = (int)(idx % 2); int ci = (int)(idx / 2);
        bform = (v == 1) ? 4 : 0;
        a.tmpl = (v == 1) ? TP_DOCELEM : TP_MIDDLE; a.inc[0] = O_cat[ci];
        cs.label = "leak pos" + std::to_string(a.tmpl) + " [" + a.inc[0].str() + "] b" + std::to_string(bform);
    } else if (idx < opts_singles()) {
        bform = (int)(idx % O_bforms.size()); idx /= O_bforms.size();
        int ci = (int)(idx % O_cat.size()); idx /= O_cat.size();
        a.tmpl = O_POS[idx]; a.inc[0] = O_cat[ci];
        cs.label = "opts pos" + std::to_string(a.tmpl) + " [" + a.inc[0].str() + "] b" + std::to_string(bform);
    } else {
        idx -= opts_singles();
        if (O_pairs == 2) { bform = (int)(idx % 2) * 2; idx /= 2; } else bform = 0;  // forms 0 (plain) and 2 (b includes c)
        size_t n2 = O_pairs == 2 ? O_cat.size() : (O_cat.size() + 3) / 4;
        int c2 = (int)(idx % n2); idx /= n2;
        if (O_pairs != 2) c2 *= 4;
        int c1 = (int)(idx % O_cat.size()); idx /= O_cat.size();
        a.tmpl = idx ? TP_TWO_NS : TP_TWO_FL; a.inc[0] = O_cat[c1]; a.inc[1] = O_cat[c2];
        cs.label = "opts pair" + std::to_string(a.tmpl) + " [" + a.inc[0].str() + "] [" + a.inc[1].str() + "] b" + std::to_string(bform);
    }
    FileSpec cfile; cfile.tmpl = TP_NONE; cfile.prolog = 1;
    cs.files.push_back({FPATH[0], render_file(0, a)});
    cs.files.push_back({FPATH[1], render_file(1, O_bforms[bform])});
    cs.files.push_back({FPATH[2], render_file(2, cfile)});
}

// ---------------------------------------------------------------- space: defects (strict minimal reproducers)
static std::vector<Case> D_cases;
static void build_defects() {
    auto mk = [&](const char* label, std::vector<std::pair<std::string, std::string>> f) { Case c; c.label = label; c.files = f; D_cases.push_back(c); };
    mk("xi-unused-fallback-processed", {{"/v/a.xml", "<a " XI "><xi:include href='s/b.xml'><xi:fallback><xi:include href='zz.xml'/></xi:fallback></xi:include></a>"}, {"/v/s/b.xml", "<b/>"}});
    mk("xi-docelem-empty-not-reported", {{"/v/a.xml", "<xi:include " XI " href='zz.xml'><xi:fallback/></xi:include>"}});
    mk("xi-include-child-not-reported", {{"/v/a.xml", "<a " XI "><xi:include href='s/b.xml'><xi:include href='s/b.xml'/></xi:include></a>"}, {"/v/s/b.xml", "<b/>"}});
    mk("xi-target-root-own-xmlbase", {{"/v/a.xml", "<a " XI "><xi:include href='s/b.xml'/></a>"}, {"/v/s/b.xml", "<b xml:base='q/'><k/></b>"}});
    mk("xi-loop-unnormalised-uri", {{"/v/a.xml", "<a " XI "><xi:include href='s/t/c.xml'/></a>"}, {"/v/s/t/c.xml", "<xi:include " XI " href='../b.xml'/>"},
                                    {"/v/s/b.xml", "<xi:include " XI " href='b.xml'><xi:fallback>fb</xi:fallback></xi:include>"}});
    mk("xi-text-utf16-be-bom", {{"/v/a.xml", "<a " XI "><xi:include href='t3.txt' parse='text' encoding='UTF-16'/></a>"}});
}

// ---------------------------------------------------------------- space: deep (five files, inclusion depth >= 3, siblings after a completed deep include)
// a.xml includes p.xml; p.xml includes q.xml, or q.xml and then any file; q.xml has two includes of any files; r.xml and s.xml are leaves or
// include any file.  All in one directory, no fallbacks: every loop must be reported, every loop-free assignment must give the merged tree.
// This is the smallest shape in which an include *completes* at history depth 3 and a later sibling closes a loop through a middle entry.
static const char* DPATH[] = {"/v/a.xml", "/v/p.xml", "/v/q.xml", "/v/r.xml", "/v/s.xml"};
static const char* DNAME[] = {"a.xml", "p.xml", "q.xml", "r.xml", "s.xml"};
static uint64_t deep_total() { return 6ULL * 25 * 6 * 6; }
static std::string deep_file(int i, int t1, int t2) {   // t < 0: no include
    std::string r = std::string("<e") + std::to_string(i) + " " XI ">";
    r += "t" + std::to_string(i);
    if (t1 >= 0) r += std::string("<xi:include href='") + DNAME[t1] + "'/>";
    r += "<k/>";
    if (t2 >= 0) r += std::string("<xi:include href='") + DNAME[t2] + "'/>";
    return r + "</e" + std::to_string(i) + ">";
}
static void deep_case(uint64_t idx, Case& cs) {
    int s4 = (int)(idx % 6); idx /= 6;
    int s3 = (int)(idx % 6); idx /= 6;
    int q = (int)(idx % 25); idx /= 25;
    int p = (int)idx;
    cs.label = "deep p" + std::to_string(p) + " q" + std::to_string(q) + " r" + std::to_string(s3) + " s" + std::to_string(s4);
    cs.files.push_back({DPATH[0], deep_file(0, 1, -1)});
    cs.files.push_back({DPATH[1], deep_file(1, 2, p == 0 ? -1 : p - 1)});
    cs.files.push_back({DPATH[2], deep_file(2, q / 5, q % 5)});
    cs.files.push_back({DPATH[3], deep_file(3, s3 - 1, -1)});
    cs.files.push_back({DPATH[4], deep_file(4, s4 - 1, -1)});
}

// ---------------------------------------------------------------- main
static std::string g_space;
static bool make_case(uint64_t idx, Case& cs) {
    if (g_space == "graph") return graph_case(idx, cs);
    if (g_space == "defects" || g_space == "manual") { cs = D_cases[idx]; return true; }
    if (g_space == "deep") { deep_case(idx, cs); return true; }
    opts_case(idx, cs);
    return true;
}
static void run_case(uint64_t idx, Ctx& c) {
    Case cs;
    if (!make_case(idx, cs)) { c.count("pruned_equivalent"); return; }
    c.count("cases_executed");
    evaluate(cs, c);
    if (idx % 997 == 0) c.sample(case_json(cs));
}

int main(int argc, char** argv) {
    Args a(argc, argv);
    g_space = a.str("space", "opts");
    if (g_space == "leak") {
        const char* ao = getenv("ASAN_OPTIONS");
        if (!ao || !strstr(ao, "detect_leaks=1")) {  // LeakSanitizer is off in the default environment: re-exec with it on
            setenv("ASAN_OPTIONS", "detect_leaks=1:quarantine_size_mb=8:allocator_release_to_os_interval_ms=-1:abort_on_error=0", 1);
            execv("/proc/self/exe", argv);
            perror("execv"); return 2;
        }
        g_leak = true;
    }
    xml_init();
    g_guard = new GuardVfs();            // replace the plain VFS installed by xml_init()
    XMLPlatformUtils::fgFileMgr = g_guard;
    delete g_vfs; g_vfs = g_guard; g_net->vfs = g_guard;
    Runner R;
    R.name = g_space;
    std::string extra;
    if (g_space == "graph") {
        { std::string ts = a.str("tset", "full"); build_variants((int)a.num("files", 2), ts == "full" ? 2 : ts == "mid" ? 1 : 0, (int)a.num("rb", 1)); }
        R.total = graph_total();
        extra = "\"bounds\":{\"files\":" + std::to_string(G_files) + ",\"variants_per_file\":[";
        for (int i = 0; i < G_files; i++) extra += (i ? "," : "") + std::to_string(G_var[i].size());
        extra += "]}";
    } else if (g_space == "deep") {
        R.total = deep_total();
        extra = "\"bounds\":{\"files\":5,\"assignments\":" + std::to_string(R.total) + "}";
    } else if (g_space == "manual") {  // debugging aid: --a '<xml>' [--b ...] [--c ...] [--d ...]
        Case c; c.label = "manual"; g_strict = true;
        const char* keys[] = {"a", "b", "c", "d"};
        for (int i = 0; i < 4; i++) if (a.has(keys[i])) c.files.push_back({FPATH[i], a.str(keys[i])});
        D_cases.push_back(c); R.total = 1;
    } else if (g_space == "defects") {
        build_defects(); g_strict = true; R.total = D_cases.size();
        extra = "\"bounds\":{\"reproducers\":" + std::to_string(D_cases.size()) + "}";
    } else {
        build_catalogue();
        O_pairs = g_leak ? 0 : (int)a.num("pairs", 0);
        O_singles = a.num("singles", 1) != 0;
        R.total = g_leak ? leak_total() : opts_total();
        g_leak_selftest = a.has("leak-selftest");
        extra = "\"bounds\":{\"catalogue\":" + std::to_string(O_cat.size()) + ",\"bforms\":" + std::to_string(O_bforms.size()) + ",\"pairs\":" + std::to_string(O_pairs) + "}";
    }
    if (a.has("strict")) g_strict = a.num("strict") != 0;
    g_napi = (int)a.num("apis", 3);
    g_reuse = a.num("reuse", 1) != 0 && !g_leak;
    if (a.has("open-budget")) g_guard->budget = (uint64_t)a.num("open-budget");
    if (a.has("list-defects")) { for (auto& d : KNOWN_DEFECTS) printf("%s: %s\n", d.id, d.what); return 0; }
    R.fn = run_case;
    R.describe = [](uint64_t i) { Case cs; if (!make_case(i, cs)) return std::string("\"pruned\""); return case_json(cs); };
    R.extra_json = extra;
    return R.main_tail(a);
}
