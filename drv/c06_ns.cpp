// c06_ns - bounded-exhaustive exploration of namespace processing (property C06).
// One process runs a PLAN of parts: --space multi --parts "p1,p2,..." (or a single part the classic way: --space one --l1 mid ...)
//   one:<A>[:v11] | two:<A>:<B>[:v11] | three:<A>:<B>:<C> | sib:<A>:<B>:<C>
//                      products of per-element "shapes" (prefix x declaration subset x attributes x placement); A,B,C = shape alphabets, see lod()
//   ladder:quick|full  15..73 prefix declarations on one element / along a nesting chain / root x child, 31..130 attributes with collisions
//   build:<k>          DOM trees built through createElementNS/setAttributeNS/... (no parser), all programs of <= k steps
//   witness            the minimal repro of every KNOWN_DEFECTS entry, checked strictly
// Oracles: c06_model.hpp (own scoping stack, DOM L3 Appendix B lookups) and expat in namespace mode (XML 1.0 documents).
// --only <idx> replays one case verbosely, --print <idx> shows it, --disc 1 adds per-configuration discrepancy counters, --strict 1 disables KNOWN_DEFECTS.
#include "xv_xml.hpp"
#include "c06_model.hpp"
using namespace xv;
using namespace c06;

static const std::string U1 = "u1", U2 = "u2";

// ---------------------------------------------------------------------------------------------- shapes
struct Shape {
    std::string prefix;
    std::vector<AttrSpec> decls, attrs;
    int place = 0;  // 0: declarations first, 1: attributes first, 2: attr[0], declarations, attr[1]
    std::vector<AttrSpec> ordered() const {
        std::vector<AttrSpec> o;
        if (place == 0) { o = decls; o.insert(o.end(), attrs.begin(), attrs.end()); }
        else if (place == 1) { o = attrs; o.insert(o.end(), decls.begin(), decls.end()); }
        else { o.push_back(attrs[0]); o.insert(o.end(), decls.begin(), decls.end()); o.insert(o.end(), attrs.begin() + 1, attrs.end()); }
        return o;
    }
};
typedef std::vector<AttrSpec> ASet;

static const std::vector<AttrSpec> DECL = {
    {"xmlns", U1}, {"xmlns", U2}, {"xmlns", ""}, {"xmlns", XMLURI}, {"xmlns", XMLNSURI},
    {"xmlns:p", U1}, {"xmlns:p", U2}, {"xmlns:p", ""}, {"xmlns:p", XMLURI}, {"xmlns:p", XMLNSURI},
    {"xmlns:q", U1},
    {"xmlns:xml", XMLURI}, {"xmlns:xml", U1}, {"xmlns:xmlns", XMLNSURI}, {"xmlns:xmlns", U1}};
// all subsets of `pool` (indices into DECL) of size <= maxN whose attribute names are pairwise distinct, in index order
static std::vector<ASet> declsets(const std::vector<int>& pool, int maxN) {
    std::vector<ASet> out;
    std::vector<int> cur;
    std::function<void(size_t)> rec = [&](size_t from) {
        ASet s; for (int i : cur) s.push_back(DECL[i]);
        out.push_back(s);
        if ((int)cur.size() == maxN) return;
        for (size_t j = from; j < pool.size(); j++) {
            bool clash = false;
            for (int i : cur) if (DECL[i].qname == DECL[pool[j]].qname) clash = true;
            if (clash) continue;
            cur.push_back(pool[j]); rec(j + 1); cur.pop_back();
        }
    };
    rec(0);
    return out;
}
static const std::vector<int> ALLDECL = {0, 1, 2, 3, 4, 5, 6, 7, 8, 9, 10, 11, 12, 13, 14};
static const std::vector<int> GOODDECL = {0, 1, 5, 6, 10, 11};

static const AttrSpec AX = {"x", "1"}, APX = {"p:x", "2"}, AQX = {"q:x", "3"}, AXMLX = {"xml:x", "4"}, ARX = {"r:x", "5"}, ANS = {"xmlns:s", "v"}, APY = {"p:y", "6"};
static std::vector<ASet> attrsets(int level) {
    std::vector<ASet> o = {{}};
    if (level >= 1) for (auto& a : {AX, APX, AQX, AXMLX, ARX, ANS}) o.push_back({a});
    if (level >= 2)
        for (auto& p : std::vector<ASet>{{APX, AQX}, {AQX, APX}, {AX, APX}, {APX, AX}, {APX, APY}, {AXMLX, APX}, {APX, AXMLX}, {AQX, AX}, {ARX, APX}, {APX, ANS}}) o.push_back(p);
    return o;
}
static const std::vector<std::string> PFX6 = {"", "p", "q", "xml", "xmlns", "r"};

static std::vector<Shape> product(const std::vector<std::string>& pf, const std::vector<ASet>& ds, const std::vector<ASet>& as, int maxPlace) {
    std::vector<Shape> o;
    for (auto& p : pf) for (auto& d : ds) for (auto& a : as) {
        int places = (d.empty() || a.empty()) ? 1 : std::min<int>(maxPlace, a.size() >= 2 ? 3 : 2);
        for (int pl = 0; pl < places; pl++) { Shape s; s.prefix = p; s.decls = d; s.attrs = a; s.place = pl; o.push_back(s); }
    }
    return o;
}
static ASet pick(std::initializer_list<int> idx) { ASet s; for (int i : idx) s.push_back(DECL[i]); return s; }

static std::vector<Shape> lod(const std::string& name) {
    if (name == "full") return product(PFX6, declsets(ALLDECL, 2), attrsets(2), 3);
    if (name == "mid2") return product(PFX6, declsets(ALLDECL, 2), attrsets(1), 2);
    if (name == "mid") return product(PFX6, declsets(ALLDECL, 1), attrsets(1), 2);
    if (name == "small") return product({"", "p", "q"}, {{}, pick({0}), pick({2}), pick({5}), pick({6}), pick({7}), pick({10})}, {{}, {AX}, {APX}}, 1);
    if (name == "env") return product({""}, declsets(GOODDECL, 3), {{}}, 1);                   // every error-free environment with <= 3 declarations
    if (name == "envs") return product({""}, {{}, pick({0}), pick({5}), pick({10}), pick({0, 5}), pick({0, 6}), pick({5, 10}), pick({6, 10}), pick({0, 5, 10}), pick({1, 5, 10}), pick({0, 6, 10}), pick({5, 11})}, {{}}, 1);
    if (name == "env6") return product({""}, {{}, pick({0}), pick({5}), pick({0, 5}), pick({5, 10}), pick({0, 6, 10})}, {{}}, 1);
    if (name == "env4") return product({""}, {{}, pick({0, 5}), pick({5, 10}), pick({1, 6, 10})}, {{}}, 1);
    if (name == "leaf") return product(PFX6, {{}, pick({0}), pick({2}), pick({5}), pick({6}), pick({7}), pick({10}), pick({11})}, attrsets(1), 2);
    if (name == "attr2") return product({""}, declsets({0, 5, 6, 7, 10}, 2), attrsets(2), 3);   // <= 2 attributes incl. expanded-name collisions
    if (name == "midmod") return product({"", "p"}, {{}, pick({1}), pick({2}), pick({6}), pick({7}), pick({10}), pick({0, 5})}, {{}}, 1);
    if (name == "decl1") return product({""}, declsets(ALLDECL, 1), {{}}, 1);
    if (name == "use") return product(PFX6, {{}}, attrsets(1), 1);
    if (name == "use2") return product(PFX6, {{}}, attrsets(2), 1);
    fprintf(stderr, "unknown shape alphabet %s\n", name.c_str());
    exit(2);
}
static ElemSpec elem_of(const Shape& s, const std::string& local, bool text) {
    ElemSpec e; e.prefix = s.prefix; e.local = local; e.attrs = s.ordered(); e.text = text;
    return e;
}

// ---------------------------------------------------------------------------------------------- known defects
// Genuine library defects found by this check (see docs/c06.md).  A discrepancy matching one of these predicates is counted
// (known_defect_hits:<id>) instead of raised, so that the rest of the space is explored -- EXCEPT in --space witness, which
// enumerates the minimal repro document of every entry and checks it strictly (so the check keeps failing until the lead
// decides between a fix: commit and a known_findings.json entry).  Filled in below by known_defect().
struct Discrepancy { std::string kind, config, doc; int scanner = -1, api = -1; bool v11 = false; std::set<std::string> modelErrs; std::string fn, arg, observed; const REl* resolved = nullptr; };
static bool g_strict = false;   // witness space / --strict 1: KNOWN_DEFECTS not applied
static std::string known_defect(const Discrepancy& d);

// ---------------------------------------------------------------------------------------------- DOM comparison + lookups
static Opt opt16(const XMLCh* s) {
    if (!s) return Opt();
    std::string o; for (; *s; s++) o += (*s < 0x80) ? (char)*s : '?';
    return Opt(o);
}
struct X16opt {
    X16 x; bool has;
    X16opt(const Opt& o) : x(o.s), has(o.has) {}
    const XMLCh* p() const { return has ? x.p() : nullptr; }
};
static const std::vector<Opt> QPREFIX = {Opt(), Opt("p"), Opt("q"), Opt("r"), Opt("s"), Opt("xml"), Opt("xmlns")};
static const std::vector<Opt> QURI = {Opt(), Opt(""), Opt(U1), Opt(U2), Opt("v"), Opt(XMLURI), Opt(XMLNSURI)};

struct ApiCfg { int api; bool nsPrefixes; const char* name; };
static const ApiCfg APICFG[5] = {{SAX2, true, "SAX2+nsprefixes"}, {SAX2, false, "SAX2"}, {SAX1, false, "SAX1+ns"}, {DOM, false, "DOM"}, {DOMLS, false, "DOMLS"}};
static std::string errset(const std::set<std::string>& s) { std::string o; for (auto& e : s) o += (o.empty() ? "" : ",") + e; return o; }
static bool g_disc = false;
struct CaseInfo { std::string doc, config; int scanner = -1, api = -1; bool v11 = false; const std::set<std::string>* modelErrs = nullptr; const REl* resolved = nullptr; };

// discrepancies of one case are collected and emitted as ONE violation per (kind, defect) with the list of configurations
struct Pending { std::string kind, id, doc, version, extra; std::vector<std::string> configs; };
static std::vector<Pending> g_pending;
static void raise(Ctx& c, const CaseInfo& ci, const std::string& kind, const std::string& extra, const std::string& fn = "", const std::string& arg = "", const std::string& observed = "") {
    Discrepancy d; d.kind = kind; d.config = ci.config; d.doc = ci.doc; d.scanner = ci.scanner; d.api = ci.api; d.v11 = ci.v11; d.fn = fn; d.arg = arg; d.observed = observed;
    if (ci.modelErrs) d.modelErrs = *ci.modelErrs;
    d.resolved = ci.resolved;
    std::string id = known_defect(d);
    if (g_disc) c.count("disc:" + kind + ":" + (ci.scanner >= 0 ? ScnName[ci.scanner] : "-") + ":" + (ci.api >= 0 ? APICFG[ci.api].name : "-") + ":" + (ci.v11 ? "1.1" : "1.0") + ":" + (ci.modelErrs ? errset(*ci.modelErrs) : ""));
    if (!id.empty() && !g_strict) { c.count("known_defect_hits:" + id); return; }
    c.count("discrepancies");
    if (c.verbose) printf("--- %s [%s] %s\n    %s\n", kind.c_str(), ci.config.c_str(), ci.doc.c_str(), extra.c_str());
    std::string ver = ci.v11 ? "1.1" : "1.0";
    for (auto& p : g_pending) if (p.kind == kind && p.id == id && p.version == ver) { if (p.configs.empty() || p.configs.back() != ci.config) p.configs.push_back(ci.config); return; }
    g_pending.push_back({kind, id, ci.doc, ver, extra, {ci.config}});
}
static void flush_pending(Ctx& c) {
    for (auto& p : g_pending) {
        std::string cf; for (auto& s : p.configs) cf += (cf.empty() ? "" : ",") + jstr(s);
        c.violation(p.kind + (p.version == "1.1" ? "@1.1" : ""), "\"doc\":" + jstr(p.doc) + ",\"xml_version\":" + jstr(p.version) + (p.id.empty() ? "" : ",\"defect\":" + jstr(p.id)) + ",\"configs\":[" + cf + "]" + (p.extra.empty() ? "" : "," + p.extra));
    }
    g_pending.clear();
}

static void lookups(const DOMNode* x, const RN* r, const std::string& path, Ctx& c, const CaseInfo& ci) {
    for (auto& q : QPREFIX) {
        X16opt a(q);
        Opt got = opt16(x->lookupNamespaceURI(a.p())), exp = ref_lookupNamespaceURI(r, q);
        c.count("lookupNamespaceURI_calls");
        if (exp.has) c.count("lookupNamespaceURI_nonnull");
        if (got.has && got.s.empty() && !exp.has) c.count("lookupNamespaceURI_empty_string_for_null");
        if (!(got.empty() && exp.empty()) && !(got == exp))
            raise(c, ci, "dom-lookupNamespaceURI", "\"node\":" + jstr(path) + ",\"prefix\":" + jstr(q.show()) + ",\"expected\":" + jstr(exp.show()) + ",\"observed\":" + jstr(got.show()), "lookupNamespaceURI", q.show(), got.show());
    }
    { X16 e(""); (void)x->lookupNamespaceURI(e.p()); c.count("lookupNamespaceURI_empty_prefix_calls_not_compared"); }
    for (auto& q : QURI) {
        X16opt a(q);
        Opt got = opt16(x->lookupPrefix(a.p()));
        std::set<std::string> exp = ref_lookupPrefix(r, q);
        c.count("lookupPrefix_calls");
        if (!exp.empty()) c.count("lookupPrefix_nonnull");
        if (exp.size() > 1) c.count("lookupPrefix_several_acceptable");
        bool ok = exp.empty() ? !got.has : (got.has && exp.count(got.s));
        if (!ok) {
            std::string e = exp.empty() ? "null" : ""; for (auto& s : exp) e += (e.empty() ? "'" : "|'") + s + "'";
            raise(c, ci, "dom-lookupPrefix", "\"node\":" + jstr(path) + ",\"uri\":" + jstr(q.show()) + ",\"expected\":" + jstr(e) + ",\"observed\":" + jstr(got.show()), "lookupPrefix", q.show(), got.show());
        }
        bool gd = x->isDefaultNamespace(a.p()), ed = ref_isDefaultNamespace(r, q);
        c.count("isDefaultNamespace_calls");
        if (ed) c.count("isDefaultNamespace_true");
        if (gd != ed)
            raise(c, ci, "dom-isDefaultNamespace", "\"node\":" + jstr(path) + ",\"uri\":" + jstr(q.show()) + ",\"expected\":" + jstr(ed ? "true" : "false") + ",\"observed\":" + jstr(gd ? "true" : "false"), "isDefaultNamespace", q.show(), gd ? "true" : "false");
    }
}

static void field(Ctx& c, const CaseInfo& ci, const std::string& path, const char* what, const Opt& exp, const Opt& got) {
    if (exp == got) return;
    raise(c, ci, std::string("dom-node-") + what, "\"node\":" + jstr(path) + ",\"expected\":" + jstr(exp.show()) + ",\"observed\":" + jstr(got.show()), what, path, got.show());
}
static void walk(const DOMNode* x, const RN* r, const std::string& path, Ctx& c, const CaseInfo& ci) {
    c.count("dom_nodes_checked");
    int xt = x->getNodeType();
    if (xt != r->type) { raise(c, ci, "dom-node-type", "\"node\":" + jstr(path) + ",\"expected\":" + std::to_string(r->type) + ",\"observed\":" + std::to_string(xt)); return; }
    if (r->type == RN_ELEM || r->type == RN_ATTR) {
        field(c, ci, path, "nodeName", Opt(r->name), opt16(x->getNodeName()));
        field(c, ci, path, "namespaceURI", r->ns, opt16(x->getNamespaceURI()));
        field(c, ci, path, "prefix", r->prefix, opt16(x->getPrefix()));
        field(c, ci, path, "localName", r->local, opt16(x->getLocalName()));
    }
    if (r->type == RN_ATTR || r->type == RN_TEXT) field(c, ci, path, "nodeValue", Opt(r->value), opt16(x->getNodeValue()));
    // KNOWN_DEFECTS: lookup*/isDefaultNamespace on a DOMDocument without a document element dereference a null pointer
    // (DOMNodeImpl.cpp: getDocumentElement()->...).  Skipped unless strict (witness space), where it is pinned as a crash.
    lookups(x, r, path, c, ci);   // (documents without a root were skipped here while the null dereference in lookup* existed; repaired, so no guard)
    if (r->type == RN_ELEM) {
        DOMNamedNodeMap* am = x->getAttributes();
        XMLSize_t n = am ? am->getLength() : 0;
        if (n != r->attrs.size()) raise(c, ci, "dom-attr-count", "\"node\":" + jstr(path) + ",\"expected\":" + std::to_string(r->attrs.size()) + ",\"observed\":" + std::to_string(n));
        for (const RN* ra : r->attrs) {
            const DOMNode* xa = nullptr; int matches = 0;
            for (XMLSize_t i = 0; i < n; i++) {
                const DOMNode* cand = am->item(i);
                Opt nm = opt16(cand->getNodeName());
                if (nm.s == ra->name && opt16(cand->getLocalName()).has == ra->local.has) { xa = cand; matches++; }
            }
            if (matches != 1) { raise(c, ci, "dom-attr-missing", "\"node\":" + jstr(path + "/@" + ra->name) + ",\"matches\":" + std::to_string(matches)); continue; }
            if (((const DOMAttr*)xa)->getOwnerElement() != x) raise(c, ci, "dom-attr-owner", "\"node\":" + jstr(path + "/@" + ra->name));
            walk(xa, ra, path + "/@" + ra->name, c, ci);
        }
    }
    if (r->type == RN_ELEM || r->type == RN_DOC) {
        size_t i = 0;
        for (const DOMNode* k = x->getFirstChild(); k; k = k->getNextSibling(), i++) {
            if (i >= r->kids.size()) break;
            walk(k, r->kids[i], path + "/" + r->kids[i]->name + "[" + std::to_string(i) + "]", c, ci);
        }
        size_t xn = 0; for (const DOMNode* k = x->getFirstChild(); k; k = k->getNextSibling()) xn++;
        if (xn != r->kids.size()) raise(c, ci, "dom-child-count", "\"node\":" + jstr(path) + ",\"expected\":" + std::to_string(r->kids.size()) + ",\"observed\":" + std::to_string(xn));
    }
}

// ---------------------------------------------------------------------------------------------- parse-side check
static unsigned g_apis = 0x1f, g_scn = 0xf;
static bool g_v11all_get();
static bool g_expat = true;


static bool has_undecl(const ElemSpec& e) {
    for (auto& a : e.attrs) if (a.qname.compare(0, 6, "xmlns:") == 0 && a.value.empty()) return true;
    for (auto& k : e.kids) if (has_undecl(k)) return true;
    return false;
}

static void diff(Ctx& c, const CaseInfo& ci, const char* kind, const std::vector<std::string>& exp, const std::vector<std::string>& got) {
    int at = lines_first_diff(exp, got);
    if (at < 0) return;
    std::string e = at < (int)exp.size() ? exp[at] : "<end>", g = at < (int)got.size() ? got[at] : "<end>";
    raise(c, ci, kind, "\"at_line\":" + std::to_string(at) + ",\"expected\":" + jstr(e) + ",\"observed\":" + jstr(g), kind, e, g);
    if (c.verbose) printf("    expected:\n%s    observed:\n%s", join(exp).c_str(), join(got).c_str());
}

static void check_doc(const ElemSpec& root, Ctx& c) {
    bool undecl = has_undecl(root);
    if (undecl) c.count("docs_with_prefix_undeclaration");
    for (int v11 = 0; v11 < 2; v11++) {
        if (v11 && !undecl && !g_v11all_get()) continue;
        std::string doc = render_doc(root, v11 != 0);
        NsModel m; m.v11 = v11 != 0;
        REl r; m.elem(root, r);
        bool expectOk = m.errs.empty();
        c.count(v11 ? "docs_xml11" : "docs_xml10");
        c.count(expectOk ? "model_ok" : "model_error");
        if (!expectOk) { c.count(m.errs.size() == 1 ? "model_error_single_cause" : "model_error_several_causes"); for (auto& e : m.errs) c.count("model_err:" + e); if (m.errs.size() == 1) c.count("model_err_alone:" + *m.errs.begin()); }
        if (expectOk && undecl && v11) c.count("xml11_undeclaration_wellformed");
        CaseInfo ci; ci.doc = doc; ci.v11 = v11 != 0; ci.modelErrs = &m.errs; ci.resolved = &r;
        std::vector<std::string> vSax2On, vSax2Off, vSax1, vDom, vExpat;
        RTree rt;
        if (expectOk) {
            view(r, true, true, "?", vSax2On); vSax2On.push_back("DE");
            view(r, true, false, "?", vSax2Off); vSax2Off.push_back("DE");
            view(r, false, true, "?", vSax1); vSax1.push_back("DE");
            view(r, false, true, XMLNSURI, vDom); vDom.push_back("DE");
            vExpat = vSax2Off;
            build_rn(rt, r, rt.doc);
        }
        // ---- oracle 1: expat (Namespaces 1.0 only) must agree with the scoping-stack model; otherwise the harness is wrong somewhere
        if (!v11 && g_expat) {
            ExpatRef ref; ref.run(doc, true);
            c.count(ref.ok ? "expat_ok" : "expat_error");
            ci.config = "expat";
            if (ref.ok != expectOk)
                c.violation("harness-model-vs-expat-verdict", "\"doc\":" + jstr(doc) + ",\"model_errors\":" + jstr(errset(m.errs)) + ",\"expat\":" + jstr(ref.ok ? "ok" : ref.err));
            else if (ref.ok) {
                std::vector<std::string> ep = project(ref.d.lines, {"L"}, false);
                int at = lines_first_diff(vExpat, ep);
                if (at >= 0) c.violation("harness-model-vs-expat-content", "\"doc\":" + jstr(doc) + ",\"model\":" + jstr(at < (int)vExpat.size() ? vExpat[at] : "<end>") + ",\"expat\":" + jstr(at < (int)ep.size() ? ep[at] : "<end>"));
                else c.count("expat_content_agrees");
            }
        }
        // ---- the library
        ParseIO io; io.bytes = doc;
        for (int sc = 0; sc < 4; sc++) {
            if (!(g_scn & (1 << sc))) continue;
            for (int ai = 0; ai < 5; ai++) {
                if (!(g_apis & (1 << ai))) continue;
                Config cfg; cfg.api = APICFG[ai].api; cfg.scanner = sc; cfg.ns = true; cfg.nsPrefixes = APICFG[ai].nsPrefixes; cfg.val = 0;
                ci.config = std::string(APICFG[ai].name) + "/" + ScnName[sc]; ci.scanner = sc; ci.api = ai;
                DOMDocument* adopted = nullptr;
                ParseResult pr = parse_xerces(cfg, io, nullptr, cfg.api == DOM ? &adopted : nullptr);
                struct Rel { DOMDocument* d; ~Rel() { if (d) d->release(); } } rel{adopted};
                c.count("parses");
                if (!pr.exc.empty()) { raise(c, ci, pr.exc.compare(0, 7, "FOREIGN") == 0 ? "foreign-exception" : "exception", "\"exc\":" + jstr(pr.exc), "exception", "", pr.exc); continue; }
                bool accepted = pr.fatals == 0;
                if (accepted != expectOk) {
                    raise(c, ci, expectOk ? "namespace-wellformed-rejected" : "namespace-error-not-reported",
                          "\"model_errors\":" + jstr(errset(m.errs)) + ",\"xerces\":" + jstr(pr.errors.empty() ? "accepted without error" : pr.errors[0]), "verdict", errset(m.errs), accepted ? "accepted" : "rejected");
                    continue;
                }
                if (!accepted) { c.count("errors_reported_as_expected"); continue; }
                if (pr.errs) { raise(c, ci, "unexpected-nonfatal-error", "\"xerces\":" + jstr(pr.errors[0])); continue; }
                c.count("content_compared");
                std::vector<std::string> got = project(pr.d.lines, {"L"}, false);
                switch (ai) {
                case 0: diff(c, ci, "sax2-nsprefixes-events", vSax2On, got); break;
                case 1: diff(c, ci, "sax2-events", vSax2Off, got); break;
                case 2: diff(c, ci, "sax1-events", vSax1, got); break;
                case 3: diff(c, ci, "dom-dump", vDom, got); break;
                case 4: diff(c, ci, "domls-dump", vDom, got); break;
                }
                if (ai == 3) {
                    if (!adopted) { raise(c, ci, "dom-no-document", ""); continue; }
                    c.count("dom_trees_walked");
                    walk(adopted, rt.doc, "", c, ci);
                }
            }
        }
    }
}

// ---------------------------------------------------------------------------------------------- spaces
// One driver process runs a PLAN = list of parts (sub-spaces); the global case index is the concatenation of the parts' ranges.
// (Starting a sanitized process is expensive on this box, so the quick tier runs all its sub-spaces as one plan.)
struct Part {
    std::string name, kind;                 // kind: one|two|three|sib|ladder|witness|build
    std::vector<Shape> a, b, c;
    bool v11all = false, strict = false; int k = 3;
    std::vector<ElemSpec> docs; std::vector<std::string> labels;   // ladder / witness documents
    uint64_t total = 0, base = 0;
};
static std::vector<Part> PARTS;
static const Part* P = nullptr;
#define L1 (P->a)
#define L2 (P->b)
#define L3 (P->c)
#define g_space (P->kind)
static bool g_v11all = false;
static int g_k = 3;
static bool g_v11all_get() { return g_v11all; }
static uint64_t select_part(uint64_t idx) {   // sets the current part, returns the index local to it
    for (auto& p : PARTS) if (idx < p.base + p.total) { P = &p; g_v11all = p.v11all; g_strict = p.strict; g_k = p.k; return idx - p.base; }
    fprintf(stderr, "case index out of range\n"); exit(2);
}

static ElemSpec two_kids(ElemSpec root, const Shape& child, const std::string& local) {
    root.kids.push_back(elem_of(child, local, false));
    root.kids.push_back(elem_of(child, local, true));
    return root;
}
static ElemSpec case_one(uint64_t i) { return elem_of(L1[i / 2], "a", i % 2); }
static ElemSpec case_two(uint64_t i) { return two_kids(elem_of(L1[i / L2.size()], "a", false), L2[i % L2.size()], "b"); }
static ElemSpec case_three(uint64_t i) {
    const Shape& s3 = L3[i % L3.size()]; i /= L3.size();
    const Shape& s2 = L2[i % L2.size()]; i /= L2.size();
    ElemSpec root = elem_of(L1[i], "a", false);
    root.kids.push_back(two_kids(elem_of(s2, "b", false), s3, "c"));
    return root;
}
static ElemSpec case_sib(uint64_t i) {  // a declaration in the first child must not leak into its following sibling
    const Shape& s3 = L3[i % L3.size()]; i /= L3.size();
    bool text = i % 2; i /= 2;
    const Shape& s2 = L2[i % L2.size()]; i /= L2.size();
    ElemSpec root = elem_of(L1[i], "a", false);
    root.kids.push_back(elem_of(s2, "b", text));
    root.kids.push_back(elem_of(s3, "c", false));
    return root;
}

// ladders: thresholds read from the code: ElemStack/WFElemStack prefix map 16,20,25,31,38,47,58,72 (x1.25), element stack 32,
// SAX2 fPrefixes stack 30 / fPrefixCounts 10, attribute vectors 32, hashed duplicate check above 100 attributes
static void init_ladder(bool g_ladder_quick, std::vector<ElemSpec>& LADDER, std::vector<std::string>& LADDER_LABEL) {
    auto N = [](int i) { return "n" + std::to_string(i); };
    std::vector<int> sizes = {15, 16, 17, 20, 21, 25, 26, 29, 30, 31, 32, 33, 38, 39, 47, 48, 58, 59, 64, 65, 66, 72, 73};
    if (g_ladder_quick) sizes = {16, 17, 31, 32, 33, 64, 65, 66};
    for (int n : sizes) {
        for (int variant = 0; variant < 4; variant++) {  // one element, n declarations; uses first/middle/last prefix before or after the declarations
            ElemSpec e; e.local = "a"; e.prefix = variant & 1 ? N(n - 1) : N(0); e.text = variant & 2;
            std::vector<AttrSpec> uses = {{N(0) + ":x", "1"}, {N(n / 2) + ":y", "2"}, {N(n - 1) + ":z", "3"}};
            if (variant & 1) e.attrs = uses;
            for (int i = 0; i < n; i++) e.attrs.push_back({"xmlns:" + N(i), "urn:" + std::to_string(i % 7 == 3 ? 3 : i)});  // some prefixes share a namespace name
            if (!(variant & 1)) e.attrs.insert(e.attrs.end(), uses.begin(), uses.end());
            LADDER.push_back(e); LADDER_LABEL.push_back("one-element-" + std::to_string(n) + "-decls-v" + std::to_string(variant));
        }
        for (int variant = 0; variant < 2; variant++) {   // every declared prefix is used (an entry lost or duplicated while the map grows cannot hide)
            ElemSpec e; e.local = "a"; e.prefix = N(n / 3);
            std::vector<AttrSpec> uses;
            for (int i = 0; i < n; i++) uses.push_back({N(i) + ":a" + std::to_string(i), std::to_string(i)});
            if (variant) e.attrs = uses;
            for (int i = 0; i < n; i++) e.attrs.push_back({"xmlns:" + N(i), "urn:" + std::to_string(i)});
            if (!variant) e.attrs.insert(e.attrs.end(), uses.begin(), uses.end());
            LADDER.push_back(e); LADDER_LABEL.push_back("one-element-" + std::to_string(n) + "-decls-all-used-v" + std::to_string(variant));
        }
        {   // unbound prefix next to n bound ones (lookup must walk the whole grown map and still fail)
            ElemSpec e; e.local = "a";
            for (int i = 0; i < n; i++) e.attrs.push_back({"xmlns:" + N(i), "urn:" + std::to_string(i)});
            e.attrs.push_back({N(n) + ":x", "1"});
            LADDER.push_back(e); LADDER_LABEL.push_back("one-element-" + std::to_string(n) + "-decls-unbound");
        }
        {   // colliding expanded names through the last two declared prefixes
            ElemSpec e; e.local = "a";
            for (int i = 0; i < n; i++) e.attrs.push_back({"xmlns:" + N(i), i >= n - 2 ? "urn:same" : "urn:" + std::to_string(i)});
            e.attrs.push_back({N(n - 2) + ":x", "1"}); e.attrs.push_back({N(n - 1) + ":x", "2"});
            LADDER.push_back(e); LADDER_LABEL.push_back("one-element-" + std::to_string(n) + "-decls-collision");
        }
        for (int variant = 0; variant < 2; variant++) {  // chain of n nested elements, one prefix (and every third level a default namespace) each; the leaf uses outermost/middle/innermost
            ElemSpec leaf; leaf.local = "z"; leaf.prefix = variant ? N(0) : N(n - 1); leaf.text = variant;
            leaf.attrs = {{N(0) + ":x", "1"}, {N(n / 2) + ":y", "2"}, {N(n - 1) + ":z", "3"}};
            if (!variant) { leaf.attrs.clear(); for (int i = 0; i < n; i++) leaf.attrs.push_back({N(i) + ":a" + std::to_string(i), std::to_string(i)}); }   // all prefixes of the chain
            ElemSpec cur = leaf;
            for (int i = n - 1; i >= 0; i--) {
                ElemSpec e; e.local = "e" + std::to_string(i % 3); e.prefix = (i % 2) ? N(i) : "";
                e.attrs.push_back({"xmlns:" + N(i), "urn:" + std::to_string(i)});
                if (i % 3 == 0) e.attrs.push_back({"xmlns", i % 6 == 0 ? "urn:d" + std::to_string(i) : ""});
                if (variant && i % 5 == 4) e.attrs.push_back({"xmlns:" + N(0), "urn:shadow" + std::to_string(i)});   // re-declaration deep inside
                e.kids.push_back(cur);
                cur = e;
            }
            LADDER.push_back(cur); LADDER_LABEL.push_back("chain-" + std::to_string(n) + "-v" + std::to_string(variant));
        }
    }
    for (auto nm : std::vector<std::pair<int, int>>{{16, 16}, {17, 1}, {16, 17}, {33, 33}, {66, 66}, {31, 32}}) {  // n on the root, m on the child
        ElemSpec root; root.local = "a";
        for (int i = 0; i < nm.first; i++) root.attrs.push_back({"xmlns:" + N(i), "urn:" + std::to_string(i)});
        ElemSpec kid; kid.local = "b"; kid.prefix = N(nm.first - 1);
        for (int i = 0; i < nm.second; i++) kid.attrs.push_back({"xmlns:m" + std::to_string(i), "urn:m" + std::to_string(i)});
        kid.attrs.push_back({N(0) + ":x", "1"}); kid.attrs.push_back({"m" + std::to_string(nm.second - 1) + ":x", "2"});
        ElemSpec kid2; kid2.local = "c"; kid2.prefix = "m0";  // out of scope again
        for (int leak = 0; leak < 2; leak++) {
            ElemSpec r2 = root; r2.kids.push_back(kid); if (leak) r2.kids.push_back(kid2);
            LADDER.push_back(r2); LADDER_LABEL.push_back("root-" + std::to_string(nm.first) + "-child-" + std::to_string(nm.second) + (leak ? "-sibling-out-of-scope" : ""));
        }
    }
    std::vector<int> asizes = {31, 32, 33, 99, 100, 101, 102, 103, 130};
    if (g_ladder_quick) asizes = {33, 100, 101, 102};
    for (int n : asizes) {  // many ordinary attributes; p and q are bound to the same name on the parent
        for (int variant = 0; variant < 6; variant++) {
            ElemSpec root; root.local = "a"; root.attrs = {{"xmlns:p", "urn:same"}, {"xmlns:q", "urn:same"}, {"xmlns:o", "urn:other"}};
            ElemSpec e; e.local = "b";
            for (int i = 0; i < n; i++) e.attrs.push_back({"a" + std::to_string(i), "v"});
            int i1 = 0, i2 = n - 1;
            if (variant == 1) { i1 = 0; i2 = 1; } else if (variant == 2) { i1 = n / 2; i2 = n - 1; } else if (variant == 3) { i1 = n - 2; i2 = n - 1; } else if (variant == 4) { i1 = 0; i2 = n / 2; }
            e.attrs[i1] = {"p:x", "1"};
            e.attrs[i2] = {variant == 5 ? "o:x" : "q:x", "2"};   // variant 5: different namespace name, no collision
            root.kids.push_back(e);
            LADDER.push_back(root); LADDER_LABEL.push_back("attrs-" + std::to_string(n) + (variant == 5 ? "-no-collision" : "-collision-" + std::to_string(i1) + "-" + std::to_string(i2)));
        }
    }
}

// witness documents of the KNOWN_DEFECTS list (strict)
static std::vector<ElemSpec> WITNESS;
static std::vector<std::string> WITNESS_LABEL;
static std::vector<uint64_t> WITNESS_PROGRAMS;   // builder programs (indices into the --space build enumeration)
static void init_witness();

// ---------------------------------------------------------------------------------------------- builder space
struct BOp { int kind; const char* uri; const char* name; const char* value; const char* label; };
enum { O_ENS, O_EL1, O_ANS, O_AL1, O_TEXT, O_UP, O_SETPREFIX };
static const char* XNS = "http://www.w3.org/2000/xmlns/";
static const char* XML_ = "http://www.w3.org/XML/1998/namespace";
static const std::vector<BOp> OPS = {
    {O_ENS, nullptr, "a", nullptr, "createElementNS(null,a)"}, {O_ENS, "u1", "a", nullptr, "createElementNS(u1,a)"}, {O_ENS, "u2", "a", nullptr, "createElementNS(u2,a)"},
    {O_ENS, "u1", "p:a", nullptr, "createElementNS(u1,p:a)"}, {O_ENS, "u2", "p:a", nullptr, "createElementNS(u2,p:a)"}, {O_ENS, "u1", "q:a", nullptr, "createElementNS(u1,q:a)"},
    {O_ENS, XML_, "xml:a", nullptr, "createElementNS(XML,xml:a)"},
    {O_EL1, nullptr, "a", nullptr, "createElement(a)"}, {O_EL1, nullptr, "p:a", nullptr, "createElement(p:a)"},
    {O_ANS, XNS, "xmlns", "u1", "setAttributeNS(XMLNS,xmlns,u1)"}, {O_ANS, XNS, "xmlns", "u2", "setAttributeNS(XMLNS,xmlns,u2)"}, {O_ANS, XNS, "xmlns", "", "setAttributeNS(XMLNS,xmlns,'')"},
    {O_ANS, XNS, "xmlns:p", "u1", "setAttributeNS(XMLNS,xmlns:p,u1)"}, {O_ANS, XNS, "xmlns:p", "u2", "setAttributeNS(XMLNS,xmlns:p,u2)"}, {O_ANS, XNS, "xmlns:q", "u1", "setAttributeNS(XMLNS,xmlns:q,u1)"},
    {O_ANS, XNS, "xmlns:p", "", "setAttributeNS(XMLNS,xmlns:p,'')"},
    {O_ANS, "u1", "p:x", "1", "setAttributeNS(u1,p:x)"}, {O_ANS, "u2", "q:x", "1", "setAttributeNS(u2,q:x)"}, {O_ANS, nullptr, "x", "1", "setAttributeNS(null,x)"},
    {O_AL1, nullptr, "xmlns", "u1", "setAttribute(xmlns,u1)"}, {O_AL1, nullptr, "xmlns:p", "u2", "setAttribute(xmlns:p,u2)"},
    {O_TEXT, nullptr, nullptr, "t", "appendChild(text)"}, {O_UP, nullptr, nullptr, nullptr, "cursor=parent"}, {O_SETPREFIX, nullptr, "q", nullptr, "setPrefix(q)"}};
static std::string program_text(uint64_t idx) {
    std::string o;
    for (int t : word_at(idx, OPS.size(), g_k)) o += std::string(o.empty() ? "" : "; ") + OPS[t].label;
    return o;
}
static void run_build(uint64_t idx, Ctx& c) {
    std::vector<int> w = word_at(idx, OPS.size(), g_k);
    CaseInfo ci; ci.doc = program_text(idx); ci.config = "builder";
    g_pending.clear();
    static const XMLCh core[] = {'C', 'o', 'r', 'e', 0};
    DOMImplementation* impl = DOMImplementationRegistry::getDOMImplementation(core);
    DOMDocument* doc = impl->createDocument();
    struct Rel { DOMDocument* d; ~Rel() { d->release(); } } rel{doc};
    RTree rt;
    DOMNode* cur = doc; RN* rcur = rt.doc;
    auto find_attr = [](RN* e, bool nsAttr, const Opt& ns, const std::string& key) -> RN* {
        for (RN* a : e->attrs) {
            if (nsAttr) { if (a->local.has && a->local.s == key && a->ns == ns) return a; }
            else if (a->name == key) return a;
        }
        return nullptr;
    };
    try {
        for (int t : w) {
            const BOp& op = OPS[t];
            bool legal = true;
            switch (op.kind) {
            case O_ENS: case O_EL1: {
                if (rcur->type == RN_DOC && rt.docElem()) { legal = false; break; }
                RN* n = rt.make(RN_ELEM); n->name = op.name; n->parent = rcur;
                if (op.kind == O_ENS) {
                    std::string q = op.name; size_t col = q.find(':');
                    if (col != std::string::npos) n->prefix = Opt(q.substr(0, col));
                    n->local = Opt(col == std::string::npos ? q : q.substr(col + 1));
                    if (op.uri) n->ns = Opt(op.uri);
                }
                rcur->kids.push_back(n); rcur = n;
                DOMElement* e = op.kind == O_ENS ? doc->createElementNS(op.uri ? X16(op.uri).p() : nullptr, X16(op.name).p()) : doc->createElement(X16(op.name).p());
                cur->appendChild(e); cur = e;
                break;
            }
            case O_ANS: case O_AL1: {
                if (rcur->type != RN_ELEM) { legal = false; break; }
                std::string q = op.name; size_t col = q.find(':');
                std::string local = col == std::string::npos ? q : q.substr(col + 1);
                // mixing a DOM Level 1 and a namespace-aware attribute of the same nodeName on one element is left alone (documented as unpredictable)
                RN* sameName = find_attr(rcur, false, Opt(), q);
                if (sameName && sameName->local.has != (op.kind == O_ANS)) { legal = false; c.count("builder_mixed_level_attr_skipped"); break; }
                RN* a = op.kind == O_ANS ? find_attr(rcur, true, op.uri ? Opt(op.uri) : Opt(), local) : sameName;
                if (!a) {
                    a = rt.make(RN_ATTR); a->parent = rcur; a->name = q; rcur->attrs.push_back(a);
                    if (op.kind == O_ANS) { a->local = Opt(local); if (col != std::string::npos) a->prefix = Opt(q.substr(0, col)); if (op.uri) a->ns = Opt(op.uri); }
                }
                a->value = op.value;
                if (op.kind == O_ANS) ((DOMElement*)cur)->setAttributeNS(op.uri ? X16(op.uri).p() : nullptr, X16(op.name).p(), X16(op.value).p());
                else ((DOMElement*)cur)->setAttribute(X16(op.name).p(), X16(op.value).p());
                break;
            }
            case O_TEXT: {
                if (rcur->type != RN_ELEM) { legal = false; break; }
                RN* n = rt.make(RN_TEXT); n->name = "#text"; n->value = "t"; n->parent = rcur; rcur->kids.push_back(n);
                cur->appendChild(doc->createTextNode(X16("t").p()));
                break;
            }
            case O_UP:
                if (rcur->type == RN_DOC) { legal = false; break; }
                rcur = rcur->parent; cur = cur->getParentNode();
                break;
            case O_SETPREFIX:
                if (rcur->type != RN_ELEM || !rcur->ns.has || !rcur->local.has) { legal = false; break; }
                rcur->prefix = Opt(op.name); rcur->name = std::string(op.name) + ":" + rcur->local.s;
                cur->setPrefix(X16(op.name).p());
                break;
            }
            if (!legal) { c.count("builder_programs_with_inapplicable_step"); return; }
        }
    } catch (const DOMException& e) {
        raise(c, ci, "builder-unexpected-DOMException", "\"code\":" + std::to_string((int)e.code));
        flush_pending(c);
        return;
    }
    c.count("builder_programs_checked");
    if (!rt.docElem()) c.count("builder_documents_without_root");
    walk(doc, rt.doc, "", c, ci);
    flush_pending(c);
    if (idx % 4001 == 0) c.sample("{\"program\":" + jstr(ci.doc) + "}");
}

// ---------------------------------------------------------------------------------------------- KNOWN_DEFECTS
// which scanners miss which namespace constraint (bit = scanner index IG=1, WF=2, DG=4, SG=8)
struct Missed { const char* err; unsigned scanners; bool onlyV11; const char* id; };
static const Missed MISSED[] = {
    {"xml-uri-other-prefix", 2, false, "wf-scanner-reserved-namespace-name-bound-to-prefix"},
    {"xmlns-uri-bound-to-prefix", 2, false, "wf-scanner-reserved-namespace-name-bound-to-prefix"},
    {"undeclared-prefix-1.1-attr", 15, true, "xml11-undeclared-prefix-on-attribute-accepted"},
    {"xmlns-prefix-on-element", 1 | 4 | 8, false, "xmlns-as-element-prefix-accepted"},
};
// true iff every pair of attributes with colliding expanded names in the tree sits on an element with more than 100 attributes
// and has the element's LAST attribute as its second member (and there is at least one such pair)
static bool only_hashed_last_collisions(const REl& e, int& pairs) {
    for (size_t j = 0; j < e.attrs.size(); j++) for (size_t i = 0; i < j; i++) {
        const RAttr &a = e.attrs[i], &b = e.attrs[j];
        if (a.isDecl || b.isDecl || a.hasNs != b.hasNs || a.uri != b.uri || a.local != b.local) continue;
        pairs++;
        if (e.attrs.size() <= 100 || j != e.attrs.size() - 1) return false;
    }
    for (auto& k : e.kids) if (!only_hashed_last_collisions(k, pairs)) return false;
    return true;
}
static std::string known_defect(const Discrepancy& d) {
    if (d.kind == "namespace-error-not-reported" && d.scanner == WF && d.modelErrs.size() == 1 && d.modelErrs.count("dup-expanded-attr") && d.resolved) {
        int pairs = 0;
        if (only_hashed_last_collisions(*d.resolved, pairs) && pairs > 0) return "wf-scanner-hashed-duplicate-check-skips-last-attribute";
    }
    // every namespace error of the document is one that this scanner is known not to report
    std::string id;
    bool allMissed = !d.modelErrs.empty() && d.scanner >= 0;
    for (auto& e : d.modelErrs) {
        bool hit = false;
        for (auto& m : MISSED)
            if (e == m.err && (m.scanners & (1u << d.scanner)) && (!m.onlyV11 || d.v11)) { hit = true; if (id.empty()) id = m.id; }
        if (!hit) allMissed = false;
    }
    if (allMissed && d.kind == "namespace-error-not-reported") return id;
    // ... and the DOM builder then trips over the un-namespaced prefixed attribute: createAttributeNS(null, "p:x") -> NAMESPACE_ERR escapes from parse()
    if (allMissed && d.kind == "exception" && d.observed == "DOMException:14" && d.modelErrs.count("undeclared-prefix-1.1-attr")) return "xml11-undeclared-prefix-on-attribute-accepted";
    // lookupPrefix("") answers with a prefix whose declaration attribute has an empty value (xmlns:p="")
    if (d.kind == "dom-lookupPrefix" && d.arg == "''" && d.observed != "null") return "lookupPrefix-empty-string-finds-undeclared-prefix";
    return "";
}
static void add_witness(const std::string& label, const ElemSpec& e) { WITNESS.push_back(e); WITNESS_LABEL.push_back(label); }
static void init_witness() {
    auto el = [](const std::string& prefix, const std::string& local, std::vector<AttrSpec> attrs) { ElemSpec e; e.prefix = prefix; e.local = local; e.attrs = attrs; return e; };
    add_witness("wf-scanner-reserved-namespace-name-bound-to-prefix", el("", "a", {{"xmlns:p", XMLURI}}));
    add_witness("wf-scanner-reserved-namespace-name-bound-to-prefix", el("", "a", {{"xmlns:p", XMLNSURI}}));
    add_witness("xml11-undeclared-prefix-on-attribute-accepted", el("", "a", {{"xmlns:p", ""}, {"p:x", "1"}}));
    add_witness("xmlns-as-element-prefix-accepted", el("xmlns", "a", {}));
    WITNESS_PROGRAMS.push_back(0);   // the empty program: DOMImplementation::createDocument() and nothing else
    {
        ElemSpec root = el("", "a", {{"xmlns:p", "urn:same"}, {"xmlns:q", "urn:same"}}), b = el("", "b", {{"p:x", "1"}});
        for (int i = 1; i < 100; i++) b.attrs.push_back({"a" + std::to_string(i), "v"});
        b.attrs.push_back({"q:x", "2"});   // 101 attributes, the colliding one last
        root.kids.push_back(b);
        add_witness("wf-scanner-hashed-duplicate-check-skips-last-attribute", root);
    }
    add_witness("lookupPrefix-empty-string-finds-undeclared-prefix", el("", "a", {{"xmlns:p", ""}}));
}

// ---------------------------------------------------------------------------------------------- main
static ElemSpec case_local(uint64_t i) {   // i is local to the current part P
    if (g_space == "one") return case_one(i);
    if (g_space == "two") return case_two(i);
    if (g_space == "three") return case_three(i);
    if (g_space == "sib") return case_sib(i);
    if (g_space == "ladder") return P->docs[i];
    return WITNESS[i - WITNESS_PROGRAMS.size()];
}
static std::string describe_case(uint64_t idx) {
    uint64_t i = select_part(idx);
    std::string head = "{\"part\":" + jstr(P->name) + ",\"local_index\":" + std::to_string(i) + ",";
    if (g_space == "build") return head + "\"program\":" + jstr(program_text(i)) + "}";
    if (g_space == "ladder") return head + "\"label\":" + jstr(P->labels[i]) + "}";
    if (g_space == "witness") {
        if (i < WITNESS_PROGRAMS.size()) return head + "\"defect\":\"document-without-root-lookup-null-deref\",\"program\":" + jstr("createDocument(); " + program_text(WITNESS_PROGRAMS[i]) + "; doc->lookupNamespaceURI(null)") + "}";
        return head + "\"defect\":" + jstr(WITNESS_LABEL[i - WITNESS_PROGRAMS.size()]) + ",\"doc\":" + jstr(render_doc(case_local(i), false).substr(0, 300)) + "}";
    }
    return head + "\"doc\":" + jstr(render_doc(case_local(i), false).substr(0, 2000)) + "}";
}
static void run_case(uint64_t idx, Ctx& c) {
    uint64_t i = select_part(idx);
    c.count("cases:" + P->name);
    if (g_space == "build") { run_build(i, c); return; }
    if (g_space == "witness" && i < WITNESS_PROGRAMS.size()) { run_build(WITNESS_PROGRAMS[i], c); return; }   // first: a crash loses only this worker's *earlier* cases
    ElemSpec root = case_local(i);
    g_pending.clear();
    check_doc(root, c);
    flush_pending(c);
    if (idx % 2003 == 0) c.sample("{\"part\":" + jstr(P->name) + ",\"doc\":" + jstr(render_doc(root, false).substr(0, 300)) + "}");
}

// part syntax: one:<l1>[:v11]  two:<l1>:<l2>[:v11]  three:<l1>:<l2>:<l3>  sib:<l1>:<l2>:<l3>  ladder:quick|full  witness  build:<k>
static Part make_part(const std::string& spec) {
    std::vector<std::string> f; size_t i = 0;
    while (i <= spec.size()) { size_t j = spec.find(':', i); if (j == std::string::npos) j = spec.size(); f.push_back(spec.substr(i, j - i)); i = j + 1; }
    Part p; p.name = spec; p.kind = f[0];
    if (!f.empty() && f.back() == "v11") { p.v11all = true; f.pop_back(); }
    auto need = [&](size_t n) { if (f.size() != n) { fprintf(stderr, "bad part %s\n", spec.c_str()); exit(2); } };
    if (p.kind == "one") { need(2); p.a = lod(f[1]); p.total = p.a.size() * 2; }
    else if (p.kind == "two") { need(3); p.a = lod(f[1]); p.b = lod(f[2]); p.total = p.a.size() * p.b.size(); }
    else if (p.kind == "three") { need(4); p.a = lod(f[1]); p.b = lod(f[2]); p.c = lod(f[3]); p.total = p.a.size() * p.b.size() * p.c.size(); }
    else if (p.kind == "sib") { need(4); p.a = lod(f[1]); p.b = lod(f[2]); p.c = lod(f[3]); p.total = p.a.size() * p.b.size() * 2 * p.c.size(); }
    else if (p.kind == "ladder") { need(2); init_ladder(f[1] == "quick", p.docs, p.labels); p.total = p.docs.size(); }
    else if (p.kind == "witness") { need(1); p.strict = true; if (WITNESS.empty()) init_witness(); p.total = WITNESS.size() + WITNESS_PROGRAMS.size(); }
    else if (p.kind == "build") { need(2); p.k = atoi(f[1].c_str()); p.total = words_upto(OPS.size(), p.k); }
    else { fprintf(stderr, "unknown part kind in %s\n", spec.c_str()); exit(2); }
    return p;
}

int main(int argc, char** argv) {
    Args a(argc, argv);
    std::string space = a.str("space", "one");
    g_apis = (unsigned)a.num("apis", 0x1f);
    g_scn = (unsigned)a.num("scanners", 0xf);
    g_expat = a.num("expat", 1) != 0;
    g_disc = a.num("disc", 0) != 0;
    // the plan: either --space multi --parts "p1,p2,..." or one part given the classic way
    std::string plan;
    std::string v11 = a.num("v11all", 0) ? ":v11" : "";
    if (space == "multi") plan = a.str("parts", "");
    else if (space == "one") plan = "one:" + a.str("l1", "full") + v11;
    else if (space == "two") plan = "two:" + a.str("l1", "env") + ":" + a.str("l2", "mid") + v11;
    else if (space == "three") plan = "three:" + a.str("l1", "envs") + ":" + a.str("l2", "midmod") + ":" + a.str("l3", "mid");
    else if (space == "sib") plan = "sib:" + a.str("l1", "env") + ":" + a.str("l2", "decl1") + ":" + a.str("l3", "use");
    else if (space == "ladder") plan = "ladder:" + a.str("ladder", "full");
    else if (space == "witness") plan = "witness";
    else if (space == "build") plan = "build:" + std::to_string(a.num("k", 3));
    else { fprintf(stderr, "unknown space\n"); return 2; }
    {
        size_t i = 0;
        while (i < plan.size()) { size_t j = plan.find(',', i); if (j == std::string::npos) j = plan.size(); if (j > i) PARTS.push_back(make_part(plan.substr(i, j - i))); i = j + 1; }
    }
    if (PARTS.empty()) { fprintf(stderr, "empty plan\n"); return 2; }
    uint64_t total = 0;
    std::string pj;
    for (auto& p : PARTS) {
        p.base = total; total += p.total;
        if (a.num("strict", 0)) p.strict = true;
        pj += (pj.empty() ? "" : ",") + jstr(p.name) + ":{\"cases\":" + std::to_string(p.total) + ",\"l1\":" + std::to_string(p.a.size()) + ",\"l2\":" + std::to_string(p.b.size()) + ",\"l3\":" + std::to_string(p.c.size()) + "}";
    }
    xml_init();
    Runner R;
    R.name = space == "multi" ? "multi" : PARTS[0].kind;
    R.total = total;
    R.fn = run_case;
    R.describe = describe_case;
    R.extra_json = "\"bounds\":{\"parts\":{" + pj + "},\"builder_ops\":" + std::to_string(OPS.size()) + "}";
    if (a.has("print")) { std::string d = describe_case((uint64_t)a.num("print")); printf("%s\n", d.c_str()); return 0; }
    return R.main_tail(a);
}
