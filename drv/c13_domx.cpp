// c13_domx.cpp - explicit-state explorer for property C13 (DOM mutation keeps a well-formed tree equal to a reference DOM).
//
// state      = operation history replayed from scratch on fresh DOM documents (live DOM objects cannot be copied)
// search     = BFS by depth; the frontier of each depth is sharded over the Runner's workers (case = frontier state, a case expands
//              all successors of its state); successors are deduplicated by a 128-bit hash of the canonical key of the reached forest
// oracle     = reference DOM (c13_ref.hpp) in lock-step + structural invariants + "exception => unchanged key"
// reporting  = every discrepancy is classified into a kind slug "<op>:<expected>:<observed>"; the run reports the minimal
//              (shallowest, then first in enumeration order) instance of every kind as one violation.
//
// Modes:  --depth D [--alphabet full]      all histories of length <= D over the full alphabet
//         --fix 1 --active "1,2,3,..."     fixpoint (all reachable forests) over the node-creation-free structural sub-alphabet,
//                                          operands restricted to the listed node ids (+ null)
//         --only <case>                    replay one reported violation (case encodes the history)
//         --history "i,j,k"                replay a history given as op indices, verbose
//         --probe 1                        development aid: run every operation of the initial state in a forked sandbox
#include "c13_impl.hpp"

#include <unordered_set>

using namespace c13;
using namespace xv;

// ------------------------------------------------------------------------------------------------ hashing
struct H128 {
    uint64_t a = 0, b = 0;
    bool operator==(const H128& o) const { return a == o.a && b == o.b; }
    bool operator<(const H128& o) const { return a != o.a ? a < o.a : b < o.b; }
};
struct H128Hash { size_t operator()(const H128& h) const { return (size_t)(h.a ^ (h.b * 0x9E3779B97F4A7C15ULL)); } };
static H128 hash128(const std::string& s) {
    H128 h;
    h.a = fnv(s);
    uint64_t x = 0x243F6A8885A308D3ULL;
    for (unsigned char c : s) { x = (x ^ c) * 0xFF51AFD7ED558CCDULL; x ^= x >> 29; }
    x ^= x >> 33; x *= 0xC4CEB9FE1A85EC53ULL; x ^= x >> 33;
    h.b = x;
    return h;
}
static std::string hex128(const H128& h) { char b[40]; snprintf(b, sizeof b, "%016llx%016llx", (unsigned long long)h.a, (unsigned long long)h.b); return b; }

// ------------------------------------------------------------------------------------------------ alphabet
enum { ALPHA_FULL = 0, ALPHA_STRUCT = 1, ALPHA_RECYCLE = 2 };   // RECYCLE: setUserData / release / cloneNode / removeChild / importNode only (deep, narrow: node storage reuse)
static int g_alpha = ALPHA_FULL;
static std::vector<char> g_active;  // ALPHA_STRUCT: operand restriction (empty = all)
static const int N_ORIG = 12;

static bool g_reduced = false;      // representative ref/old operands for insertBefore / replaceChild (last layer of the thorough tier)
static bool isActive(int id) { return g_active.empty() || (id < (int)g_active.size() && g_active[id]); }

static void genOps(const RDom& d, std::vector<Opn>& out) {
    out.clear();
    std::vector<int> live, docs, attrs;
    for (size_t i = 0; i < d.n.size(); i++) if (d.n[i].live && (g_alpha == ALPHA_FULL || isActive((int)i))) live.push_back((int)i);
    std::vector<int> withNull = live; withNull.push_back(-1);
    for (int i : live) { if (d.n[i].type == DOC) docs.push_back(i); if (d.n[i].type == ATTR) attrs.push_back(i); }
    auto add = [&](int code, int t, int a = -1, int b = -1, int v = 0, int w = 0) { Opn o; o.code = code; o.t = t; o.a = a; o.b = b; o.v = v; o.w = w; out.push_back(o); };
    if (g_alpha == ALPHA_RECYCLE) {
        // a released node's storage is handed to the next node of the same kind: histories annotate, detach, release and create again
        for (int t : live) {
            const RNode& T = d.n[t];
            for (int a : live) if (d.n[a].parent == t) add(OP_REMOVE, t, a);
            add(OP_CLONE, t, -1, -1, 0);
            for (int v = 0; v < 2; v++) add(OP_USERDATA, t, -1, -1, v);
            add(OP_RELEASE, t);
            if (T.type == DOC) for (int a : live) if (d.n[a].type == EL || d.n[a].type == TEXT) add(OP_IMPORT, t, a, -1, 0);
        }
        return;
    }
    for (int t : live) {
        const RNode& T = d.n[t];
        for (int a : withNull) add(OP_APPEND, t, a);
        auto refs = [&](int a) {
            // full: every live node and null.  reduced: null, every child of t, newChild itself, t itself, and the lowest-numbered other node
            // (all other non-children are equivalent for the specification: NOT_FOUND_ERR unless an earlier check fires)
            if (!g_reduced) return withNull;
            std::vector<int> r; bool other = false;
            for (int b : live) {
                bool special = d.n[b].parent == t || b == a || b == t;
                if (special) r.push_back(b);
                else if (!other) { r.push_back(b); other = true; }
            }
            r.push_back(-1);
            return r;
        };
        for (int a : withNull) for (int b : refs(a)) add(OP_INSERT, t, a, b);
        for (int a : withNull) add(OP_REMOVE, t, a);
        for (int a : withNull) for (int b : refs(a)) add(OP_REPLACE, t, a, b);
        if (g_alpha == ALPHA_FULL) {
            add(OP_CLONE, t, -1, -1, 0); add(OP_CLONE, t, -1, -1, 1);
            add(OP_NORMALIZE, t);
            for (int v = 0; v < 2; v++) add(OP_SETVALUE, t, -1, -1, v);
            for (int v = 0; v < 3; v++) add(OP_SETTEXT, t, -1, -1, v);
            for (int v = 0; v < 4; v++) add(OP_SETPREFIX, t, -1, -1, v);
            for (int v = 0; v < 2; v++) add(OP_USERDATA, t, -1, -1, v);
            add(OP_RELEASE, t);
        }
        if (T.type == DOC) {
            if (g_alpha == ALPHA_FULL) for (int a : live) { add(OP_IMPORT, t, a, -1, 0); add(OP_IMPORT, t, a, -1, 1); }
            for (int a : live) add(OP_ADOPT, t, a);
            if (g_alpha == ALPHA_FULL) for (int a : live) for (int v = 0; v < 4; v++) add(OP_RENAME, t, a, -1, v);
        }
        if (T.type == EL) {
            if (g_alpha == ALPHA_FULL) {
                for (int v = 0; v < 3; v++) add(OP_SETATTR, t, -1, -1, v);
                for (int v = 0; v < 2; v++) add(OP_REMATTR, t, -1, -1, v);
                for (int v = 0; v < 4; v++) add(OP_SETATTRNS, t, -1, -1, v);
                for (int v = 0; v < 2; v++) add(OP_REMATTRNS, t, -1, -1, v);
            }
            for (int a : attrs) { add(OP_SETATTRNODE, t, a); add(OP_REMATTRNODE, t, a); add(OP_SETATTRNODENS, t, a); }
        }
        if (g_alpha == ALPHA_FULL && (T.type == TEXT || T.type == COMMENT)) {
            int len = (int)T.data.size();
            add(OP_APPENDDATA, t);
            for (int off = 0; off <= len + 1; off++) {
                add(OP_INSERTDATA, t, -1, -1, off);
                for (int w = 0; w < 4; w++) add(OP_DELETEDATA, t, -1, -1, off, countChoice(w, len));
                for (int w = 0; w < 3; w++) add(OP_REPLACEDATA, t, -1, -1, off, countChoice(w, len));
                for (int w = 0; w < 4; w++) add(OP_SUBSTRING, t, -1, -1, off, countChoice(w, len));
                if (T.type == TEXT) add(OP_SPLIT, t, -1, -1, off);
            }
            if (T.type == TEXT) for (int v = 0; v < 2; v++) add(OP_RWT, t, -1, -1, v);
        }
    }
}

static std::string nodeStr(const RDom& d, int id) {
    if (id < 0) return "null";
    const RNode& r = d.n[id];
    std::string s = "#" + std::to_string(id);
    switch (r.type) { case EL: s += "<" + r.name + ">"; break; case ATTR: s += "@" + r.name; break; case TEXT: s += "'" + r.data + "'"; break;
                      case COMMENT: s += "<!--" + r.data + "-->"; break; case DOC: s += "doc"; break; case FRAG: s += "frag"; break; }
    return s;
}
static std::string q(const char* s) { return s == NULLSTR ? "null" : "'" + std::string(s) + "'"; }
static std::string opStr(const RDom& d, const Opn& o) {
    std::string s = nodeStr(d, o.t) + "." + OpName[o.code] + "(";
    switch (o.code) {
    case OP_APPEND: case OP_REMOVE: case OP_ADOPT: case OP_SETATTRNODE: case OP_REMATTRNODE: case OP_SETATTRNODENS: s += nodeStr(d, o.a); break;
    case OP_INSERT: case OP_REPLACE: s += nodeStr(d, o.a) + ", " + nodeStr(d, o.b); break;
    case OP_CLONE: s += o.v ? "deep" : "shallow"; break;
    case OP_IMPORT: s += nodeStr(d, o.a) + (o.v ? ", deep" : ", shallow"); break;
    case OP_SETVALUE: s += q(V_SETVALUE[o.v]); break;
    case OP_SETTEXT: s += q(V_SETTEXT[o.v]); break;
    case OP_SETPREFIX: s += q(V_PREFIX[o.v]); break;
    case OP_USERDATA: s += o.v == 0 ? "'u', A" : "'u', null"; break;
    case OP_RENAME: s += nodeStr(d, o.a) + ", " + q(V_RENAME[o.v].ns) + ", " + q(V_RENAME[o.v].qn); break;
    case OP_SETATTR: s += q(V_ATTRNAME[o.v]) + ", 's'"; break;
    case OP_REMATTR: s += q(V_ATTRNAME[o.v]); break;
    case OP_SETATTRNS: s += q(V_ATTRNS[o.v].ns) + ", " + q(V_ATTRNS[o.v].qn) + ", 's'"; break;
    case OP_REMATTRNS: s += q(V_REMATTRNS[o.v].ns) + ", " + q(V_REMATTRNS[o.v].qn); break;
    case OP_APPENDDATA: s += "'d'"; break;
    case OP_INSERTDATA: s += std::to_string(o.v) + ", 'd'"; break;
    case OP_DELETEDATA: case OP_SUBSTRING: s += std::to_string(o.v) + ", " + std::to_string(o.w); break;
    case OP_REPLACEDATA: s += std::to_string(o.v) + ", " + std::to_string(o.w) + ", 'd'"; break;
    case OP_SPLIT: s += std::to_string(o.v); break;
    case OP_RWT: s += q(V_RWT[o.v]); break;
    }
    return s + ")";
}

// ------------------------------------------------------------------------------------------------ known defects (crash / hang): skipped while active
// A defect listed here is first probed with its witness history in a forked sandbox.  While it still manifests it is reported
// as a violation of its own kind and every transition matching `match` is skipped (counted) so that the worker processes survive
// and the rest of the space can be explored; once the library is repaired the probe stops manifesting and the skip disappears.
static Opn mkOp(int code, int t, int a = -1, int b = -1, int v = 0, int w = 0) { Opn o; o.code = code; o.t = t; o.a = a; o.b = b; o.v = v; o.w = w; return o; }
static Opn noOp() { Opn o; o.code = -1; return o; }
struct KnownDefect {
    const char* id;
    const char* what;
    bool (*match)(const RDom&, const Opn&);
    Opn witness;         // executed on the initial universe (after `pre`, when given)
    Opn pre = noOp();
    bool active = false;
    std::string observed;
};
static std::vector<KnownDefect> KNOWN_DEFECTS = {
    {"document-null-child-crash",
     "document.appendChild/insertBefore(null, ..) and document.replaceChild(.., null) dereference the null pointer (DOMDocumentImpl::insertBefore / "
     "replaceChild call newChild->getNodeType() / oldChild->getNodeType() before DOMParentNode's null check)",
     [](const RDom& d, const Opn& o) { return d.n[o.t].type == DOC && (((o.code == OP_APPEND || o.code == OP_INSERT || o.code == OP_REPLACE) && o.a == -1) || (o.code == OP_REPLACE && o.b == -1)); },
     mkOp(OP_APPEND, 0, -1)},
    {"substringData-count-overflow",
     "CharacterData.substringData(offset, count) with count larger than 4095 writes newString[count] beyond the 4096-unit stack buffer "
     "(DOMCharacterDataImpl::substringData does not clamp count to length-offset)",
     [](const RDom&, const Opn& o) { return o.code == OP_SUBSTRING && o.w >= 4096; },
     mkOp(OP_SUBSTRING, 3, -1, -1, 0, BIGCOUNT)},
    {"setTextContent-null-chardata-ub",
     "Text/Comment.setTextContent(null) (documented as allowed: 'if the new string is not empty or null') reaches DOMBuffer::set(NULL) which calls "
     "memcpy(dst, NULL, 0): undefined behaviour reported by UBSan (nonnull attribute), DOMStringPool.hpp DOMBuffer::set(const XMLCh*)",
     [](const RDom& d, const Opn& o) { return o.code == OP_SETTEXT && o.v == 2 && (d.n[o.t].type == TEXT || d.n[o.t].type == COMMENT); },
     mkOp(OP_SETTEXT, 3, -1, -1, 2)},
    {"replaceWholeText-no-element-parent-crash",
     "Text.replaceWholeText(non-empty) on a text node whose backwards walk (TreeWalker.previousNode) ends on an Attr or DocumentFragment parent: "
     "DOMTextImpl::replaceWholeText takes that parent as 'first text node' and calls pFirstTextNode->getParentNode()->insertBefore() on a null parent",
     [](const RDom& d, const Opn& o) {
         if (o.code != OP_RWT || o.v != 0) return false;
         int docEl = -1; for (int k : d.n[d.n[o.t].doc].kids) if (d.n[k].type == EL && docEl < 0) docEl = k;
         if (docEl < 0) return false;                           // NOT_SUPPORTED_ERR is raised before anything else
         int cur = o.t, first = o.t;
         for (int guard = 0; guard < 100; guard++) {            // DOMTreeWalkerImpl::previousNode with SHOW_ALL
             if (cur == docEl) break;
             int p = d.n[cur].parent, n = -1;
             if (p >= 0) { const auto& k = d.n[p].kids; for (size_t i = 1; i < k.size(); i++) if (k[i] == cur) n = k[i - 1]; }
             if (n >= 0) { while (!d.n[n].kids.empty()) n = d.n[n].kids.back(); } else n = p;
             if (n < 0) break;
             if (d.n[n].type == EL || d.n[n].type == COMMENT) break;
             first = n; cur = n;
         }
         return d.n[first].type == ATTR || d.n[first].type == FRAG;
     },
     mkOp(OP_RWT, 5, -1, -1, 0), mkOp(OP_APPEND, 7, 5)},
};
static const char* skipDefect(const RDom& d, const Opn& o) {
    for (auto& k : KNOWN_DEFECTS) if (k.active && k.match(d, o)) return k.id;
    return nullptr;
}

// ------------------------------------------------------------------------------------------------ states
struct State {
    std::vector<Opn> ops;
    std::vector<uint16_t> idx;
    H128 h;
};

static bool replay(World& w, const State& s, std::string* err) {
    w.buildUniverse();
    for (size_t i = 0; i < s.ops.size(); i++) {
        const Opn& op = s.ops[i];
        size_t oldN = w.ref.d.n.size();
        Expect e; w.ref.apply(op, e);
        Outcome o; execImpl(w, op, o);
        if (o.code != 0 || e.mustFail()) { if (err) *err = "replay step " + std::to_string(i) + " did not succeed"; return false; }
        if (e.ret >= (int)oldN && o.ret && w.idOf(o.ret) == -2) w.bind(e.ret, o.ret);
        w.dropDead();
        Cmp c(w);
        if (!c.bindNew()) { if (err) *err = "replay step " + std::to_string(i) + ": " + c.detail; return false; }
    }
    return true;
}

// ------------------------------------------------------------------------------------------------ one transition
struct Trans {
    enum { EXC_OK, SAME, NEW, VIOL } res = EXC_OK;
    bool dirty = false;           // the world can no longer be used for the next transition of the same state
    std::string kind, detail, expected, observed;
    H128 h;                       // state hash after the transition (SAME / NEW)
    int exc = 0;
};
static std::string errSet(const Expect& e) {
    std::string s;
    for (int c : e.errs) { if (!s.empty()) s += "|"; s += codeName(c); }
    if (e.okToo) s += "|success";
    return s.empty() ? "success" : s;
}
static std::string keyOf(World& w) { KeyBuilder kb(w, N_ORIG); return kb.text(); }
static H128 hashOf(World& w) { KeyBuilder kb(w, N_ORIG); H128 h; kb.digest(h.a, h.b); return h; }
static std::string firstDiff(const std::string& a, const std::string& b) {
    size_t pa = 0, pb = 0;
    while (pa < a.size() || pb < b.size()) {
        size_t ea = a.find('\n', pa), eb = b.find('\n', pb);
        std::string la = pa < a.size() ? a.substr(pa, ea - pa) : "<none>", lb = pb < b.size() ? b.substr(pb, eb - pb) : "<none>";
        if (la != lb) return "before: " + la + " || after: " + lb;
        pa = ea == std::string::npos ? a.size() : ea + 1; pb = eb == std::string::npos ? b.size() : eb + 1;
    }
    return "";
}

// key0 / sig0: canonical key and quick signature of the state the world is in before the call
static void step(World& w, const std::string& key0, const H128& h0, uint64_t sig0, const Opn& op, Trans& tr) {
    std::string opn = OpName[op.code];
    // pre-state facts used for root-cause names
    bool treeOp = op.code == OP_APPEND || op.code == OP_INSERT || op.code == OP_REPLACE;
    bool selfInsert = treeOp && op.a == op.t;
    bool rootReinsert = false, fragIntoDoc = false;
    { const RDom& d0 = w.ref.d; rootReinsert = treeOp && d0.n[op.t].type == DOC && op.a >= 0 && d0.n[op.a].type == EL && d0.n[op.a].parent == op.t;
      fragIntoDoc = treeOp && d0.n[op.t].type == DOC && op.a >= 0 && d0.n[op.a].type == FRAG; }
    size_t oldN = w.ref.d.n.size();
    Expect e;
    bool applied = false;
    Ref saved;                       // copy of the model, only taken when the call may succeed
    if (!(w.ref.treeOpErrors(op, e.errs) && e.mustFail())) {
        e = Expect();
        saved = w.ref;
        w.ref.apply(op, e);
        applied = true;
    }
    tr.expected = errSet(e);
    Outcome o; execImpl(w, op, o);
    tr.exc = o.code;
    tr.observed = o.code == 0 ? "success" : (o.code < 0 ? "foreign exception: " + o.what : std::string(codeName(o.code)));
    auto viol = [&](const std::string& kind, const std::string& detail) {
        tr.res = Trans::VIOL; tr.dirty = true; tr.kind = kind; tr.detail = detail;
        if (selfInsert && (o.code == 0 || kind.find("state-changed") != std::string::npos)) tr.kind = "self-insert-accepted";
        else if (fragIntoDoc && o.code == HIERARCHY_REQUEST_ERR && kind.find("state-changed") != std::string::npos) tr.kind = "document-fragment-partial-insert";
        else if (op.code == OP_REPLACE && op.b == -1 && kind.find("state-changed") != std::string::npos) tr.kind = "replaceChild-null-oldChild-modifies-then-throws";
        else if (rootReinsert && o.code == HIERARCHY_REQUEST_ERR) tr.kind = "document-root-reinsert-rejected";
    };
    if (o.code != 0) {
        if (applied) w.ref = saved;
        bool unchanged = quickSig(w) == sig0;
        std::string diff;
        if (!unchanged) { std::string k1 = keyOf(w); diff = firstDiff(key0, k1); if (diff.empty()) diff = "(hidden/public digest differs)"; }
        if (o.code < 0 || !e.errs.count(o.code)) {
            viol(opn + ":expected-" + tr.expected + ":observed-" + codeName(o.code) + (unchanged ? "" : "+state-changed"), unchanged ? "state unchanged" : "state CHANGED by the failing call: " + diff);
            return;
        }
        if (!unchanged) { viol(opn + ":" + codeName(o.code) + "-raised-but-state-changed", "the call raised the specified exception but the state differs: " + diff); return; }
        tr.res = Trans::EXC_OK;
        return;
    }
    if (e.mustFail()) { viol(opn + ":expected-" + tr.expected + ":observed-success", ""); return; }
    if (e.ret >= (int)oldN && o.ret) {
        if (w.idOf(o.ret) != -2) { viol(opn + ":returned-node-not-new", "the call must return a new node but returned " + std::to_string(w.idOf(o.ret))); return; }
        w.bind(e.ret, o.ret);
    }
    w.dropDead();
    Cmp c(w);
    if (!c.bindNew() || !c.compareAll()) {
        viol(opn + ":mismatch-" + c.slug, c.detail);
        if (op.code == OP_RWT) tr.kind = "replaceWholeText:mismatch-structure";
        if (op.code == OP_SETATTRNS) tr.kind = "setAttributeNS:mismatch-attributes";     // existing prefixed attribute replaced by a new node: several first symptoms   // one root cause (backwards walk enters the preceding element), several first symptoms
        if (treeOp && op.a >= 0 && w.H(op.a) && c.slug == "structure") {
            // an inserted node that is not the first child but carries the hidden FIRSTCHILD flag (copied by the clone constructor)
            const RNode& N = w.ref.d.n[op.a];
            DOMNodeImpl* ni = nodeImpl(w.H(op.a));
            if (N.parent >= 0 && !w.ref.d.n[N.parent].kids.empty() && w.ref.d.n[N.parent].kids.front() != op.a && ni && ni->isFirstChild()) tr.kind = "stale-FIRSTCHILD-flag-on-inserted-node";
        }
        return;
    }
    std::string islug, idetail;
    if (!invariants(w, islug, idetail)) { viol(opn + ":invariant-" + islug, idetail); return; }
    if (o.hasRet && e.ret != -2) {
        DOMNode* want = e.ret < 0 ? nullptr : w.H(e.ret);
        if (o.ret != want) { viol(opn + ":return-value", "returned " + c.pn(o.ret) + " expected " + c.nm(e.ret)); return; }
    }
    if (e.hasStr && o.str != e.str) { viol(opn + ":return-string", "returned '" + o.str + "' expected '" + e.str + "'"); return; }
    if (e.retData != -2 && (o.data != nullptr) != (e.retData != 0)) { viol(opn + ":return-userdata", ""); return; }
    tr.h = hashOf(w);
    tr.res = tr.h == h0 ? Trans::SAME : Trans::NEW;
    tr.dirty = tr.res == Trans::NEW;
}

// ------------------------------------------------------------------------------------------------ sandbox (fork) for crash / hang probes
struct Sbx { int status = 0; /*0 returned, 1 crashed, 2 timed out*/ std::string text, err; };
static std::string g_tmpBase = "/dev/shm/c13";
template <class F> static Sbx sandbox(F f, int timeout_s) {
    Sbx r;
    int fd[2];
    if (pipe(fd) != 0) { r.status = 1; r.text = "pipe failed"; return r; }
    std::string errPath = g_tmpBase + ".sbx." + std::to_string(getpid()) + ".err";
    fflush(nullptr);
    pid_t p = fork();
    if (p == 0) {
        close(fd[0]);
        int dn = open(errPath.c_str(), O_WRONLY | O_CREAT | O_TRUNC, 0644); if (dn >= 0) { dup2(dn, 2); close(dn); }
        signal(SIGALRM, SIG_DFL);
        struct itimerval it; memset(&it, 0, sizeof it); setitimer(ITIMER_REAL, &it, nullptr);
        alarm(timeout_s);
        std::string s = f();
        (void)!write(fd[1], s.data(), s.size());
        _exit(0);
    }
    close(fd[1]);
    char buf[4096]; ssize_t n;
    while ((n = read(fd[0], buf, sizeof buf)) > 0) r.text.append(buf, n);
    close(fd[0]);
    int st = 0; waitpid(p, &st, 0);
    {
        FILE* ef = fopen(errPath.c_str(), "r");
        if (ef) { char eb[1500]; size_t en = fread(eb, 1, sizeof eb - 1, ef); eb[en] = 0; r.err = eb; fclose(ef); }
        unlink(errPath.c_str());
        {   // keep the line that names the error
            size_t at = r.err.find("runtime error"); if (at == std::string::npos) at = r.err.find("ERROR: ");
            if (at != std::string::npos) { size_t ls = r.err.rfind('\n', at); r.err = r.err.substr(ls == std::string::npos ? 0 : ls + 1); }
        }
        size_t nl = r.err.find('\n'); if (nl != std::string::npos) r.err.resize(nl);
        size_t sl = r.err.rfind('/'); size_t sp = r.err.find(' ');   // strip the directory of "path/file.cpp:line:col: runtime error ..."
        if (sl != std::string::npos && (sp == std::string::npos || sl < sp)) r.err = r.err.substr(sl + 1);
        if (r.err.compare(0, 2, "==") == 0) { size_t e2 = r.err.find("==", 2); if (e2 != std::string::npos) r.err = r.err.substr(e2 + 2); }  // strip ==pid==
    }
    if (WIFEXITED(st) && WEXITSTATUS(st) == 0) r.status = 0;
    else if (WIFSIGNALED(st) && WTERMSIG(st) == SIGALRM && r.err.empty()) r.status = 2;   // a sanitizer report that is still being symbolised counts as a crash
    else r.status = 1;
    return r;
}
static Sbx runOpSandboxed(const State& s, const Opn& op) {
    return sandbox([&]() {
        World* w = new World();  // leaked on purpose inside the child
        std::string err;
        if (!replay(*w, s, &err)) return std::string("replay-failed ") + err;
        Outcome o; execImpl(*w, op, o);
        return std::string(o.code == 0 ? "returned" : codeName(o.code));
    }, 2);
}

// ------------------------------------------------------------------------------------------------ exploration of one layer (runs inside Runner workers)
static std::vector<State> g_frontier;
static std::unordered_set<H128, H128Hash> g_visited;   // inherited by the workers (fork)
static std::unordered_set<H128, H128Hash> g_localNew;  // per worker process
static std::set<std::string> g_localKinds;
static bool g_finalLayer = false;
static std::string g_sideBase;
static FILE* g_side = nullptr;
static pid_t g_sidePid = 0;
static std::set<std::string> g_knownKinds;             // kinds already reported at a shallower depth (only counted afterwards)

static FILE* side() {
    if (g_sideBase.empty() || xv::g_worker < 0) return nullptr;
    if (!g_side || g_sidePid != getpid()) {
        g_side = fopen((g_sideBase + ".w" + std::to_string(xv::g_worker)).c_str(), "a");
        g_sidePid = getpid();
        g_localNew.clear(); g_localKinds.clear();
    }
    return g_side;
}
static void opFields(FILE* f, const Opn& o) { fprintf(f, "\t%d\t%d\t%d\t%d\t%d\t%d", o.code, o.t, o.a, o.b, o.v, o.w); }

static volatile uint32_t* g_prog = nullptr;   // shared: op index a case is executing (0xFFFFFFFF: done) -> locates the call that killed a worker
enum { S_TRANS, S_SKIP, S_SAME, S_NEW, S_VIOL, S_REBUILD, S_EXC, S_OK = S_EXC + 20, S_REJ = S_OK + NOPS, S_N = S_REJ + NOPS };
static std::string slotName(int i) {
    switch (i) { case S_TRANS: return "transitions"; case S_SKIP: return "transitions_skipped_known_defect"; case S_SAME: return "t_success_same_state";
                 case S_NEW: return "t_success_new_state"; case S_VIOL: return "t_discrepancy"; case S_REBUILD: return "world_rebuilds"; }
    if (i >= S_REJ) return std::string("rejected:") + OpName[i - S_REJ];
    if (i >= S_OK) return std::string("ok:") + OpName[i - S_OK];
    return std::string("exc:") + codeName(i - S_EXC);
}

static void expandCase(uint64_t idx, Ctx& c) {
    const State& s = g_frontier[idx];
    FILE* sf = side();
    auto note = [&](const std::string& k, uint64_t n) { if (sf) fprintf(sf, "K\t%s\t%llu\n", k.c_str(), (unsigned long long)n); c.count(k, n); };
    std::unique_ptr<World> w(new World());
    std::string err;
    if (!replay(*w, s, &err)) { note("harness_replay_failed", 1); if (sf) fflush(sf); return; }
    std::string key0 = keyOf(*w);
    uint64_t sig0 = quickSig(*w);
    H128 h0 = hashOf(*w);
    if (!(h0 == s.h)) { note("harness_replay_key_mismatch", 1); if (sf) fflush(sf); return; }
    std::vector<Opn> ops;
    genOps(w->ref.d, ops);
    uint64_t slot[S_N] = {0};
    std::map<std::string, uint64_t> kindCount, skipCount;
    struct timespec tA; clock_gettime(CLOCK_PROCESS_CPUTIME_ID, &tA); double tStep[4] = {0, 0, 0, 0}, tReb = 0; auto cpu = []() { struct timespec t; clock_gettime(CLOCK_PROCESS_CPUTIME_ID, &t); return t.tv_sec + t.tv_nsec * 1e-9; };
    for (size_t i = 0; i < ops.size(); i++) {
        const Opn& op = ops[i];
        if (const char* kd = skipDefect(w->ref.d, op)) { slot[S_SKIP]++; skipCount[kd]++; continue; }
        if (g_prog && xv::g_worker >= 0) g_prog[idx] = (uint32_t)i;
        Trans tr;
        double c0 = c.verbose ? cpu() : 0;
        step(*w, key0, h0, sig0, op, tr);
        if (c.verbose) tStep[tr.res] += cpu() - c0;
        slot[S_TRANS]++;
        switch (tr.res) {
        case Trans::EXC_OK: if (tr.exc > 0 && tr.exc < 20) slot[S_EXC + tr.exc]++; slot[S_REJ + op.code]++; break;
        case Trans::SAME: slot[S_SAME]++; slot[S_OK + op.code]++; sig0 = quickSig(*w); break;   // the node table may have changed (e.g. an attribute value node was replaced)
        case Trans::NEW: {
            slot[S_NEW]++; slot[S_OK + op.code]++;
            H128 h = tr.h;
            if (!g_visited.count(h) && g_localNew.insert(h).second && sf) {
                fprintf(sf, "S\t%s\t%llu\t%zu", hex128(h).c_str(), (unsigned long long)idx, i);
                if (!g_finalLayer) opFields(sf, op);
                fputc('\n', sf);
            }
            break;
        }
        case Trans::VIOL:
            slot[S_VIOL]++;
            kindCount[tr.kind]++;
            if (sf && g_localKinds.insert(tr.kind).second) { fprintf(sf, "V\t%s\t%llu\t%zu", tr.kind.c_str(), (unsigned long long)idx, i); opFields(sf, op); fputc('\n', sf); }
            if (c.verbose) printf("  DISCREPANCY %zu %s  %s  [%s]\n", i, opStr(w->ref.d, op).c_str(), tr.kind.c_str(), tr.detail.c_str());
            break;
        }
        if (tr.dirty && i + 1 < ops.size()) {
            double c1 = c.verbose ? cpu() : 0;
            w.reset(new World());
            slot[S_REBUILD]++;
            if (!replay(*w, s, &err)) { note("harness_replay_failed", 1); if (sf) fflush(sf); return; }
            sig0 = quickSig(*w);
            if (c.verbose) tReb += cpu() - c1;
        }
    }
    if (g_prog && xv::g_worker >= 0) g_prog[idx] = 0xFFFFFFFFu;
    if (c.verbose) { struct timespec tB; clock_gettime(CLOCK_PROCESS_CPUTIME_ID, &tB); printf("expand cpu %.3f s for %llu transitions, %llu rebuilds; exc %.3f same %.3f new %.3f viol %.3f rebuild %.3f\n", (tB.tv_sec - tA.tv_sec) + (tB.tv_nsec - tA.tv_nsec) * 1e-9, (unsigned long long)slot[S_TRANS], (unsigned long long)slot[S_REBUILD], tStep[0], tStep[1], tStep[2], tStep[3], tReb); }
    if (sf) {
        fputs("C", sf);
        for (int k = 0; k < S_N; k++) fprintf(sf, "\t%llu", (unsigned long long)slot[k]);
        fputc('\n', sf);
        for (auto& kv : kindCount) fprintf(sf, "K\tdiscrepancy:%s\t%llu\n", kv.first.c_str(), (unsigned long long)kv.second);
        for (auto& kv : skipCount) fprintf(sf, "K\tskipped_known_defect:%s\t%llu\n", kv.first.c_str(), (unsigned long long)kv.second);
        fprintf(sf, "K\tstates_expanded\t1\n");
        fflush(sf);
    }
}

// ------------------------------------------------------------------------------------------------ tiny readers for the Runner's JSON
static std::string slurp(const std::string& p) {
    FILE* f = fopen(p.c_str(), "r"); if (!f) return "";
    std::string s; char b[65536]; size_t n;
    while ((n = fread(b, 1, sizeof b, f)) > 0) s.append(b, n);
    fclose(f); return s;
}
static void parseCounters(const std::string& js, std::map<std::string, uint64_t>& out) {
    size_t p = js.find("\"counters\":{");
    if (p == std::string::npos) return;
    p += 12;
    while (p < js.size() && js[p] != '}') {
        if (js[p] != '"') { p++; continue; }
        size_t e = p + 1;
        while (e < js.size() && js[e] != '"') { if (js[e] == '\\') e++; e++; }
        std::string k = js.substr(p + 1, e - p - 1);
        size_t col = js.find(':', e);
        uint64_t v = strtoull(js.c_str() + col + 1, nullptr, 10);
        out[k] += v;
        p = js.find_first_of(",}", col);
        if (p == std::string::npos) break;
        if (js[p] == ',') p++;
    }
}
static void parseCrashes(const std::string& js, std::vector<std::pair<uint64_t, std::string>>& out) {
    size_t p = 0;
    while ((p = js.find("{\"case\":", p)) != std::string::npos) {
        const char* s = js.c_str() + p + 8;
        if (*s == '-') { p += 8; continue; }
        uint64_t cs = strtoull(s, nullptr, 10);
        size_t k = js.find("\"kind\":\"", p);
        if (k == std::string::npos) break;
        size_t ke = js.find('"', k + 8);
        std::string kind = js.substr(k + 8, ke - k - 8);
        if (kind == "crash" || kind == "hang" || kind == "crash-after-timeout") out.push_back({cs, kind});
        p = ke;
    }
}

// ------------------------------------------------------------------------------------------------ report pass
struct Instance { State s; Opn op; size_t opIdx; int depth; std::string kind; uint64_t count = 0; uint64_t cs = 0; bool reduced = false; };
static std::vector<Instance> g_report;                       // one per discrepancy kind (minimal instance)
struct CrashCase { State s; std::string how; uint32_t opIdx; bool reduced; };
static std::vector<CrashCase> g_crashed;                     // frontier states whose expansion killed a worker
static std::map<std::string, uint64_t> g_total;              // counters accumulated over all layers
static std::vector<std::string> g_samples;
static uint64_t g_reportTotal = 0;

static const uint64_t ENC_FLAG = 1ULL << 60;
static const uint64_t ENC_REDUCED = 1ULL << 55;
static bool encodeHist(const std::vector<uint16_t>& idx, uint64_t& out) {
    if (idx.size() > 3) return false;
    out = ENC_FLAG | ((uint64_t)idx.size() << 56) | (g_reduced ? ENC_REDUCED : 0);
    for (size_t i = 0; i < idx.size(); i++) out |= (uint64_t)idx[i] << (16 * i);
    return true;
}
static std::vector<uint16_t> decodeHist(uint64_t v) {
    std::vector<uint16_t> r;
    size_t n = (v >> 56) & 0xF;
    for (size_t i = 0; i < n; i++) r.push_back((uint16_t)((v >> (16 * i)) & 0xFFFF));
    return r;
}
// ref-only replay of an index history -> State (ops resolved); returns false when an index is out of range
static bool stateFromIndices(const std::vector<uint16_t>& idx, size_t upto, State& s, Ref& ref) {
    World tmp;  // only to build the reference universe consistently: cheap enough
    tmp.buildUniverse();
    ref = tmp.ref;
    s.ops.clear(); s.idx.clear();
    std::vector<Opn> ops;
    for (size_t i = 0; i < upto; i++) {
        genOps(ref.d, ops);
        if (idx[i] >= ops.size()) return false;
        Expect e; ref.apply(ops[idx[i]], e);
        s.ops.push_back(ops[idx[i]]); s.idx.push_back(idx[i]);
    }
    return true;
}
static std::string histJson(const State& s) {
    World tmp; tmp.buildUniverse();
    Ref ref = tmp.ref;
    std::string o = "[";
    for (size_t i = 0; i < s.ops.size(); i++) { if (i) o += ","; o += jstr(opStr(ref.d, s.ops[i])); Expect e; ref.apply(s.ops[i], e); }
    return o + "]";
}
static std::string idxStr(const std::vector<uint16_t>& v, int last = -1) {
    std::string o;
    for (auto x : v) { if (!o.empty()) o += ","; o += std::to_string(x); }
    if (last >= 0) { if (!o.empty()) o += ","; o += std::to_string(last); }
    return o;
}

// executes history + final op with the full oracle and reports (used by the report pass and by --only / --history)
static void reportInstance(const State& s, const Opn& op, size_t opIdx, const std::string& expectKind, uint64_t count, Ctx& c) {
    std::vector<uint16_t> full = s.idx; full.push_back((uint16_t)opIdx);
    uint64_t enc;
    if (encodeHist(full, enc)) c.idx = enc;
    World w;
    std::string err;
    if (!replay(w, s, &err)) { c.violation("harness-replay-failed", "\"history\":" + histJson(s) + ",\"error\":" + jstr(err)); return; }
    std::string key0 = keyOf(w);
    std::string ops = opStr(w.ref.d, op);
    Trans tr;
    step(w, key0, hashOf(w), quickSig(w), op, tr);
    if (c.verbose) {
        printf("history (op indices %s):\n", idxStr(s.idx).c_str());
        World t2; t2.buildUniverse(); Ref r = t2.ref;
        for (auto& o : s.ops) { printf("    %s\n", opStr(r.d, o).c_str()); Expect e; r.apply(o, e); }
        printf("state key before the call:\n%s", key0.c_str());
        printf("call:      %s   (op index %zu)\nexpected:  %s\nobserved:  %s\n", ops.c_str(), opIdx, tr.expected.c_str(), tr.observed.c_str());
        if (tr.res == Trans::VIOL) printf("DISCREPANCY kind=%s\n  %s\n", tr.kind.c_str(), tr.detail.c_str());
        else printf("no discrepancy (result %d)\n", (int)tr.res);
        if (!tr.dirty || tr.res == Trans::NEW) printf("state key after the call:\n%s", keyOf(w).c_str());
    }
    if (tr.res == Trans::VIOL)
        c.violation(tr.kind, "\"history\":" + histJson(s) + ",\"history_indices\":" + jstr(idxStr(s.idx, (int)opIdx)) + ",\"call\":" + jstr(ops) + ",\"expected\":" + jstr(tr.expected) +
                                 ",\"observed\":" + jstr(tr.observed) + ",\"detail\":" + jstr(tr.detail) + ",\"instances_in_run\":" + std::to_string(count) +
                                 ",\"depth\":" + std::to_string(s.ops.size() + 1));
    else if (!expectKind.empty())
        c.violation("harness-not-reproduced", "\"kind_seen_in_scan\":" + jstr(expectKind) + ",\"history\":" + histJson(s) + ",\"history_indices\":" + jstr(idxStr(s.idx, (int)opIdx)) + ",\"call\":" + jstr(ops));
}

static void reportCase(uint64_t idx, Ctx& c) {
    if (idx & ENC_FLAG) {  // --only <encoded history>
        std::vector<uint16_t> h = decodeHist(idx);
        if (h.empty()) { printf("empty history\n"); return; }
        State s; Ref ref;
        g_reduced = false;
        if (!stateFromIndices(h, h.size() - 1, s, ref)) { printf("history index out of range\n"); return; }
        g_reduced = (idx & ENC_REDUCED) != 0;
        std::vector<Opn> ops; genOps(ref.d, ops);
        if (h.back() >= ops.size()) { printf("op index out of range\n"); return; }
        reportInstance(s, ops[h.back()], h.back(), "", 0, c);
        return;
    }
    if (idx == 0) {  // carries the counters and samples of the exploration into the result document
        for (auto& kv : g_total) if (kv.first != "evaluations" && kv.first.compare(0, 10, "violations") != 0 && kv.first != "crashes" && kv.first != "hangs" && kv.first != "slow_but_terminating") c.count(kv.first, kv.second);
        for (auto& s : g_samples) c.sample(s);
        c.count("t_exception_unchanged", g_total["transitions"] - g_total["t_success_same_state"] - g_total["t_success_new_state"] - g_total["t_discrepancy"]);
        if (g_total["transitions"] > g_reportTotal) c.count("evaluations", g_total["transitions"] - g_reportTotal);   // evaluations := executed transitions
        return;
    }
    size_t k = idx - 1;
    if (k < KNOWN_DEFECTS.size()) {
        KnownDefect& kd = KNOWN_DEFECTS[k];
        World tmp; tmp.buildUniverse();
        std::string hist = "[";
        if (kd.pre.code >= 0) { hist += jstr(opStr(tmp.ref.d, kd.pre)); Expect e; tmp.ref.apply(kd.pre, e); }
        hist += "]";
        std::string call = opStr(tmp.ref.d, kd.witness);
        if (kd.active)   // probed once at start-up (forked sandbox)
            c.violation(std::string("crash-or-hang:") + kd.id, "\"history\":" + hist + ",\"call\":" + jstr(call) + ",\"observed\":" + jstr(kd.observed) +
                                                                    ",\"what\":" + jstr(kd.what) + ",\"transitions_skipped_in_run\":" + std::to_string(g_total["skipped_known_defect:" + std::string(kd.id)]));
        else c.count(std::string("known_defect_not_manifesting:") + kd.id);
        return;
    }
    k -= KNOWN_DEFECTS.size();
    if (k < g_report.size()) { g_reduced = g_report[k].reduced; reportInstance(g_report[k].s, g_report[k].op, g_report[k].opIdx, g_report[k].kind, g_report[k].count, c); return; }
    k -= g_report.size();
    if (k < g_crashed.size()) {
        // the worker expanding this state died; the shared progress word names the call it was executing
        const State& s = g_crashed[k].s;
        State pre; Ref ref;
        g_reduced = false;
        if (!stateFromIndices(s.idx, s.idx.size(), pre, ref)) { c.violation("harness-replay-failed", "\"history\":" + histJson(s)); return; }
        g_reduced = g_crashed[k].reduced;
        std::vector<Opn> ops; genOps(ref.d, ops);
        uint32_t oi = g_crashed[k].opIdx;
        std::string call = oi < ops.size() ? opStr(ref.d, ops[oi]) : std::string("<unknown>");
        std::string opn = oi < ops.size() ? OpName[ops[oi].code] : "unlocated";
        c.violation((g_crashed[k].how == "hang" ? "hang:" : "crash:") + opn, "\"history\":" + histJson(s) + ",\"history_indices\":" + jstr(idxStr(s.idx, (int)oi)) + ",\"call\":" + jstr(call) +
                                                                               ",\"how\":" + jstr(g_crashed[k].how) + ",\"note\":\"the remaining transitions of this state were not explored\"");
    }
}

// ------------------------------------------------------------------------------------------------ main
static std::vector<uint16_t> parseIdxList(const std::string& s) {
    std::vector<uint16_t> r; size_t p = 0;
    while (p < s.size()) { r.push_back((uint16_t)atoi(s.c_str() + p)); p = s.find(',', p); if (p == std::string::npos) break; p++; }
    return r;
}

// The explorer allocates and frees millions of small blocks (a world per state-changing transition).  On this VM ASan's quarantine
// makes every malloc/free pair 20-80 times more expensive (measured: 0.35 us without, 7-28 us with the orchestrator's 8 MB quarantine),
// so the driver re-executes itself once with a minimal quarantine.  Freed memory stays poisoned until it is reused, DOM nodes live in
// per-document pools that ASan does not track individually anyway, and all other checks (redzones, UBSan) are unaffected.
static void reexecWithLeanQuarantine(char** argv) {
    if (getenv("C13_LEAN_QUARANTINE")) return;
    const char* o = getenv("ASAN_OPTIONS");
    std::string s = o ? o : "";
    s += ":quarantine_size_mb=0:thread_local_quarantine_size_kb=16";
    setenv("ASAN_OPTIONS", s.c_str(), 1);
    setenv("C13_LEAN_QUARANTINE", "1", 1);
    execv("/proc/self/exe", argv);
}

int main(int argc, char** argv) {
    reexecWithLeanQuarantine(argv);
    Args a(argc, argv);
    xml_init();
    int depth = (int)a.num("depth", 1);
    bool fix = a.num("fix", 0) != 0;
    int maxLayers = (int)a.num("max-layers", 64);
    bool reduceLast = a.num("reduce-last", 0) != 0;
    if (a.str("alphabet", "full") == "recycle") g_alpha = ALPHA_RECYCLE;
    if (fix) {
        g_alpha = ALPHA_STRUCT;
        std::string act = a.str("active", "");
        if (!act.empty()) { g_active.assign(N_ORIG, 0); for (auto i : parseIdxList(act)) if (i < N_ORIG) g_active[i] = 1; }
    }
    std::string out = a.str("out", "/dev/stdout");
    if (out != "/dev/stdout") g_tmpBase = out;
    int workers = (int)a.num("workers", 16);

    // ---- probe known crash / hang defects (decides which transitions must be skipped)
    {
        State s0;
        for (auto& kd : KNOWN_DEFECTS) { State sp; if (kd.pre.code >= 0) sp.ops.push_back(kd.pre); Sbx r = runOpSandboxed(sp, kd.witness); kd.active = r.status != 0; kd.observed = r.status == 0 ? r.text : (r.status == 2 ? std::string("does not return within 2 s") : "process killed: " + r.err); }
    }

    if (a.has("probe")) {  // development aid
        State s0; Ref ref; std::vector<uint16_t> h = parseIdxList(a.str("history", ""));
        if (!stateFromIndices(h, h.size(), s0, ref)) { printf("bad history\n"); return 2; }
        std::vector<Opn> ops; genOps(ref.d, ops);
        printf("%zu operations\n", ops.size());
        for (auto& kd : KNOWN_DEFECTS) printf("known defect %s: %s (%s)\n", kd.id, kd.active ? "ACTIVE" : "not manifesting", kd.observed.c_str());
        for (size_t i = 0; i < ops.size(); i++) {
            if (skipDefect(ref.d, ops[i])) continue;
            Sbx r = runOpSandboxed(s0, ops[i]);
            if (r.status != 0) printf("%s %zu %s\n", r.status == 2 ? "HANG " : "CRASH", i, opStr(ref.d, ops[i]).c_str());
        }
        return 0;
    }
    if (a.has("expand")) {  // development aid: expand one state in-process, print every discrepancy
        std::string hs = a.str("expand");
        std::vector<uint16_t> h = hs == "1" || hs == "-" ? std::vector<uint16_t>() : parseIdxList(hs);
        State s; Ref ref;
        if (!stateFromIndices(h, h.size(), s, ref)) { printf("bad history\n"); return 2; }
        { World w; std::string err; if (!replay(w, s, &err)) { printf("replay failed %s\n", err.c_str()); return 2; } s.h = hashOf(w); }
        g_frontier.push_back(s);
        Ctx c; c.verbose = true;
        expandCase(0, c);
        for (auto& kv : c.cnt) printf("%s %llu\n", kv.first.c_str(), (unsigned long long)kv.second);
        return 0;
    }
    if (a.has("history")) {  // verbose replay of an explicit history (last index = the call under test)
        std::vector<uint16_t> h = parseIdxList(a.str("history"));
        uint64_t enc = 0;
        Ctx c; c.verbose = true;
        State s; Ref ref;
        if (h.empty() || !stateFromIndices(h, h.size() - 1, s, ref)) { printf("bad history\n"); return 2; }
        g_reduced = reduceLast;
        std::vector<Opn> ops; genOps(ref.d, ops);
        if (h.back() >= ops.size()) { printf("bad op index\n"); return 2; }
        (void)enc;
        reportInstance(s, ops[h.back()], h.back(), "", 0, c);
        for (auto& v : c.viol) printf("violation: %s\n", v.c_str());
        return c.viol.empty() ? 0 : 1;
    }
    if (a.has("only")) {
        Runner R; R.name = "replay"; R.total = 1; R.fn = reportCase;
        R.describe = [](uint64_t) { return std::string("null"); };
        return R.main_tail(a);
    }

    // ---- layered BFS
    struct timespec ts; clock_gettime(CLOCK_MONOTONIC, &ts);
    double t0 = ts.tv_sec + ts.tv_nsec * 1e-9;
    double deadline = a.has("deadline") ? (double)a.num("deadline") : 0;
    State init;
    {
        World w; std::string err;
        if (!replay(w, init, &err)) { fprintf(stderr, "initial universe failed\n"); return 2; }
        Cmp c(w); std::string sl, dt;
        if (!c.compareAll() || !invariants(w, sl, dt)) { fprintf(stderr, "initial universe does not match the reference: %s %s / %s %s\n", c.slug.c_str(), c.detail.c_str(), sl.c_str(), dt.c_str()); return 2; }
        std::string k = keyOf(w);
        init.h = hashOf(w);
        g_samples.push_back("{\"initial_state_key\":" + jstr(k) + "}");
        std::vector<Opn> ops; genOps(w.ref.d, ops);
        g_total["alphabet_transitions_of_initial_state"] = ops.size();
    }
    g_visited.insert(init.h);
    g_frontier.push_back(init);
    std::map<std::string, Instance> kinds;
    std::vector<uint64_t> layerSizes;
    int completedDepth = 0;
    bool deadlineHit = false, closed = false;
    int nLayers = fix ? maxLayers : depth;
    for (int layer = 0; layer < nLayers; layer++) {
        if (g_frontier.empty()) { closed = true; break; }
        clock_gettime(CLOCK_MONOTONIC, &ts);
        double now = ts.tv_sec + ts.tv_nsec * 1e-9;
        if (deadline > 0 && now - t0 > deadline) { deadlineHit = true; break; }
        g_finalLayer = !fix && layer == nLayers - 1;
        g_reduced = (g_finalLayer && reduceLast) || (fix && reduceLast);
        g_sideBase = out + ".L" + std::to_string(layer);
        std::string lout = g_sideBase + ".json";
        layerSizes.push_back(g_frontier.size());
        Runner R; R.name = "layer" + std::to_string(layer); R.total = g_frontier.size(); R.fn = expandCase; R.workers = workers; R.out = lout;
        R.case_timeout_s = a.has("case-timeout") ? (double)a.num("case-timeout") : 90;
        if (deadline > 0) R.deadline_s = std::max(1.0, deadline - (now - t0));
        R.describe = [](uint64_t i) { return "{\"history\":" + histJson(g_frontier[i]) + "}"; };
        for (int w = 0; w < 64; w++) unlink((g_sideBase + ".w" + std::to_string(w)).c_str());
        size_t progBytes = (g_frontier.size() + 1) * sizeof(uint32_t);
        g_prog = (volatile uint32_t*)mmap(nullptr, progBytes, PROT_READ | PROT_WRITE, MAP_SHARED | MAP_ANONYMOUS, -1, 0);
        for (size_t i = 0; i < g_frontier.size(); i++) g_prog[i] = 0xFFFFFFFEu;
        int rc = R.run();
        if (rc < 0 && rc != -2) { fprintf(stderr, "runner failed\n"); return 2; }
        std::string js = slurp(lout);
        unlink(lout.c_str());
        std::map<std::string, uint64_t> cnt;
        parseCounters(js, cnt);
        g_total["layer" + std::to_string(layer) + "_frontier"] = g_frontier.size();
        if (cnt.count("deadline_skipped") && cnt["deadline_skipped"]) { deadlineHit = true; g_total["deadline_skipped"] += cnt["deadline_skipped"]; }
        std::vector<std::pair<uint64_t, std::string>> crashes;
        parseCrashes(js, crashes);
        g_total["worker_deaths"] += crashes.size();
        for (auto& cr : crashes) if (cr.first < g_frontier.size() && g_crashed.size() < 20) g_crashed.push_back({g_frontier[cr.first], cr.second, g_prog[cr.first], g_reduced});
        munmap((void*)g_prog, progBytes); g_prog = nullptr;
        // merge side files
        struct Succ { uint64_t cs; size_t oi; Opn op; };
        std::map<H128, Succ> succ;
        uint64_t finalNew = 0;
        for (int w = 0; w < 64; w++) {
            std::string p = g_sideBase + ".w" + std::to_string(w);
            FILE* f = fopen(p.c_str(), "r");
            if (!f) continue;
            char* line = nullptr; size_t cap = 0; ssize_t n;
            while ((n = getline(&line, &cap, f)) > 0) {
                if (line[n - 1] != '\n') break;  // partial line of a killed worker
                line[n - 1] = 0;
                std::vector<std::string> fl; { char* sp = line; char* tk; while ((tk = strsep(&sp, "\t")) != nullptr) fl.push_back(tk); }
                if (fl[0] == "C") { for (int k = 0; k < S_N && k + 1 < (int)fl.size(); k++) { uint64_t v = strtoull(fl[k + 1].c_str(), nullptr, 10); if (v) g_total[slotName(k)] += v; } continue; }
                if (fl[0] == "K" && fl.size() >= 3) { g_total[fl[1]] += strtoull(fl[2].c_str(), nullptr, 10); continue; }
                if (fl.size() < 4) continue;
                auto rdOp = [&](size_t at, Opn& o) { if (fl.size() < at + 6) return false; o.code = atoi(fl[at].c_str()); o.t = atoi(fl[at + 1].c_str()); o.a = atoi(fl[at + 2].c_str()); o.b = atoi(fl[at + 3].c_str()); o.v = atoi(fl[at + 4].c_str()); o.w = atoi(fl[at + 5].c_str()); return true; };
                uint64_t cs = strtoull(fl[2].c_str(), nullptr, 10); size_t oi = strtoull(fl[3].c_str(), nullptr, 10);
                if (fl[0] == "S") {
                    if (fl[1].size() != 32) { g_total["harness_malformed_side_line"]++; continue; }
                    H128 h; h.a = strtoull(fl[1].substr(0, 16).c_str(), nullptr, 16); h.b = strtoull(fl[1].substr(16).c_str(), nullptr, 16);
                    if (g_finalLayer) { if (g_visited.insert(h).second) finalNew++; continue; }   // last layer: only the number of distinct new states is needed
                    Succ s{cs, oi, Opn()};
                    if (!rdOp(4, s.op)) continue;
                    auto it = succ.find(h);
                    if (it == succ.end() || std::make_pair(cs, oi) < std::make_pair(it->second.cs, it->second.oi)) succ[h] = s;
                } else if (fl[0] == "V") {
                    Opn o; if (!rdOp(4, o) || cs >= g_frontier.size()) continue;
                    const std::string& kind = fl[1];
                    auto it = kinds.find(kind);
                    if (it != kinds.end() && (it->second.depth < layer || std::make_pair(it->second.cs, it->second.opIdx) <= std::make_pair(cs, oi))) continue;
                    Instance in; in.s = g_frontier[cs]; in.op = o; in.opIdx = oi; in.depth = layer; in.kind = kind; in.cs = cs; in.reduced = g_reduced;
                    kinds[kind] = in;
                }
            }
            free(line); fclose(f); unlink(p.c_str());
        }
        // next frontier, ordered by (discovering case, op index): independent of the number of workers
        std::vector<std::pair<std::pair<uint64_t, size_t>, H128>> order;
        for (auto& kv : succ) if (!g_visited.count(kv.first)) order.push_back({{kv.second.cs, kv.second.oi}, kv.first});
        std::sort(order.begin(), order.end());
        std::vector<State> next;
        for (auto& o : order) {
            g_visited.insert(o.second);
            if (g_finalLayer) continue;
            const Succ& sc = succ[o.second];
            State ns = g_frontier[sc.cs];
            ns.ops.push_back(sc.op); ns.idx.push_back((uint16_t)sc.oi); ns.h = o.second;
            next.push_back(std::move(ns));
        }
        g_total["layer" + std::to_string(layer) + "_new_states"] = g_finalLayer ? finalNew : order.size();
        if (!deadlineHit) completedDepth = layer + 1;
        if (layer == 0 && !g_frontier.empty() && g_samples.size() < 4 && !next.empty()) g_samples.push_back("{\"history\":" + histJson(next[next.size() / 2]) + ",\"state_hash\":" + jstr(hex128(next[next.size() / 2].h)) + "}");
        g_frontier.swap(next);
        if (deadlineHit) break;
        if (fix && g_frontier.empty()) { closed = true; break; }
    }
    if (!g_frontier.empty() && g_samples.size() < 6) g_samples.push_back("{\"history\":" + histJson(g_frontier[g_frontier.size() / 3]) + ",\"state_hash\":" + jstr(hex128(g_frontier[g_frontier.size() / 3].h)) + "}");
    for (auto& kv : kinds) { Instance in = kv.second; in.count = g_total["discrepancy:" + kv.first]; g_report.push_back(in); }
    g_total["states"] = g_visited.size();
    g_total["discrepancy_kinds"] = g_report.size();
    g_total["completed_depth"] = completedDepth;
    g_total["fixpoint_closed"] = closed ? 1 : 0;
    if (deadlineHit) g_total["deadline_skipped"] += 1;
    if (fix && !closed && !deadlineHit) g_total["deadline_skipped"] += 1;   // layer cap reached without closure: not exhaustive

    clock_gettime(CLOCK_MONOTONIC, &ts);
    double exploreWall = ts.tv_sec + ts.tv_nsec * 1e-9 - t0;
    // ---- report pass: writes the result document
    Runner R;
    R.name = a.str("space", fix ? "fixpoint" : "bfs");
    R.total = 1 + KNOWN_DEFECTS.size() + g_report.size() + g_crashed.size();
    g_reportTotal = R.total;
    R.fn = reportCase;
    R.workers = std::min<int>(workers, 4);
    R.out = out;
    R.case_timeout_s = 120;
    R.describe = [](uint64_t i) { return "{\"report_case\":" + std::to_string(i) + "}"; };
    std::string ls = "[";
    for (size_t i = 0; i < layerSizes.size(); i++) { if (i) ls += ","; ls += std::to_string(layerSizes[i]); }
    ls += "]";
    std::string act;
    for (size_t i = 0; i < g_active.size(); i++) if (g_active[i]) { if (!act.empty()) act += ","; act += std::to_string(i); }
    R.extra_json = std::string("\"depth\":") + std::to_string(completedDepth) + ",\"alphabet\":" + std::to_string(g_total["alphabet_transitions_of_initial_state"]) +
                   ",\"bounds\":{\"mode\":" + jstr(fix ? "fixpoint-structural" : "bounded-full") + ",\"requested_depth\":" + std::to_string(fix ? maxLayers : depth) +
                   ",\"frontier_sizes\":" + ls + ",\"closed\":" + (closed ? "true" : "false") + ",\"active_nodes\":" + jstr(act) + ",\"last_layer_reduced_operands\":" + (reduceLast ? "true" : "false") + ",\"explore_wall_s\":" + std::to_string((int)exploreWall) + "}";
    int r = R.run();
    if (r == -2) return 3;
    if (r < 0) return 2;
    return r ? 1 : 0;
}
