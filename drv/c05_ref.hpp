// c05_ref.hpp - independent references and small call wrappers for property C05
// (transcoders and encoding detection).  Nothing in this file is derived from Xerces' own
// tables or control flow:
//   * UTF-8:  a hand-written DFA over the byte classes of Unicode Table 3-7 ("Well-Formed UTF-8
//             Byte Sequences"), 9 states x 256 bytes, built from the ranges of the table.
//   * UTF-16 / UTF-32: arithmetic from the definitions D91/D90 of the Unicode Standard.
//   * code pages: ICU ucnv_* called directly with STOP callbacks and fallback mappings off.
#pragma once
#include "xv_run.hpp"

#include <unicode/ucnv.h>
#include <unicode/ucnv_err.h>
#include <unicode/uversion.h>

#include <xercesc/util/PlatformUtils.hpp>
#include <xercesc/util/TransService.hpp>
#include <xercesc/util/TranscodingException.hpp>
#include <xercesc/util/UTFDataFormatException.hpp>
#include <xercesc/util/XMLException.hpp>
#include <xercesc/util/XMLString.hpp>

namespace c05 {
using namespace xercesc;
typedef std::basic_string<uint16_t> U16;  // sequence of UTF-16 code units
typedef std::string Bytes;

// ------------------------------------------------------------------------------------------------
// KNOWN_DEFECTS: genuine library defects found by this check on the pinned tree.  In the large
// enumerations a case whose observed behaviour is EXACTLY the listed wrong behaviour is counted under
// "known_defect:<id>" instead of being reported millions of times; every defect is still reported
// once, as a VIOLATION of kind <id>, by its minimal witness in space "witness" (c05_xcode) or
// "docwitness" (c05_docs).  Any other deviation in the same area is a normal violation.
// Run a driver with --strict 1 to turn every known-defect hit back into a violation.
// ------------------------------------------------------------------------------------------------
struct KnownDefect { const char* id; const char* what; };
static const KnownDefect KNOWN_DEFECTS[] = {
    {"ucs4-out-of-range-decoded", "XMLUCS4Transcoder::transcodeFrom decodes 32-bit values > 0x10FFFF into a bogus unit pair instead of throwing"},
    {"ucs4-surrogate-decoded", "XMLUCS4Transcoder::transcodeFrom passes UCS-4 values D800..DFFF through as UTF-16 units (two of them form an accepted pair)"},
    {"ucs4-swapped-supplementary-not-swapped", "XMLUCS4Transcoder::transcodeTo writes supplementary characters in native byte order when the target order is swapped"},
    {"table-fallback-mapping", "intrinsic Windows-1252/IBM037/IBM1047/IBM1140 encoders map U+FF01..U+FF5E (and other best-fit characters) to ASCII look-alikes instead of reporting them unrepresentable"},
    {"table-cantranscodeto-truncates", "XML256TableTranscoder::canTranscodeTo(unsigned int) passes the code point to xlatOneTo(XMLCh): values > 0xFFFF are truncated to 16 bits, so e.g. U+10041 is reported representable"},
    {"icu-default-ignorable-dropped", "ICUTranscoder::transcodeTo/canTranscodeTo: ICU's STOP/SUBSTITUTE callbacks skip unmappable default-ignorable code points (U+00AD, U+200B, ...), which are silently dropped instead of being reported"},
    {"ibm1047-nl-decodes-to-lf", "XMLIBM1047Transcoder gFromTable[0x15] is U+000A while gToTable maps U+0085 -> 0x15 and U+000A -> 0x25 (IBM037/IBM1140 and the IBM/ICU ibm-1047 table decode 0x15 as U+0085): NEL written by the encoder is read back as LF"},
    {"table-nul-unrepresentable", "XML256TableTranscoder::xlatOneTo uses 0 as 'not found', so U+0000 is reported unrepresentable"},
    {"icu-cantranscodeto-supplementary", "ICUTranscoder::canTranscodeTo builds the surrogate pair without subtracting 0x10000 and so tests a different (or ill-formed) character"},
    {"icu-unrepresentable-overread", "ICUTranscoder::transcodeTo reads *startSrc for the error message after ICU advanced it past the offending character: one XMLCh past the end of the source buffer when that character is the last one (ASan: heap-buffer-overflow READ 2)"},
    {"icu-illegal-input-substituted", "ICUTranscoder::transcodeFrom leaves ICU's default to-Unicode callback (SUBSTITUTE) installed: illegal and unassigned byte sequences of every ICU-provided encoding are decoded as U+FFFD / U+001A instead of raising TranscodingException"},
    {"ucs4-bom-shift-overread", "XMLReader::doInitDecode removes a UCS-4 BOM with 'for (i = 0; i < fRawBytesAvail; i++) fRawByteBuf[i] = fRawByteBuf[i+4]': with a full raw buffer (document >= 49152 bytes) it indexes fRawByteBuf[49152..49155] (UBSan: index out of bounds for XMLByte[49152])"},
    {"contradictory-endian-decl-misaligned-read", "XMLReader::setEncoding accepts an endian-specific UTF-16/UCS-4 name (e.g. UTF-16BE) in a document auto-sensed as UTF-8/single-byte without a family check and hands fRawByteBuf+odd offset to XMLUTF16Transcoder::transcodeFrom, which loads char16_t through a misaligned pointer (UBSan: load of misaligned address; seen once the document spans more than one raw buffer)"},
    {"icu-truncated-input-swallowed", "ICUTranscoder::transcodeFrom (flush=false) consumes a truncated trailing sequence into converter state; TranscodeFromStr and XMLReader then see a clean end of input"},
    {"icu-decode-pair-overflow-lost", "ICUTranscoder::transcodeFrom with room for one XMLCh and a supplementary character next: ICU emits the high surrogate, reports the bytes eaten and keeps the low surrogate in its internal overflow buffer; it is lost when the input ends there"},
    {"icu-encode-overflow-lost", "ICUTranscoder::transcodeTo when a character straddles the end of the output block: the character is reported eaten while part of its bytes stay in ICU's internal overflow buffer; the tail is lost when the caller stops (TranscodeToStr), or the next call fills the block from that buffer, eats nothing and is misreported as Trans_Unrepresentable"},
};
static bool g_strict = false;
inline bool is_known_id(const std::string& id) {
    for (auto& k : KNOWN_DEFECTS) if (id == k.id) return true;
    return false;
}
// report a deviation that matches a known defect exactly
inline void known_or_violation(xv::Ctx& c, const char* id, const std::string& detail) {
    if (g_strict || !is_known_id(id)) c.violation(id, detail);
    else c.count(std::string("known_defect:") + id);
}

// ------------------------------------------------------------------------------------------------
// UTF-8 reference DFA, Unicode Table 3-7
// ------------------------------------------------------------------------------------------------
enum { U8_START = 0, U8_T1 = 1, U8_T2 = 2, U8_E0 = 3, U8_ED = 4, U8_F0 = 5, U8_F13 = 6, U8_F4 = 7, U8_REJ = 8, U8_NSTATES = 9 };
struct Utf8Dfa {
    uint8_t next[U8_NSTATES][256];
    Utf8Dfa() {
        for (int s = 0; s < U8_NSTATES; s++) for (int b = 0; b < 256; b++) next[s][b] = U8_REJ;
        auto range = [&](int s, int lo, int hi, int t) { for (int b = lo; b <= hi; b++) next[s][b] = (uint8_t)t; };
        // first byte column
        range(U8_START, 0x00, 0x7F, U8_START);  // complete
        range(U8_START, 0xC2, 0xDF, U8_T1);
        range(U8_START, 0xE0, 0xE0, U8_E0);
        range(U8_START, 0xE1, 0xEC, U8_T2);
        range(U8_START, 0xED, 0xED, U8_ED);
        range(U8_START, 0xEE, 0xEF, U8_T2);
        range(U8_START, 0xF0, 0xF0, U8_F0);
        range(U8_START, 0xF1, 0xF3, U8_F13);
        range(U8_START, 0xF4, 0xF4, U8_F4);
        // second byte column (restricted rows)
        range(U8_E0, 0xA0, 0xBF, U8_T1);
        range(U8_ED, 0x80, 0x9F, U8_T1);
        range(U8_F0, 0x90, 0xBF, U8_T2);
        range(U8_F13, 0x80, 0xBF, U8_T2);
        range(U8_F4, 0x80, 0x8F, U8_T2);
        // plain trailing bytes
        range(U8_T2, 0x80, 0xBF, U8_T1);
        range(U8_T1, 0x80, 0xBF, U8_START);  // complete
    }
};
static const Utf8Dfa& utf8_dfa() { static Utf8Dfa d; return d; }

// number of bytes the first byte announces by its unary prefix (1 for 0xxxxxxx, 1 for a stray 10xxxxxx)
inline int utf8_announced_len(uint8_t b) {
    if (b < 0x80) return 1;
    int n = 0;
    while (n < 8 && (b & (0x80 >> n))) n++;
    return n == 1 ? 1 : n;
}

inline void append_scalar(U16& out, uint32_t cp) {
    if (cp < 0x10000) out.push_back((uint16_t)cp);
    else { cp -= 0x10000; out.push_back((uint16_t)(0xD800 + (cp >> 10))); out.push_back((uint16_t)(0xDC00 + (cp & 0x3FF))); }
}
inline bool is_surrogate(uint32_t v) { return v >= 0xD800 && v <= 0xDFFF; }
inline bool is_scalar(uint32_t v) { return v <= 0x10FFFF && !is_surrogate(v); }

// result of reference-parsing a byte string into characters
struct RefItem { uint32_t cp; uint8_t nbytes; uint8_t nunits; };
struct RefParse {
    std::vector<RefItem> items;       // complete characters, in order
    enum Term { END, INCOMPLETE, ILLFORMED } term = END;
    size_t term_pos = 0;              // byte offset where the incomplete / ill-formed sequence starts
    int announced = 0;                // bytes announced by the lead byte of that sequence
    size_t avail = 0;                 // bytes available from term_pos to the end of the input
    U16 units(size_t nitems) const { U16 o; for (size_t i = 0; i < nitems && i < items.size(); i++) append_scalar(o, items[i].cp); return o; }
};

inline RefParse ref_utf8_parse(const uint8_t* s, size_t n) {
    const Utf8Dfa& D = utf8_dfa();
    RefParse r;
    size_t i = 0;
    while (i < n) {
        int st = U8_START;
        size_t j = i;
        uint32_t cp = 0;
        bool done = false;
        while (j < n) {
            uint8_t b = s[j];
            int nx = D.next[st][b];
            if (nx == U8_REJ) { r.term = RefParse::ILLFORMED; r.term_pos = i; r.announced = utf8_announced_len(s[i]); r.avail = n - i; return r; }
            if (st == U8_START) {
                if (b < 0x80) cp = b;
                else if (b < 0xE0) cp = b & 0x1F;
                else if (b < 0xF0) cp = b & 0x0F;
                else cp = b & 0x07;
            } else cp = (cp << 6) | (b & 0x3F);
            j++;
            st = nx;
            if (st == U8_START) { done = true; break; }
        }
        if (!done) { r.term = RefParse::INCOMPLETE; r.term_pos = i; r.announced = utf8_announced_len(s[i]); r.avail = n - i; return r; }
        r.items.push_back(RefItem{cp, (uint8_t)(j - i), (uint8_t)(cp >= 0x10000 ? 2 : 1)});
        i = j;
    }
    r.term = RefParse::END; r.term_pos = n;
    return r;
}

inline Bytes ref_utf8_encode(uint32_t cp) {
    Bytes o;
    if (cp < 0x80) o += (char)cp;
    else if (cp < 0x800) { o += (char)(0xC0 | (cp >> 6)); o += (char)(0x80 | (cp & 0x3F)); }
    else if (cp < 0x10000) { o += (char)(0xE0 | (cp >> 12)); o += (char)(0x80 | ((cp >> 6) & 0x3F)); o += (char)(0x80 | (cp & 0x3F)); }
    else { o += (char)(0xF0 | (cp >> 18)); o += (char)(0x80 | ((cp >> 12) & 0x3F)); o += (char)(0x80 | ((cp >> 6) & 0x3F)); o += (char)(0x80 | (cp & 0x3F)); }
    return o;
}
inline Bytes ref_utf16_encode(uint32_t cp, bool be) {
    U16 u; append_scalar(u, cp);
    Bytes o;
    for (uint16_t x : u) { if (be) { o += (char)(x >> 8); o += (char)(x & 0xFF); } else { o += (char)(x & 0xFF); o += (char)(x >> 8); } }
    return o;
}
inline Bytes ref_utf32_encode(uint32_t cp, bool be) {
    Bytes o;
    if (be) { o += (char)(cp >> 24); o += (char)((cp >> 16) & 0xFF); o += (char)((cp >> 8) & 0xFF); o += (char)(cp & 0xFF); }
    else { o += (char)(cp & 0xFF); o += (char)((cp >> 8) & 0xFF); o += (char)((cp >> 16) & 0xFF); o += (char)(cp >> 24); }
    return o;
}

// ------------------------------------------------------------------------------------------------
// ICU reference converter (strict: STOP callbacks, no fallback mappings)
// ------------------------------------------------------------------------------------------------
struct IcuRef {
    UConverter* cnv = nullptr;
    std::string name;
    bool open(const char* n, bool substituting = false) {
        UErrorCode e = U_ZERO_ERROR;
        cnv = ucnv_open(n, &e);
        if (U_FAILURE(e) || !cnv) { cnv = nullptr; return false; }
        name = n;
        if (substituting) return true;  // ICU defaults: used only to PREDICT the exact output of the known defect icu-illegal-input-substituted
        ucnv_setFallback(cnv, 0);
        e = U_ZERO_ERROR;
        ucnv_setToUCallBack(cnv, UCNV_TO_U_CALLBACK_STOP, nullptr, nullptr, nullptr, &e);
        e = U_ZERO_ERROR;
        ucnv_setFromUCallBack(cnv, UCNV_FROM_U_CALLBACK_STOP, nullptr, nullptr, nullptr, &e);
        return true;
    }
    ~IcuRef() { if (cnv) ucnv_close(cnv); }
    // decode a complete byte string; returns false (with error name) when ICU rejects it
    bool decode(const uint8_t* s, size_t n, U16& out, std::string* err = nullptr) {
        UChar buf[64];
        std::vector<UChar> big;
        UChar* dst = buf; int32_t cap = 64;
        if (n * 2 + 8 > 64) { big.resize(n * 2 + 8); dst = big.data(); cap = (int32_t)big.size(); }
        UErrorCode e = U_ZERO_ERROR;
        int32_t len = ucnv_toUChars(cnv, dst, cap, (const char*)s, (int32_t)n, &e);
        if (e == U_STRING_NOT_TERMINATED_WARNING) e = U_ZERO_ERROR;
        if (U_FAILURE(e)) { if (err) *err = u_errorName(e); return false; }
        out.assign((const uint16_t*)dst, (size_t)len);
        return true;
    }
    // encode well-formed UTF-16; returns false when some character has no round-trip mapping
    bool encode(const uint16_t* s, size_t n, Bytes& out, std::string* err = nullptr) {
        char buf[128];
        std::vector<char> big;
        char* dst = buf; int32_t cap = 128;
        if (n * 8 + 16 > 128) { big.resize(n * 8 + 16); dst = big.data(); cap = (int32_t)big.size(); }
        UErrorCode e = U_ZERO_ERROR;
        int32_t len = ucnv_fromUChars(cnv, dst, cap, (const UChar*)s, (int32_t)n, &e);
        if (e == U_STRING_NOT_TERMINATED_WARNING) e = U_ZERO_ERROR;
        if (U_FAILURE(e)) { if (err) *err = u_errorName(e); return false; }
        out.assign(dst, (size_t)len);
        return true;
    }
    // a character is representable iff it has a round-trip mapping: ICU's STOP callback silently SKIPS unmappable default-ignorable
    // code points (U+00AD, U+200B, U+E0000..) and returns success with no bytes, so success alone is not enough
    bool encode_cp(uint32_t cp, Bytes& out) {
        U16 u; append_scalar(u, cp);
        if (!encode(u.data(), u.size(), out) || out.empty()) return false;
        U16 back;
        return decode((const uint8_t*)out.data(), out.size(), back) && back == u;
    }
};

// ------------------------------------------------------------------------------------------------
// Xerces call wrappers.  Buffers are exact-size heap blocks so that ASan sees any over-read/over-write.
// ------------------------------------------------------------------------------------------------
struct ExactBuf {  // cache of exact-size heap blocks indexed by size
    std::vector<uint8_t*> blocks;
    uint8_t* get(size_t n) {
        if (n >= blocks.size()) blocks.resize(n + 1, nullptr);
        if (!blocks[n]) blocks[n] = (uint8_t*)malloc(n ? n : 1);
        return blocks[n];
    }
};
static ExactBuf g_src, g_dst, g_sz;

inline std::string exc_name(const XMLException& e) {
    std::string t;
    for (const XMLCh* p = e.getType(); p && *p; p++) t += (char)*p;
    return t + ":" + std::to_string((int)e.getCode());
}

struct FromRes {
    bool threw = false; std::string exc;
    U16 out; size_t eaten = 0; std::vector<uint8_t> sizes;
};
inline FromRes x_from(XMLTranscoder* t, const uint8_t* src, size_t n, size_t maxChars) {
    FromRes r;
    uint8_t* s = g_src.get(n);
    if (n) memcpy(s, src, n);
    XMLCh* out = (XMLCh*)g_dst.get(maxChars * sizeof(XMLCh));
    uint8_t* sz = g_sz.get(maxChars);
    memset(out, 0xEE, maxChars * sizeof(XMLCh));
    memset(sz, 0xEE, maxChars);
    XMLSize_t eaten = 0;
    try {
        XMLSize_t got = t->transcodeFrom(s, n, out, maxChars, eaten, sz);
        r.out.assign((const uint16_t*)out, got);
        r.sizes.assign(sz, sz + got);
        r.eaten = eaten;
    } catch (const XMLException& e) { r.threw = true; r.exc = exc_name(e); }
    return r;
}
struct ToRes {
    bool threw = false; std::string exc;
    Bytes out; size_t eaten = 0;
};
// g_src_pad_units: the ICU wrapper reads one unit past the source when the LAST character is unrepresentable (known defect
// icu-unrepresentable-overread, reported by its witness with an exact buffer); drivers set this to 1 for ICU-provided encodings so
// that the rest of the space can be explored without a sanitizer abort per case.
static size_t g_src_pad_units = 0;
inline ToRes x_to(XMLTranscoder* t, const uint16_t* src, size_t n, size_t maxBytes, XMLTranscoder::UnRepOpts opt = XMLTranscoder::UnRep_Throw) {
    ToRes r;
    XMLCh* s = (XMLCh*)g_src.get((n + g_src_pad_units) * sizeof(XMLCh));
    if (n) memcpy(s, src, n * sizeof(XMLCh));
    for (size_t i = 0; i < g_src_pad_units; i++) s[n + i] = 0x0041;
    uint8_t* out = g_dst.get(maxBytes);
    memset(out, 0xEE, maxBytes);
    XMLSize_t eaten = 0;
    try {
        XMLSize_t got = t->transcodeTo(s, n, out, maxBytes, eaten, opt);
        r.out.assign((const char*)out, got);
        r.eaten = eaten;
    } catch (const XMLException& e) { r.threw = true; r.exc = exc_name(e); }
    return r;
}
inline XMLTranscoder* make_tc(const char* name, XMLSize_t block = 2048, int* code = nullptr) {
    XMLTransService::Codes rc = XMLTransService::Ok;
    XMLTranscoder* t = XMLPlatformUtils::fgTransService->makeNewTranscoderFor(name, rc, block, XMLPlatformUtils::fgMemoryManager);
    if (code) *code = (int)rc;
    return t;
}

inline std::string hex16(const U16& u) {
    std::string o; char b[8];
    for (uint16_t x : u) { snprintf(b, sizeof b, "%04X ", x); o += b; }
    if (!o.empty()) o.pop_back();
    return o;
}
inline std::string hexb(const uint8_t* s, size_t n) { return xv::hexs(std::string((const char*)s, n)); }
inline std::string hexv(const std::vector<uint8_t>& v) { return v.empty() ? "" : hexb(v.data(), v.size()); }

}  // namespace c05
