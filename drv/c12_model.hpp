// c12_model.hpp - reference side of the C12 check (serializer round trip / XMLFormatter escaping).
// Everything here is written from the XML 1.0/1.1 recommendations and from the ICU converter tables; it does not
// call into the serializer / formatter code under test.
#pragma once
#include "xv_xml.hpp"
#include <string>
#include <unicode/ucnv.h>

namespace c12 {
using namespace xv;
typedef std::u16string U16;

inline U16 u16(const char* ascii) { U16 o; for (; *ascii; ascii++) o += (char16_t)(unsigned char)*ascii; return o; }
inline U16 u16(const XMLCh* s) { return s ? U16((const char16_t*)s) : U16(); }
inline const XMLCh* xs(const U16& s) { return (const XMLCh*)s.c_str(); }
inline std::string e16(const U16& s) { return esc16((const XMLCh*)s.data(), s.size()); }
// printable rendering used in JSON details (ASCII; everything else as \uXXXX)
inline std::string show(const U16& s) {
    std::string o;
    for (char16_t c : s) {
        if (c >= 0x20 && c < 0x7f && c != '\\') o += (char)c;
        else { char b[8]; snprintf(b, sizeof b, "\\u%04X", (unsigned)c); o += b; }
    }
    return o;
}

// ------------------------------------------------------------------------------------------- encodings
struct EncInfo { const char* xname; const char* icu; const char* expat; bool bomBytes; };
// xname: name given to the serializer (and written into the XML declaration); icu: converter used by the reference;
// expat: encoding name expat 2.5 implements natively (null: expat cannot read this encoding)
static const EncInfo ENC[] = {
    {"UTF-8", "UTF-8", "UTF-8", true},
    {"UTF-16", "UTF-16LE", "UTF-16", true},       // Xerces writes platform byte order (little endian on this box)
    {"UTF-16BE", "UTF-16BE", "UTF-16BE", true},
    {"ISO-8859-1", "ISO-8859-1", "ISO-8859-1", false},
    {"US-ASCII", "US-ASCII", "US-ASCII", false},
    {"Windows-1252", "windows-1252", nullptr, false},
    {"IBM1140", "ibm-1140", nullptr, false},
    {"ISO-8859-15", "ISO-8859-15", nullptr, false},
};
static const int NENC = 8;
static const int ENC_INTERNAL = 1;  // writeToString: always UTF-16 in platform order

struct IcuRef {
    UConverter* cv[NENC] = {nullptr};
    std::map<uint32_t, bool> repCache[NENC];
    UConverter* get(int e) {
        if (!cv[e]) {
            UErrorCode st = U_ZERO_ERROR;
            cv[e] = ucnv_open(ENC[e].icu, &st);
            if (U_FAILURE(st) || !cv[e]) { fprintf(stderr, "c12: ICU converter %s unavailable\n", ENC[e].icu); exit(2); }
            st = U_ZERO_ERROR;
            ucnv_setFromUCallBack(cv[e], UCNV_FROM_U_CALLBACK_STOP, nullptr, nullptr, nullptr, &st);
            st = U_ZERO_ERROR;
            ucnv_setToUCallBack(cv[e], UCNV_TO_U_CALLBACK_STOP, nullptr, nullptr, nullptr, &st);
        }
        return cv[e];
    }
    // encode a UTF-16 string; false if some character is not representable
    bool encode(int e, const U16& s, std::string& out) {
        UConverter* c = get(e);
        ucnv_resetFromUnicode(c);
        std::string buf(s.size() * 4 + 16, 0);
        UErrorCode st = U_ZERO_ERROR;
        int32_t n = ucnv_fromUChars(c, &buf[0], (int32_t)buf.size(), (const UChar*)s.data(), (int32_t)s.size(), &st);
        if (U_FAILURE(st)) return false;
        buf.resize(n);
        out = buf;
        return true;
    }
    bool decode(int e, const std::string& bytes, U16& out) {
        UConverter* c = get(e);
        ucnv_resetToUnicode(c);
        U16 buf(bytes.size() + 8, 0);
        UErrorCode st = U_ZERO_ERROR;
        int32_t n = ucnv_toUChars(c, (UChar*)&buf[0], (int32_t)buf.size(), bytes.data(), (int32_t)bytes.size(), &st);
        if (U_FAILURE(st)) return false;
        buf.resize(n);
        out = buf;
        return true;
    }
    bool rep(int e, uint32_t cp) {
        if (e <= 2) return true;
        auto it = repCache[e].find(cp);
        if (it != repCache[e].end()) return it->second;
        U16 s;
        if (cp >= 0x10000) { s += (char16_t)(0xD800 + ((cp - 0x10000) >> 10)); s += (char16_t)(0xDC00 + ((cp - 0x10000) & 0x3FF)); }
        else s += (char16_t)cp;
        std::string o;
        // ICU's STOP callback silently skips default-ignorable code points (U+00AD ...): no output means not representable
        bool r = encode(e, s, o) && !o.empty();
        repCache[e][cp] = r;
        return r;
    }
    bool repAll(int e, const U16& s) {
        for (size_t i = 0; i < s.size(); i++) {
            uint32_t cp = s[i];
            if (cp >= 0xD800 && cp < 0xDC00 && i + 1 < s.size()) { cp = 0x10000 + ((cp - 0xD800) << 10) + (s[i + 1] - 0xDC00); i++; }
            if (!rep(e, cp)) return false;
        }
        return true;
    }
};
static IcuRef g_icu;

// ------------------------------------------------------------------------------------------- character classes (XML 1.0 5th / 1.1 2nd ed., production [2])
inline bool isChar10(uint32_t c) { return c == 9 || c == 0xA || c == 0xD || (c >= 0x20 && c <= 0xD7FF) || (c >= 0xE000 && c <= 0xFFFD) || (c >= 0x10000 && c <= 0x10FFFF); }
inline bool isChar11(uint32_t c) { return (c >= 1 && c <= 0xD7FF) || (c >= 0xE000 && c <= 0xFFFD) || (c >= 0x10000 && c <= 0x10FFFF); }
inline bool isRestricted11(uint32_t c) { return (c >= 1 && c <= 8) || c == 0xB || c == 0xC || (c >= 0xE && c <= 0x1F) || (c >= 0x7F && c <= 0x84) || (c >= 0x86 && c <= 0x9F); }

inline std::vector<uint32_t> cps(const U16& s) {
    std::vector<uint32_t> o;
    for (size_t i = 0; i < s.size(); i++) {
        uint32_t c = s[i];
        if (c >= 0xD800 && c < 0xDC00 && i + 1 < s.size() && s[i + 1] >= 0xDC00 && s[i + 1] < 0xE000) { c = 0x10000 + ((c - 0xD800) << 10) + (s[i + 1] - 0xDC00); i++; }
        o.push_back(c);
    }
    return o;
}
// can the string appear *literally* (no character references available) in a document of this version?
inline bool literalOk(const U16& s, bool v11) {
    for (uint32_t c : cps(s)) {
        if (c >= 0xD800 && c <= 0xDFFF) return false;
        if (v11) { if (!isChar11(c) || isRestricted11(c)) return false; }
        else if (!isChar10(c)) return false;
    }
    return true;
}
// can the string be expressed where character references are available (character data, attribute values)?
inline bool refOk(const U16& s, bool v11) {
    for (uint32_t c : cps(s)) {
        if (c >= 0xD800 && c <= 0xDFFF) return false;
        if (v11 ? !isChar11(c) : !isChar10(c)) return false;
    }
    return true;
}
// End-of-line normalisation performed by a conforming parser on literal text (XML 1.0 2.11 / XML 1.1 2.11)
inline U16 eolNorm(const U16& s, bool v11) {
    U16 o;
    for (size_t i = 0; i < s.size(); i++) {
        char16_t c = s[i];
        if (c == 0xD) {
            if (i + 1 < s.size() && (s[i + 1] == 0xA || (v11 && s[i + 1] == 0x85))) i++;
            o += (char16_t)0xA;
        } else if (v11 && (c == 0x85 || c == 0x2028)) o += (char16_t)0xA;
        else o += c;
    }
    return o;
}
inline bool contains(const U16& s, const char* pat) { return s.find(u16(pat)) != U16::npos; }

}  // namespace c12
