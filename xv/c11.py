"""C11 - regular expressions match exactly the language their syntax defines (xercesc::RegularExpression).

Driver: drv/c11_regex.cpp (one C++ driver: AST enumerator, renderer, two independent reference matchers, all oracles).
Notes, bounds, findings: docs/c11.md.
"""
from .checks import _sum

D = "c11_regex"


def _ast(name, atoms, nodes, syms, strlen, count_from=0, quants="full", groups=1, extra=()):
    return dict(name=name, driver=D,
                args=["--space", "ast", "--atoms", atoms, "--quants", quants, "--groups", groups, "--nodes", nodes, "--syms", syms,
                      "--strlen", strlen, "--count-from-nodes", count_from] + list(extra))


QUICK = [
    dict(name="known-defect-witnesses", driver=D, args=["--space", "known", "--case-timeout", 120]),
    dict(name="malformed-catalogue+badquant-n3", driver=D, args=["--space", "malformed", "--nodes", 3, "--case-timeout", 120]),
    _ast("ast-full-n3-len4", "full", 3, "full", 4, extra=["--xopts", "X,XFH"]),
    _ast("ast-small-n4-len4", "small", 4, "abc", 4, count_from=4),
    _ast("ast-tiny-n5-len4", "tiny", 5, "abc", 4, count_from=5, quants="mini", groups=0),
    dict(name="flags-ismx-n3-len3", driver=D, args=["--space", "flags", "--nodes", 3, "--strlen", 3, "--fh", "-,FH"]),
    dict(name="history-small-n3", driver=D, args=["--space", "history", "--atoms", "small", "--nodes", 3]),
    dict(name="tokrep-n3-len4", driver=D, args=["--space", "tokrep", "--nodes", 3, "--strlen", 4]),
    dict(name="facet-n2-len3", driver=D, args=["--space", "facet", "--nodes", 2, "--strlen", 3]),
]

THOROUGH = [
    dict(name="known-defect-witnesses", driver=D, args=["--space", "known", "--case-timeout", 120]),
    dict(name="malformed-catalogue+badquant-n4", driver=D, args=["--space", "malformed", "--nodes", 4, "--case-timeout", 120]),
    _ast("ast-full-n4-len3", "full", 4, "full", 3, extra=["--xopts", "X,XFH"]),
    _ast("ast-full-n3-len5", "full", 3, "full", 5, count_from=99, extra=["--xopts", "X,XFH", "--popts", "-,FH"]),
    _ast("ast-small4-n5-len3", "small4", 5, "abc", 3, count_from=5, extra=["--xopts", "X,XFH", "--case-timeout", 300]),
    _ast("ast-tiny-n5-len4", "tiny", 5, "abc", 4, count_from=99, quants="mini", groups=0, extra=["--case-timeout", 300]),
    _ast("ast-tiny-star-n6-len4", "tiny", 6, "abc", 4, count_from=6, quants="star", groups=0, extra=["--xopts", "X,XFH", "--case-timeout", 300]),
    dict(name="flags-ismx-n4-len3", driver=D, args=["--space", "flags", "--nodes", 4, "--strlen", 3, "--fh", "-,FH"]),
    dict(name="history-n3", driver=D, args=["--space", "history", "--nodes", 3]),
    dict(name="tokrep-n4-len3", driver=D, args=["--space", "tokrep", "--nodes", 4, "--strlen", 3]),
    dict(name="facet-n3-len3", driver=D, args=["--space", "facet", "--nodes", 3, "--strlen", 3]),
]


def _coverage(rs):
    def tot(prefix):
        return sum(v for r in rs for k, v in r.get("counters", {}).items() if k.startswith(prefix))
    nontrivial = (_sum(rs, "ast_nontrivial_anchored") + _sum(rs, "ast_nontrivial_search") + _sum(rs, "flags:nontrivial_ast_x_flagset") +
                  sum(r.get("counters", {}).get("evaluations", 0) for r in rs if r.get("space") == "malformed"))
    return {
        "distinct_nontrivial": nontrivial,
        "nontrivial_ast_dialect_pairs": _sum(rs, "ast_nontrivial_anchored") + _sum(rs, "ast_nontrivial_search"),
        "nontrivial_ast_flagset_pairs": _sum(rs, "flags:nontrivial_ast_x_flagset"),
        "matches_calls": _sum(rs, "xsd:matches_calls") + _sum(rs, "xpath:matches_calls") + _sum(rs, "flags:matches_calls"),
        "reference_accepts": _sum(rs, "ref_accept_anchored") + _sum(rs, "ref_accept_search") + _sum(rs, "flags:ref_accept"),
        "reference_rejects": _sum(rs, "ref_reject_anchored") + _sum(rs, "ref_reject_search") + _sum(rs, "flags:ref_reject"),
        "reference_crosschecked_strings": _sum(rs, "ref_crosschecked_strings"),
        "compiled_with_fixed_string_only": _sum(rs, "xpath:fixed_string_only"),
        "compiled_with_bm_prefilter": _sum(rs, "xpath:bm_prefilter"),
        "compiled_with_first_char_set": _sum(rs, "xpath:first_char_set"),
        "compiled_with_dotstar_prefix": _sum(rs, "xpath:dotstar_prefix"),
        "history_ordered_pairs": _sum(rs, "history:ordered_pairs"),
        "tokenize_calls": _sum(rs, "tokrep:tokenize_calls"), "replace_calls": _sum(rs, "tokrep:replace_calls"),
        "match_positions_compared": _sum(rs, "tokrep:match_positions_compared") + _sum(rs, "flags:positions_compared_start_end") + _sum(rs, "flags:positions_compared_start_only"),
        "facet_validations": _sum(rs, "facet:validations"),
        "malformed_rejected_with_ParseException": tot("catalogue:M:xsd:ParseException") + tot("catalogue:M:xpath:ParseException") + tot("badquant:xsd:ParseException") + tot("badquant:xpath:ParseException"),
        "mismatches_explained_by_known_defects": tot("known_defect:"),
        "stack_exhaustions_caught": _sum(rs, "guarded:stack_exhaustions_caught"),
    }


SPEC = dict(
    level="exploration",
    rule="Case = one regular-expression AST (or one catalogue entry). ASTs: EVERY tree with <= N nodes over the stated atom set "
         "(full: a b . [ab] [^a] [a-c-[b]] \\d \\w \\s \\i \\c \\p{Lu} \\P{Lu} \\p{IsBasicLatin} \\. U+10000 <empty>; small: a b . [ab] <empty>; small4: a b . [ab]; "
         "tiny: a b .) and operators concat, |, group, ? * + {0} {1} {2} {1,} {0,2} {2,3} (mini: ? * + {2,3}; star: ? * +; tiny sets without explicit group nodes), "
         "rendered to concrete syntax. Each AST is compiled in XML-Schema mode (options X,XFH, in the small/tiny quick runs also XF,XH; matches() anchored) and in the "
         "XPath flavour (options '',F,H,FH; matches() is a search) and run on EVERY string of length <= L over {a,b,c,B,1,space,U+10000} (abc: {a,b,c}); verdicts are "
         "compared with a Brzozowski-derivative matcher over the AST (itself cross-checked on every string against a position-set evaluator) and across the option sets. "
         "quick: full N<=3 x L<=4 (2465 ASTs x 2801 strings), small N<=4 and tiny/mini N<=5 x abc L<=4 (121 strings). thorough: full N<=4 x L<=3 (36805 ASTs x 400), "
         "full N<=3 x L<=5 (19608 strings), small4 N<=5 x abc L<=3 (65148 ASTs), tiny/mini N<=5 and tiny/star N<=6 (10560 ASTs) x abc L<=4. "
         "flags: every AST <= N (quick 3 / thorough 4) nodes over {a,b,B,.,[ab],[^a],^,$} x every subset of {i,s,m,x} x {'',FH} x every string <= 3 over {a,A,b,\\n}: "
         "verdict, option independence and Match group-0 positions. history: every AST <= 3 nodes (quick: small atoms, 605; thorough: full, 2465), one compiled object and "
         "one Match object reused over all 900 ordered pairs of a fixed 30-string set (with and without Match), compared with fresh objects and the reference. tokrep (also: every window [start,end) of every string through matches(str, start, end, Match*) against matches() on a stand-alone copy of the window, verdict and shifted group-0 position): every "
         "full AST <= N nodes (quick N=3 x strings <= 4, thorough N=4 x strings <= 3, over {a,b,c,U+10000}): tokenize/replace/Match positions vs reference leftmost matches. "
         "malformed: 196-entry catalogue (101 malformed => ParseException, 5 bad option strings, 23 must-not-crash, 67 valid corners with by-construction examples) + every "
         "AST <= N (3/4) nodes containing the quantifier {2,1} (374 / 7735). facet: every full AST <= N (2/3) nodes as xs:pattern facet validating 400 instance values "
         "through the real parser. Non-trivial = (AST, dialect) pairs whose reference language accepts and rejects at least one enumerated string (each AST counted in one "
         "run only) + (AST, flag set) pairs of the same kind + catalogue/bad-quantifier cases.",
    trusted_base=["drv/c11_regex.cpp reference semantics: Brzozowski derivatives over the AST, cross-checked against an independent position-set evaluator",
                  "hard-coded class membership of the 9 alphabet characters from XML Schema Part 2 (2nd ed.) appendix F and the Unicode general categories (stable since Unicode 4.0)",
                  "clang 14 ASan/UBSan"],
    assumptions=[
        "\\i and \\c follow XML 1.0 name classes (XSD 1.0): BMP only, so U+10000 is not a member",
        "expressions containing ^ or $ are not compared on strings ending in a line terminator (Perl, F&O 2.0 and F&O 3.0 differ there)",
        "the i-flag space contains no category/multi-character escapes (F&O rule 4 versus case folding of computed ranges is left out)",
        "Match group-0 end, tokenize and replace are compared only where the leftmost match has a unique possible end (Perl-first and POSIX-longest agree)",
        "capture groups > 0 are compared between reused and fresh objects only, not with a reference",
        "syntax on which XSD 1.0/1.1/F&O differ ({ } as literals, [-], [a-b-c], (?:), unknown block names) and ill-formed UTF-16 patterns: must not crash / no foreign exception only",
        "mismatches that are exactly explained by one of the KNOWN_DEFECTS predicates in the driver are counted (known_defect:*) instead of reported; "
        "every such defect is re-asserted strictly by its minimal witness in the space 'known', so the check stays red while the library misbehaves",
    ],
    coverage=_coverage,
    runs=dict(quick=QUICK, thorough=THOROUGH),
    manifest=dict(
        text="Bounded-exhaustive comparison of RegularExpression (both dialects, all optimisation/flag options, reuse, tokenize/replace, xs:pattern) with "
             "an independent derivative matcher over every small AST x every short string; exploration level because the space is an input space.",
        note="reference semantics hand-written from XSD 1.0 appendix F / F&O flags; known library defects are listed in docs/c11.md and asserted by witnesses",
        technique="bounded-exhaustive enumeration of regex ASTs x strings against a Brzozowski-derivative reference, with metamorphic option/history equalities"),
)
