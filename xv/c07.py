"""C07 - DTD validation reports a validity error iff a validity constraint is violated.

Driver: drv/c07_dtd.cpp (+ drv/c07_model.hpp: content-spec enumerator, Brzozowski-derivative oracle, attribute-value rules).
Notes, bounds, findings: docs/c07.md.
"""
from .checks import _sum

D = "c07_dtd"


def _cm(name, *args):
    return dict(name=name, driver=D, args=["--space", "cm"] + list(args))


_RULE = (
    "Bounded-exhaustive. (cm) every content-spec tree over names {a,b,c} with operators ',' '|' and suffix none/?/*/+ at EVERY node "
    "(group nesting <= 3, a single-child parenthesis only at top level) - quick: all trees with <= 2 leaves (first-occurrence-canonical naming) "
    "+ EMPTY, ANY, (#PCDATA), (#PCDATA)*, 7 mixed models, each against EVERY child sequence of length <= 3 over "
    "{a,b,c,d(undeclared),text,white space,comment,PI} plus '<e/>' under all 8 configurations {IG,DG}x{SAX2,DOM}x{always,auto}; every element-only "
    "sequence of length <= 4 over {a,b,c,d} under 4 pairwise-covering configurations; all 43 520 three-leaf trees (no top-level wrapper) against every "
    "sequence of length <= 4 over {a,b,c}, each model under IG/SAX2/always or DG/SAX2/auto (alternating by model index); thorough: all 3^n namings for <= 2 "
    "leaves, length <= 4 over the 8 tokens / <= 5 over {a,b,c,d}, three-leaf trees x sequences <= 4 over {a,b,c,d} under 4 pairwise-covering configurations, "
    "four-leaf trees with <= 2 non-empty suffixes against every sequence <= 4 over {a,b,c}. One document per "
    "model, one instance per line, verdict per line; each disagreement is re-run as a single-instance document before it counts. Oracle: "
    "Brzozowski derivatives over the content-spec AST ('valid iff member', XML 1.0 3.2), cross-checked per model by an independent end-position "
    "matcher. (cmx) 16 models x every sequence <= 2 (thorough 3) over 16 extended tokens (character references, CDATA sections, entity references to "
    "white space / text / element / nothing). (attr) 10 attribute types x {#REQUIRED,#IMPLIED,#FIXED v,v} x declared default v from 17 (thorough 39) "
    "boundary literals x {absent, 39 literals}; (idref) every ID/IDREF/IDREFS assignment over <= 3 elements; (vc) root-name matrix, 40 single-"
    "constraint cases, standalone x {internal, external subset, external PE, INCLUDE section} x 19 scenarios. Single-document spaces run under 7 "
    "subset placements (internal, external, split, internal PE, external PE, INCLUDE section, INCLUDE via PE + IGNOREd conflicting declaration) "
    "(quick attr/idref: internal + one other placement per case, round-robin) and compare the event dump between validation never/always/auto and between placements. (place) <= 2-leaf models x sequences <= 2 (thorough 3) "
    "under all 7 placements. (reuse) every sequence of <= 2 (thorough 3) parses, on ONE parser object, of 10 documents with > 64 declared and specified attributes, missing #REQUIRED "
    "attributes and defaults x {no caching, cacheGrammarFromParse+useCachedGrammarInParse, preloaded grammar} x {SAXParser, SAX2, DOM}: the events and errors of each parse "
    "must equal those of a fresh parser (driver shared with C15). distinct_nontrivial = (model, child sequence) instances + single documents whose verdict was compared with the reference."
)

SPEC = dict(
    level="exploration",
    rule=_RULE,
    trusted_base=[
        "reference models in drv/c07_model.hpp written from XML 1.0 (5th ed.) sections 2.9, 3.2, 3.3 (derivative matcher cross-checked by an independent "
        "position-set matcher on every enumerated model; disagreement aborts the case as 'oracle-self-disagreement')",
        "clang 14 ASan/UBSan build of the library",
    ],
    assumptions=[
        "Non-deterministic content models are compared by regular-language membership (Xerces builds a DFA and accepts them; the XML rule is 'for compatibility' only)",
        "Batched documents observe only the error stream (severity/line/entity) through the same parser classes as xv::parse_xerces; every disagreement is "
        "confirmed through xv::parse_xerces on a single-instance document",
        "A reference to an externally declared entity under standalone='yes' is both a VC and a WFC violation: either an error or a fatal error is accepted",
        "Proper Declaration/PE Nesting violated by a PE reference between declarations is also WFC 'PE Between Declarations': error or fatal accepted",
        "KNOWN_DEFECTS (driver, ids KD1..KD7; docs/c07.md): run 'witness' executes one minimal witness per defect strictly and reports each one still "
        "present as a violation of kind defect:<slug> (-> KNOWN-FINDING via known_findings.json). In the other spaces the cases explained exactly by a "
        "defect whose witness still fails are skipped and counted as known_defect_skipped:<id>; a witness that passes (probed at the start of every "
        "run) switches that tolerance off; --strict 1 disables all tolerance",
        "Cuts w.r.t. DESIGN C07: single-child parentheses only at top level and only for <= 2 leaves; canonical naming for >= 3 leaves; the 8-token child alphabet "
        "only for <= 2-leaf models (3/4-leaf models: element tokens only, since text/white space/comment/PI handling depends only on the content type, "
        "see IGXMLScanner::sendCharData); 4-leaf trees limited to <= 2 non-empty suffixes; no random valid-by-construction instances (everything is enumerated)",
    ],
    coverage=lambda rs: {
        "distinct_nontrivial": _sum(rs, "instances") + _sum(rs, "expected_valid") + _sum(rs, "expected_invalid"),
        "content_models": _sum(rs, "models"),
        "models_nondeterministic": _sum(rs, "models_nondeterministic"),
        "models_SimpleContentModel": _sum(rs, "models_predicted_SimpleContentModel"),
        "models_DFAContentModel": _sum(rs, "models_predicted_DFAContentModel"),
        "instances_expected_valid": _sum(rs, "instances_expected_valid"),
        "instances_expected_invalid": _sum(rs, "instances_expected_invalid"),
        "instance_verdicts_compared": _sum(rs, "instance_verdicts_compared"),
        "documents_expected_valid": _sum(rs, "expected_valid"),
        "documents_expected_invalid": _sum(rs, "expected_invalid"),
        "parses": _sum(rs, "parses") + _sum(rs, "parses_batch") + _sum(rs, "single_reruns"),
        "onoff_dump_compared": _sum(rs, "onoff_dump_compared"),
        "placement_dump_compared": _sum(rs, "placement_dump_compared"),
        "witness_defects_present": _sum(rs, "witness_defect_present"),
        "witness_defects_absent": _sum(rs, "witness_defect_absent"),
        "known_defect_skipped": sum(v for r in rs for k, v in r.get("counters", {}).items() if k.startswith("known_defect_skipped")),
    },
    runs=dict(
        quick=[
            dict(name="witness", driver=D, args=["--space", "witness"], workers=2),
            _cm("cm-le2leaves-8tok-k3", "--maxleaves", 2, "--k", 3, "--alpha", 8),
            _cm("cm-le2leaves-elem-k4", "--specials", 0, "--maxleaves", 2, "--k", 4, "--alpha", 4, "--cfgmask", "0x99"),
            _cm("cm-3leaves-abc-k4", "--specials", 0, "--minleaves", 3, "--maxleaves", 3, "--wrap", 0, "--k", 4, "--alpha", 3, "--cfgmask", "0x21",
                "--cfgrotate", 1),
            dict(name="cmx-k2", driver=D, args=["--space", "cmx", "--k", 2]),
            dict(name="attr-quick-defaults", driver=D, args=["--space", "attr", "--defaults", "quick", "--placerotate", 1]),
            dict(name="idref-3elems-small", driver=D, args=["--space", "idref", "--elems", 3, "--small", 1, "--placerotate", 1]),
            dict(name="vc", driver=D, args=["--space", "vc"]),
            dict(name="place-le2leaves-k2", driver=D, args=["--space", "place", "--maxleaves", 2, "--k", 2, "--cfgmask", "0x81"]),
            # the verdict of a document must not depend on what the same parser object validated before: every sequence of <= 2 parses of documents
            # with > 64 declared/specified attributes, missing #REQUIRED attributes and defaults (shared with C15), against a fresh parser
            dict(name="reused-parser-wide-attlists-depth2", driver="histx", args=["--space", "growth", "--depth", 2]),
        ],
        thorough=[
            dict(name="witness", driver=D, args=["--space", "witness"], workers=2),
            # deadlines are safety caps (sum ~ 23 min); measured CPU cost of the whole tier ~ 6 000 core-seconds under heavy load
            _cm("cm-le2leaves-allnames-8tok-k3", "--maxleaves", 2, "--k", 3, "--alpha", 8, "--naming", "all", "--deadline", 130),
            _cm("cm-le2leaves-8tok-k4", "--maxleaves", 2, "--k", 4, "--alpha", 8, "--cfgmask", "0x99", "--deadline", 220),
            _cm("cm-le2leaves-elem-k5", "--specials", 0, "--maxleaves", 2, "--k", 5, "--alpha", 4, "--deadline", 130),
            _cm("cm-3leaves-elem-k4", "--specials", 0, "--minleaves", 3, "--maxleaves", 3, "--wrap", 0, "--k", 4, "--alpha", 4, "--cfgmask", "0x99",
                "--deadline", 280),
            _cm("cm-4leaves-abc-k4", "--specials", 0, "--minleaves", 4, "--maxleaves", 4, "--wrap", 0, "--maxsufs", 2, "--k", 4, "--alpha", 3,
                "--cfgmask", "0x21", "--cfgrotate", 1, "--deadline", 180),
            dict(name="cmx-k3", driver=D, args=["--space", "cmx", "--k", 3, "--deadline", 100]),
            dict(name="attr-all-defaults", driver=D, args=["--space", "attr", "--defaults", "all", "--deadline", 110]),
            dict(name="idref-3elems-big", driver=D, args=["--space", "idref", "--elems", 3, "--big", 1, "--placerotate", 1, "--onoff", 0, "--deadline", 130]),
            dict(name="idref-3elems", driver=D, args=["--space", "idref", "--elems", 3, "--deadline", 60]),
            dict(name="vc", driver=D, args=["--space", "vc"]),
            dict(name="place-le2leaves-k3", driver=D, args=["--space", "place", "--maxleaves", 2, "--k", 3, "--cfgmask", "0x81", "--deadline", 60]),
            dict(name="reused-parser-wide-attlists-depth3", driver="histx", args=["--space", "growth", "--depth", 3]),
        ],
    ),
    manifest=dict(
        text="Every content-spec tree up to the stated size is validated against every child sequence up to the stated length on the real parser "
             "(both DTD-capable scanners, SAX2 and DOM, always/auto) and compared with a derivative-based membership oracle; attribute types/defaults, "
             "ID/IDREF graphs, the remaining validity constraints and the standalone rules are enumerated as single documents under seven DTD subset "
             "placements, with event-dump equality between validation off/on.",
        note="Reference written from the XML 1.0 text; seven library defects found are listed as KNOWN_DEFECTS in drv/c07_dtd.cpp and docs/c07.md.",
        technique="bounded-exhaustive enumeration of DTD content models x child sequences, attribute declarations x values, ID graphs and constraint "
                  "mutations against a Brzozowski-derivative / direct-VC reference model",
    ),
)
