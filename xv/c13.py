"""C13 - DOM mutation keeps a well-formed tree equal to a reference DOM.

Explicit-state exploration (drv/c13_domx.cpp) of operation histories over a fixed two-document universe, in lock-step with an
independent reference DOM (drv/c13_ref.hpp); state key / invariants read the hidden link fields (drv/c13_impl.hpp, -fno-access-control)."""
from .checks import _sum

_FLAGS = ["-fno-access-control"]


def _bfs(name, depth, reduce_last=False, deadline=None):
    args = ["--space", name, "--depth", depth]
    if reduce_last:
        args += ["--reduce-last", 1]
    if deadline:
        args += ["--deadline", deadline]
    return dict(name=name, driver="c13_domx", extra_flags=_FLAGS, args=args)


def _fix(name, active, deadline):
    return dict(name=name, driver="c13_domx", extra_flags=_FLAGS,
                args=["--space", name, "--fix", 1, "--reduce-last", 1, "--active", active, "--max-layers", 64, "--deadline", deadline])


def _pref(rs, prefix):
    out = {}
    for r in rs:
        for k, v in r.get("counters", {}).items():
            if k.startswith(prefix):
                out[k[len(prefix):]] = out.get(k[len(prefix):], 0) + v
    return dict(sorted(out.items()))


def _coverage(rs):
    return {
        # model_checking evidence; every transition is one execution of the library with the reference model in lock-step
        "states": _sum(rs, "states"),
        "transitions": _sum(rs, "transitions"),
        "traces_validated_against_impl": _sum(rs, "transitions"),
        "states_expanded": _sum(rs, "states_expanded"),
        # distinct, non-trivial: distinct forests (canonical key incl. hidden fields) reached and compared node for node with the reference
        "distinct_nontrivial": _sum(rs, "states"),
        "per_space": {r["_run"]["name"]: {"states": r.get("counters", {}).get("states"), "transitions": r.get("counters", {}).get("transitions"),
                                         "completed_depth": r.get("counters", {}).get("completed_depth"),
                                         "fixpoint_closed": r.get("counters", {}).get("fixpoint_closed"), "bounds": r.get("bounds")} for r in rs},
        "nonvacuity": {
            "transitions_exception_and_unchanged_state": _sum(rs, "t_exception_unchanged"),
            "transitions_success_new_state": _sum(rs, "t_success_new_state"),
            "transitions_success_same_state": _sum(rs, "t_success_same_state"),
            "transitions_with_discrepancy": _sum(rs, "t_discrepancy"),
            "exception_codes_raised_as_specified": _pref(rs, "exc:"),
            "accepted_calls_per_operation": _pref(rs, "ok:"),
            "rejected_calls_per_operation": _pref(rs, "rejected:"),
            "discrepancy_instances_per_kind": _pref(rs, "discrepancy:"),
            "worlds_rebuilt_from_history": _sum(rs, "world_rebuilds"),
        },
        "known_defect_guards": {"transitions_not_executed": _pref(rs, "skipped_known_defect:"),
                                "not_manifesting_any_more": _pref(rs, "known_defect_not_manifesting:")},
        "harness": {"replay_failed": _sum(rs, "harness_replay_failed"), "replay_key_mismatch": _sum(rs, "harness_replay_key_mismatch"),
                    "worker_deaths": _sum(rs, "worker_deaths")},
    }


SPEC = dict(
    level="model_checking",
    rule="(The 'recycle' runs explore the narrow alphabet {setUserData, release, cloneNode, removeChild, importNode} on the same universe to depth 4, thorough 5: a released "
         "node's storage is handed to the next node of the same kind, so histories annotate, detach, release and create again.) "
         "Universe: D1 = doc -> r -> [a, 'x'] plus detached element b, comment c, attribute k, fragment f -> [e -> ['y']]; D2 = doc2 -> p:z (namespace urn:z). "
         "A state is an operation history replayed from scratch on fresh documents; BFS by depth, the frontier of each depth sharded over the workers; states are "
         "merged on the 128-bit hash of a canonical key of the reached forest = dump through the public getters (type, names, value, parent, first/last child, "
         "previous/next sibling, childNodes, attribute map with ownerElement, ownerDocument, user data) PLUS the hidden fields (DOMNodeImpl::flags and fOwnerNode, "
         "DOMChildNode raw previousSibling/nextSibling, DOMParentNode fFirstChild/fOwnerDocument, DOMDocumentImpl fDocElement/fDocType, attribute vector order, "
         "hasDefaults); nodes created by a history are numbered canonically, so isomorphic forests merge. From every state EVERY call of the alphabet is executed on the "
         "library and on the reference DOM: receivers = every live node (typed receivers for Document/Element/CharacterData/Text methods), node operands = every "
         "live node of both documents incl. the documents, and null for the child-list calls. Alphabet: appendChild, insertBefore, removeChild, replaceChild, "
         "cloneNode(shallow/deep), normalize, setNodeValue('', 'nv'), setTextContent('', 'tc', null), setPrefix('q', '', 'xml', '1'), setUserData('u', A / null), release, "
         "importNode(shallow/deep), adoptNode, renameNode((null,'n'), ('urn:u','q:n'), (null,'1x'), ('urn:u','q:')), setAttribute('k'|'m'|'1'), removeAttribute('k'|'m'), "
         "setAttributeNode, removeAttributeNode, setAttributeNodeNS, setAttributeNS(('urn:u','q:m'), (null,'k'), ('urn:u','q:'), (null,'q:m')), "
         "removeAttributeNS(('urn:u','m'), (null,'k')), appendData, insertData/splitText with offsets 0..len+1, deleteData/substringData with offsets 0..len+1 x counts "
         "{0,1,len+1,4100}, replaceData with counts {0,1,len+1}, replaceWholeText('w', ''). After every transition: DOMException code in the set the specification allows and "
         "state unchanged (hidden + public digest) for forbidden calls; otherwise node-for-node equality with the reference through all getters, return value, and the "
         "invariants (<= 1 parent, sibling links mutually consistent incl. the circular firstChild.previousSibling == lastChild, FIRSTCHILD/OWNED flags, no node its own "
         "ancestor, uniform ownerDocument, attribute ownerElement back links, attribute in at most one map, attribute vector sorted, fDocElement consistent). "
         "quick = all histories of depth <= 2 over the full alphabet. thorough = depth <= 3 (third call: the ref/old operand of insertBefore/replaceChild ranges over "
         "null, every child of the receiver, newChild, the receiver and one other node instead of all nodes) plus a fixpoint search (all reachable forests, no depth "
         "bound) over the node-creation-free structural sub-alphabet {appendChild, insertBefore, removeChild, replaceChild, adoptNode, setAttributeNode, "
         "removeAttributeNode, setAttributeNodeNS} on two 7-node subsets of D1 (bounds.active_nodes: {doc,r,a,'x',b,f,e} and {doc,r,a,'x',k,f,e}; ref/old operands reduced as above). Every discrepancy is classified into a kind "
         "'<call>:<expected>:<observed>'; the minimal (shallowest, first in enumeration order) instance of every kind is reported as one violation. "
         "distinct_nontrivial = number of distinct states (forests) reached and compared.",
    trusted_base=["reference DOM drv/c13_ref.hpp (vector-of-children tree, DOM Level 3 Core semantics as restated in the public headers dom/DOMNode.hpp, DOMDocument.hpp, "
                  "DOMElement.hpp, DOMCharacterData.hpp, DOMText.hpp; shares no code with dom/impl)", "clang 14 ASan/UBSan",
                  "128-bit state hash (collision probability < 1e-24 at 1e7 states)"],
    assumptions=[
        "N2: a null newChild raises HIERARCHY_REQUEST_ERR (choice of Xerces, 'not really in the specs'); null is not passed to importNode/adoptNode/renameNode/"
        "setAttributeNode*/removeAttributeNode (non-nullable in the IDL, unchecked pointer in the C++ binding)",
        "N3: insertBefore(x, x) does nothing and replaceChild(x, x) removes x: DOM L3 declares both 'implementation dependent', Xerces' choice is adopted",
        "N4: Xerces' memory model is adopted for node lifetime: removeAttribute(NS), Attr.setValue/setNodeValue/setTextContent, replaceWholeText and release() "
        "release nodes; a released node (and everything below it) is never used as an operand again",
        "N5: when several error conditions hold at once any of their codes is accepted (the recommendation does not order the checks)",
        "N6: adoptNode of a node owned by another document fails by returning null without change (documented: per-document memory pools; DOM L3 allows null on failure)",
        "N7: DOM Level 1 attributes (no localName) handed to the NS-aware methods are matched by nodeName within the null namespace",
        "N8: setPrefix on nodes whose namespaceURI is null may either raise NAMESPACE_ERR or (non element/attribute nodes) do nothing - the recommendation states both",
        "N9: which Text object survives normalize()/replaceWholeText() is not specified: the first node of a run survives (Xerces' choice); renameNode across "
        "the namespace boundary creates a new node and leaves the old object detached and empty (allowed: 'otherwise this creates a new node')",
        "type-incorrect receivers/arguments (e.g. setAttributeNode with a non-attribute) need casts in C++ and are outside the alphabet; no doctype, entity "
        "reference, CDATA or PI node in the universe, hence no read-only targets and no default attributes; normalizeDocument is not in the alphabet",
        "KNOWN_DEFECTS (drv/c13_domx.cpp): calls that kill or hang the process are probed once in a forked sandbox; while a defect manifests it is reported as a "
        "violation and the matching transitions are skipped (counted in known_defect_guards)",
    ],
    coverage=_coverage,
    runs=dict(
        quick=[_bfs("bfs-depth2-full", 2),
               dict(name="recycle-depth4", driver="c13_domx", extra_flags=_FLAGS, args=["--space", "recycle-depth4", "--alphabet", "recycle", "--depth", 4]),
               # the document's ID table under attribute edits (setIdAttribute on/off, value changes, removal) with ID strings chosen to share / cross probe
               # sequences of the 997-slot table: getElementById must keep answering as a reference map (space shared with C14)
               dict(name="id-table-forced-collisions-depth4", driver="c14_viewx", extra_flags=["-fno-access-control"], args=["--space", "idtable", "--depth", 4])],
        thorough=[_fix("fixpoint-structural-b", "0,1,2,3,4,8,9", 360),     # doc, r, a, 'x', b, f, e
                  _fix("fixpoint-structural-k", "0,1,2,3,7,8,9", 180),     # doc, r, a, 'x', attribute k, f, e
                  _bfs("bfs-depth3", 3, reduce_last=True, deadline=840),
                  dict(name="recycle-depth5", driver="c13_domx", extra_flags=_FLAGS, args=["--space", "recycle-depth5", "--alphabet", "recycle", "--depth", 5, "--deadline", 900]),
                  dict(name="id-table-forced-collisions-depth5", driver="c14_viewx", extra_flags=["-fno-access-control"], args=["--space", "idtable", "--depth", 5])],
    ),
    manifest=dict(
        text="Every history of DOM Core calls up to the stated depth (and every reachable forest of the structural sub-alphabet) over the two-document universe was "
             "executed on the ASan/UBSan build with arbitrary - including illegal - operands; after every call the tree equals an independent reference DOM node for "
             "node, the intrusive link fields and flag bits are mutually consistent, and forbidden calls raise the specified DOMException and leave public and hidden "
             "state unchanged. model_checking: the explored transition system is the implementation's own, each transition validated against the reference.",
        note="Trusted: the reference DOM (c13_ref.hpp) and the narrowings N2-N9 listed under assumptions; nothing is claimed beyond the depth bounds, for node kinds "
             "outside the universe (doctype, entity reference, CDATA, PI) or for normalizeDocument.",
        technique="explicit-state BFS over operation histories (replay from scratch, canonical-key deduplication incl. hidden fields) against a reference DOM in lock-step"),
)
