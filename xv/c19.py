"""C19 - no external resource is touched unless permitted; entity resolver protocol and base-URI resolution; entity-expansion limit.

Two C++ drivers (see docs/c19.md):
  drv/c19_access.cpp  space A: words over 102 reference tokens x full configuration product, unified open/net/resolver log against the
                      reference model of the permitted set (+ independent RFC 2396 resolver drv/c19_uri.hpp, + interposed libc entry points)
  drv/c19_expand.cpp  space B: all entity definition graphs (general / parameter / inside a schema document) x SecurityManager limits
"""
from .checks import _sum

_FLAGS = ["-rdynamic", "-ldl"]  # export the interposed fopen/open/openat/socket/connect so that calls from libxerces-c and libcurl bind to them


def _ax(name, *args):
    return dict(name=name, driver="c19_access", args=list(args), extra_flags=_FLAGS)


def _ex(name, *args):
    return dict(name=name, driver="c19_expand", args=list(args))


_ACCESS_KEYS = ["refs_permitted_and_fetched", "refs_forbidden_and_untouched", "refs_blocked_by_disableDefaultEntityResolution", "nested_resolved_against_container_base",
                "resolver_supplied_source", "offer_base_is_containing_entity", "offer_base_differs_but_resolution_equal", "offer_sax_already_absolute",
                "access:open", "access:net", "cases_with_default_access", "cases_with_offer",
                "forbidden_by:loadExternalDTD-off+validation-off", "forbidden_by:loadSchema-off", "forbidden_by:doSchema-off", "forbidden_by:scanner-ignores-DTD",
                "forbidden_by:scanner-ignores-schema", "forbidden_by:never-referenced", "forbidden_by:wfc-no-external-entity-in-attribute", "forbidden_by:parent-not-fetched",
                "refs_permitted_not_fetched:path-base-rejected-under-standard-uri-conformant", "refs_permitted_not_fetched:other",
                "outcome_clean", "outcome_validity_errors", "outcome_fatal", "outcome_exception"]
_EXPAND_KEYS = ["graphs_acyclic_reachable", "graphs_cycle_reachable", "accepted_within_limit", "accepted_at_exact_limit", "rejected_over_limit", "rejected_at_limit_plus_one",
                "cycle_reported_without_limit", "cyclic_stopped_by_limit", "cyclic_stopped_by_recursion_check", "baseline_ok"]


def _cov(rs):
    acc = [r for r in rs if r.get("space", "").startswith("access")]
    exp = [r for r in rs if not r.get("space", "").startswith("access")]
    known = {}
    obs = {}
    for r in rs:
        for k, v in r.get("counters", {}).items():
            if k.startswith("known_defect"):
                known[k] = known.get(k, 0) + v
            if k.startswith("observation:"):
                obs[k] = obs.get(k, 0) + v
    return {
        # space A: (document, configuration) pairs in which at least one reference was either fetched as permitted or provably left untouched because
        # a switch forbids it; space B: (graph, site) cases with a judged verdict at some limit
        "distinct_nontrivial": _sum(acc, "nontrivial") + _sum(exp, "graphs_acyclic_reachable") + _sum(exp, "graphs_cycle_reachable"),
        "parses": _sum(rs, "parses"),
        "nonvacuity_access": {k: _sum(acc, k) for k in _ACCESS_KEYS},
        "nonvacuity_expansion": {k: _sum(exp, k) for k in _EXPAND_KEYS},
        "known_defects_skipped_in_driver": known,
        "observations": obs,
    }


SPEC = dict(
    level="exploration",
    rule="Space A (fetch permission): documents = every word of length <= k (k=1 and k=2) over 102 reference tokens = 17 reference kinds {(the file: form carries an escaped percent sign, file:///v/d%2541N.x, which names the file d%41N.x; since the third seeding round also: xs:import / xs:include / xs:redefine of a schema document that itself has a DOCTYPE with an external subset - a third-level reference read by the schema traverser's helper parser) external subset SYSTEM / PUBLIC, external "
         "general entity declared+used / declared only / used in an attribute value, external parameter entity, xsi:schemaLocation, xsi:noNamespaceSchemaLocation, xs:import / "
         "xs:include / xs:redefine inside a fetched schema, DOCTYPE inside a fetched schema document, external general entity / external parameter entity whose declaration text is the "
         "replacement text of an internal parameter entity (expanded in the document's internal subset, or inside an external subset / external PE living in /v/sub/ while the reference "
         "is made from the document)} x 6 identifier forms {a.x, sub/b.x, ../c.x, file:///v/d.x, http://h/e.x, a relative "
         "id written inside an entity that lives in /v/sub/ (with a decoy at the place a resolution against the document base would hit)}, composed into one document (token 1 on the "
         "root / first in the internal subset, token 2 on a child element / second). Configurations: the FULL product {disableDefaultEntityResolution} x {loadExternalDTD} x "
         "{validation never/always/auto} x {loadSchema} x {doSchema} x {IG,WF,DG,SG scanner} x {standard-uri-conformant} x {document base /v/doc.xml, file:///v/doc.xml} x 12 "
         "(API, resolver) settings {no resolver on SAX2/SAX1/DOM/DOMLS; SAX EntityResolver source@SAX1, null@SAX2; XMLEntityResolver source@DOM, source@SAX2, null@SAX2, null@DOMLS; "
         "DOMLSResourceResolver source, null} = 9216 configurations for k<=1; for k=2 the 192-configuration product scanner x validation x {disableDefaultEntityResolution, loadExternalDTD, "
         "loadSchema, doSchema} plus the 96-configuration product scanner x disableDefaultEntityResolution x 12 resolver settings (thorough) or the 32-configuration product scanner x {disableDefaultEntityResolution, loadExternalDTD, loadSchema} (quick). Every file/net access and resolver offer of a parse goes to one chronological log "
         "that is checked against a reference model of the permitted set. "
         "Space B (expansion limit): every labelled definition graph on n <= N entities (N=3 quick, 4 thorough; each entity references a multiset of <= 2 entities, self references and "
         "cycles included: 3+36+1000(+50625) graphs) as general entities referenced from content / an attribute value / both / content with the last entity external, parsed by SAX2 "
         "(IG, DG scanner) and DOM with entity-reference nodes, without SecurityManager and with limits 0..T+1 and 50000 (T = reference expansion count computed on the graph); the same "
         "graphs (n <= 3) as parameter entities and (n <= 2) inside the schema document named by noNamespaceSchemaLocation. One case = one (word, configuration) or one (graph, site); "
         "non-trivial = a case in which a reference was fetched as permitted or left untouched because a switch forbids it / a graph with a judged verdict.",
    trusted_base=["drv/c19_access.cpp wanted(): reference model of the permitted set written from doc/program-{sax2,dom,others}.xml and SAXParser.hpp/XercesDOMParser.hpp/EntityResolver.hpp/"
                  "XMLResourceIdentifier.hpp feature documentation", "drv/c19_uri.hpp: independent RFC 2396 5.2 resolver", "in-memory XMLFileMgr / XMLNetAccessor seams of drv/xv_xml.hpp; "
                  "interposed fopen/open/openat/socket/connect (self-tested at start-up)", "clang 14 ASan/UBSan"],
    assumptions=[
        "load-external-dtd is claimed for the external subset only; external parameter entities referenced from the internal subset are part of DTD processing and are read whenever the "
        "scanner processes the DOCTYPE (the feature is documented as 'Ignore the external DTD completely', XercesDOMParser.hpp: 'ignore any external DTD')",
        "validation scheme auto counts as validation on when a DOCTYPE is present ('This flag is ignored if the validationScheme is set to Val_Always or Val_Auto')",
        "SGXMLScanner: 'Namespace and schema processing features are on by default, and setting them to off has no effect' - doSchema=false does not forbid schema loading there; loadSchema does",
        "the DOCTYPE of a *schema document* is read by an internal parser: loadExternalDTD / scanner choice of the user's parser are documented for the instance document and are not claimed for it "
        "(counted as an observation); disableDefaultEntityResolution is claimed for it",
        "the model is an upper bound (property: nothing outside the permitted set is touched); permitted-but-not-fetched references are only counted "
        "(they occur solely when standard-uri-conformant rejects the plain-path document base)",
        "XMLEntityResolver / DOMLSResourceResolver receive (systemId as written, baseURI): the pair must denote the RFC 2396 resolution against the containing entity's base; "
        "for the SAX EntityResolver, which gets no base, see KNOWN_DEFECTS",
        "cyclic entity definitions: either the recursion error or (with a SecurityManager) the limit error is accepted, whichever the parser reaches first; termination is enforced by the runner watchdog",
        "predefined entity references (&lt; ...) are outside the claim: WF/SG scanners count them against the limit, IG/DG do not (recorded as observation)",
        "real files, sockets and curl are replaced at the XMLPlatformUtils::fgFileMgr / fgNetAccessor seams; the interposed libc counters only prove that nothing bypasses them",
        "KNOWN_DEFECTS (explicit lists in the two drivers, counted as known_defect:* inside the big spaces; --strict 1 turns them into violations): "
        "sax-resolver-unresolved-systemid, schema-doctype-ignores-disable-default-entity-resolution, pe-expansion-not-counted, schema-document-expansions-not-limited. "
        "The run 'witness' executes one minimal witness per defect strictly and reports each one that still fails as a violation of kind defect:<id> "
        "(matched by known_findings.json -> KNOWN-FINDING lines); a repaired defect makes its witness silent",
    ],
    coverage=_cov,
    runs=dict(
        quick=[_ax("access-k1-full-product", "--space", "access-k1", "--k", 1, "--cfgset", "full"),
               _ax("access-k2-gating32", "--space", "access-k2", "--k", 2, "--cfgset", "gating32"),
               _ex("expand-general-n3", "--space", "ge", "--n", 3),
               _ex("expand-parameter-n3", "--space", "pe", "--n", 3),
               _ex("expand-schema-doc-n2", "--space", "schema", "--n", 2),
               _ex("expand-predefined", "--space", "predef", "--refs", 4),
               _ax("witness", "--space", "witness")],
        thorough=[_ax("access-k1-full-product", "--space", "access-k1", "--k", 1, "--cfgset", "full"),
                  _ax("access-k2-gating192", "--space", "access-k2", "--k", 2, "--cfgset", "gating192"),
                  _ax("access-k2-resolver96", "--space", "access-k2r", "--k", 2, "--cfgset", "resolver96"),
                  _ex("expand-general-n4", "--space", "ge", "--n", 4),
                  _ex("expand-parameter-n3", "--space", "pe", "--n", 3),
                  _ex("expand-schema-doc-n3", "--space", "schema", "--n", 3),
                  _ex("expand-predefined", "--space", "predef", "--refs", 6),
                  _ax("witness", "--space", "witness")],
    ),
    manifest=dict(text="Every document that can be built from <= 2 external references of 12 kinds x 6 identifier forms is parsed under the full product of the access-controlling "
                       "switches with every resolver flavour; nothing outside the documented permitted set is opened, the resolver is consulted first with identifiers that denote the "
                       "RFC 2396 resolution against the containing entity, supplied sources replace the default; all entity definition graphs on <= 4 entities obey the SecurityManager limit exactly.",
                  note="reference model of the permitted set and RFC 2396 resolver are hand-written; four adjudicated library defects are listed in KNOWN_DEFECTS of the drivers and skipped (reported)",
                  technique="bounded-exhaustive enumeration of reference-token words x configuration product, and of entity definition graphs x limits, against a reference model"),
)
