"""Reference model for property C09: XML Schema Part 2 (1.0, Second Edition) simple types.

Pure standard library.  Everything here is written from the Recommendation, not from the Xerces sources:
lexical recognisers, lexical->value mappings (exact: Fraction / int / bytes), whitespace processing, facet semantics,
order relations (with the specification's indeterminate cases) and canonical forms.

Three-valued verdicts: 'V' valid, 'I' invalid, 'U' the Recommendation is ambiguous / editions differ (not judged; only
self-consistency of the library is checked on those).  Every 'U' source is listed in docs/c09.md.

A type is described by a JSON-able *tdef*:
    {"b": "decimal"}                                   built-in
    {"r": tdef, "f": [["minInclusive","1"], ...]}      restriction (one derivation step; several pattern / enumeration entries allowed)
    {"l": tdef}                                        list
    {"u": [tdef, ...]}                                 union
"""
import re
from fractions import Fraction

LT, EQ, GT, IN = "LT", "EQ", "GT", "IN"

# Alternative models of *listed library defects* (xv/c09.py DEFECTS).  The reference model itself is VARIANTS = empty; xv/c09.py
# switches single variants on only to decide whether an observed mismatch is exactly what a listed defect predicts.
VARIANTS = set()


class Unspec(Exception):
    """raised by a recogniser when the Recommendation does not settle the case"""


class Invalid(Exception):
    pass


# ------------------------------------------------------------------------------------------------ whitespace
def ws_apply(mode, s):
    if mode == "preserve":
        return s
    s = s.replace("\t", " ").replace("\n", " ").replace("\r", " ")
    if mode == "replace":
        return s
    return " ".join(x for x in s.split(" ") if x)


# ------------------------------------------------------------------------------------------------ calendar helpers
def is_leap(y):  # y: astronomical year number
    return y % 4 == 0 and (y % 100 != 0 or y % 400 == 0)


def mdays(y, m):
    if m in (4, 6, 9, 11):
        return 30
    if m == 2:
        return 29 if is_leap(y) else 28
    return 31


def days_from_civil(y, m, d):
    """days since 0001-01-01 (proleptic Gregorian, astronomical year numbering), m may be any integer (normalised here)"""
    y += (m - 1) // 12
    m = (m - 1) % 12 + 1
    y0 = y - 1
    n = y0 * 365 + y0 // 4 - y0 // 100 + y0 // 400
    for mm in range(1, m):
        n += mdays(y, mm)
    return n + d - 1


def civil_from_days(n):
    # 400-year cycles of 146097 days
    c, r = divmod(n, 146097)
    y = c * 400 + 1
    while True:
        yl = 366 if is_leap(y) else 365
        if r < yl:
            break
        r -= yl
        y += 1
    m = 1
    while r >= mdays(y, m):
        r -= mdays(y, m)
        m += 1
    return y, m, r + 1


def astro(y):  # XSD 1.0 has no year zero: -0001 is the year before 0001
    return y if y > 0 else y + 1


def xsd_year(a):
    return a if a > 0 else a - 1


def fmt_year(y):
    return ("-" if y < 0 else "") + "%04d" % abs(y)


def fmt_frac(fr):
    """fractional seconds (Fraction in [0,1)) -> '' or '.ddd' without trailing zeros (finite decimal expansions only)"""
    if fr == 0:
        return ""
    digits = ""
    while fr != 0 and len(digits) < 40:
        fr *= 10
        d = int(fr)
        digits += str(d)
        fr -= d
    return "." + digits


# ------------------------------------------------------------------------------------------------ atomic built-ins
class Atomic:
    ws = "collapse"
    ordered = False
    numeric = False
    name = "?"
    length_kind = None  # 'chars' | 'octets' | None

    def parse(self, lex):
        """normalised lexical -> value; raises Invalid / Unspec"""
        raise NotImplementedError

    def cmp(self, a, b):
        return EQ if a == b else IN

    def eq(self, a, b):
        return a == b

    def canon(self, v, lex):
        """the canonical literal when the Recommendation defines a unique one, else None"""
        return None

    def canon_ok(self, c):
        """syntactic conformance of c to the canonical subset (None: not defined)"""
        return None

    def length(self, v):
        return None


class StringLike(Atomic):
    length_kind = "chars"

    def __init__(self, name, ws, rx=None):
        self.name, self.ws, self.rx = name, ws, rx

    def parse(self, lex):
        if self.rx is not None and not self.rx(lex):
            raise Invalid(self.name)
        return lex

    def length(self, v):
        if "length-facets-count-utf16-units" in VARIANTS:
            return len(v) + sum(1 for ch in v if ord(ch) > 0xFFFF)
        return len(v)  # python str: code points == XML characters


# Name characters restricted to the characters that occur in the alphabets (stable across XML 1.0 editions 2-5):
_NAME_START = set("abcdefghijklmnopqrstuvwxyzABCDEFGHIJKLMNOPQRSTUVWXYZ_:é")
_NAME_CHAR = _NAME_START | set("0123456789.-·̀")
_KNOWN = _NAME_CHAR | set(" \t\n\r×+/=#%?,;@!")


def _chk_known(s):
    for ch in s:
        if ch not in _KNOWN:
            raise Unspec("char outside modelled name tables: %r" % ch)


def is_nmtoken(s):
    _chk_known(s)
    return len(s) > 0 and all(c in _NAME_CHAR for c in s)


def is_name(s):
    _chk_known(s)
    return len(s) > 0 and s[0] in _NAME_START and all(c in _NAME_CHAR for c in s)


def is_ncname(s):
    return is_name(s) and ":" not in s


def is_qname(s):
    _chk_known(s)
    p = s.split(":")
    return 1 <= len(p) <= 2 and all(is_ncname(x) for x in p)


_LANG = re.compile(r"[a-zA-Z]{1,8}(-[a-zA-Z0-9]{1,8})*\Z")


class Boolean(Atomic):
    name = "boolean"

    def parse(self, lex):
        if lex in ("true", "1"):
            return True
        if lex in ("false", "0"):
            return False
        raise Invalid("boolean")

    def canon(self, v, lex):
        return "true" if v else "false"

    def canon_ok(self, c):
        return c in ("true", "false")


_DEC = re.compile(r"[+-]?([0-9]+(\.[0-9]*)?|\.[0-9]+)\Z")
_INT = re.compile(r"[+-]?[0-9]+\Z")


def num_cmp(a, b):
    return LT if a < b else GT if a > b else EQ


class Decimal(Atomic):
    name = "decimal"
    ordered = True
    numeric = True

    def parse(self, lex):
        if "decimal-bare-point-accepted" in VARIANTS and re.match(r"[+-]?\.\Z", lex):
            return Fraction(0)
        if not _DEC.match(lex):
            raise Invalid("decimal")
        return Fraction(lex)

    def cmp(self, a, b):
        return num_cmp(a, b)

    def canon(self, v, lex):
        return dec_canon(v)

    def canon_ok(self, c):
        return re.match(r"-?(0|[1-9][0-9]*)\.(0|[0-9]*[1-9])\Z", c) is not None and c != "-0.0"


def dec_digits(v):
    """finite decimal Fraction -> (sign, integer digit string without leading zeros ('' for 0), fraction digit string without trailing zeros)"""
    sign = -1 if v < 0 else 1
    v = abs(v)
    ip = v.numerator // v.denominator
    fr = v - ip
    fd = ""
    while fr != 0:
        fr *= 10
        d = fr.numerator // fr.denominator
        fd += str(d)
        fr -= d
        if len(fd) > 400:
            raise Unspec("non-terminating")
    return sign, (str(ip) if ip else ""), fd


def dec_canon(v):
    sign, ip, fd = dec_digits(v)
    return ("-" if sign < 0 else "") + (ip or "0") + "." + (fd or "0")


class Integer(Atomic):
    ordered = True
    numeric = True

    def __init__(self, name, lo=None, hi=None):
        self.name, self.lo, self.hi = name, lo, hi

    def parse(self, lex):
        if not _INT.match(lex):
            raise Invalid("integer lexical")
        v = int(lex)
        if (self.lo is not None and v < self.lo) or (self.hi is not None and v > self.hi):
            raise Invalid("integer range")
        return Fraction(v)

    def cmp(self, a, b):
        return num_cmp(a, b)

    def canon(self, v, lex):
        return str(int(v))

    def canon_ok(self, c):
        return re.match(r"(0|-?[1-9][0-9]*)\Z", c) is not None


_FLT = re.compile(r"([+-]?([0-9]+(\.[0-9]*)?|\.[0-9]+)([Ee][+-]?[0-9]+)?|-?INF|NaN)\Z")
NAN = ("nan",)
PINF = ("inf", 1)
NINF = ("inf", -1)


def round_binary(d, p, emin, emax):
    """decimal number d (Fraction) -> closest value m*2^e with |m| < 2^p, emin <= e <= emax (ties to even); overflow -> infinities"""
    if d == 0:
        return Fraction(0)
    sign = -1 if d < 0 else 1
    a = abs(d)
    # find e such that 2^(p-1) <= a/2^e < 2^p, clamp to emin
    e = a.numerator.bit_length() - a.denominator.bit_length() - p
    while a / Fraction(2) ** e >= 2 ** p:
        e += 1
    while a / Fraction(2) ** e < 2 ** (p - 1):
        e -= 1
    if e < emin:
        e = emin
    q = a / Fraction(2) ** e
    m = q.numerator // q.denominator
    rem = q - m
    if rem > Fraction(1, 2) or (rem == Fraction(1, 2) and m % 2 == 1):
        m += 1
    if m == 2 ** p:
        m //= 2
        e += 1
    if e > emax:
        return PINF if sign > 0 else NINF
    return sign * m * Fraction(2) ** e


class Float(Atomic):
    ordered = True
    numeric = True

    def __init__(self, name, p, emin, emax):
        self.name, self.p, self.emin, self.emax = name, p, emin, emax
        self.maxfinite = (2 ** p - 1) * Fraction(2) ** emax
        self.band_hi = Fraction(2) ** (p + emax)          # values in (maxfinite, 2^(p+emax)): IEEE rounding decides; narrowed (see docs)
        # docs/schema.xml ("out-of-bound float/double values"): below 2^-149 (float) / below DBL_MIN = 2^-1022 (double) is converted to zero
        self.minpos = Fraction(2) ** (emin if p == 24 else -1022)

    def parse(self, lex):
        if "float-bare-point-accepted" in VARIANTS and re.match(r"[+-]?\.\Z", lex):
            return Fraction(0)
        if not _FLT.match(lex):
            raise Invalid("float lexical")
        if lex == "NaN":
            return NAN
        if lex == "INF":
            return PINF
        if lex == "-INF":
            return NINF
        m = re.match(r"([+-]?[0-9.]+)(?:[Ee]([+-]?[0-9]+))?\Z", lex)
        ex = int(m.group(2) or 0)
        if abs(ex) > 5000:
            raise Unspec("huge exponent")
        d = Fraction(m.group(1)) * Fraction(10) ** ex
        if self.p == 24 and "float-compared-in-double-precision" in VARIANTS:
            if abs(d) > self.band_hi:
                return PINF if d > 0 else NINF
            if abs(d) < self.minpos:
                return Fraction(0)
            return round_binary(d, 53, -1074, 971)
        return round_binary(d, self.p, self.emin, self.emax)

    def exact(self, lex):
        """the decimal number denoted by a finite literal, or None"""
        m = re.match(r"([+-]?[0-9.]+)(?:[Ee]([+-]?[0-9]+))?\Z", lex)
        if not m:
            return None
        return Fraction(m.group(1)) * Fraction(10) ** int(m.group(2) or 0)

    def band(self, lex):
        """finite literal within one rounding step of overflow, or below the smallest positive value: the documented Xerces clamping and IEEE
        rounding may legitimately differ there, so values (not verdicts) of such literals are not judged"""
        try:
            d = self.exact(lex)
        except Exception:
            return False
        if d is None or d == 0:
            return False
        a = abs(d)
        return (self.maxfinite < a <= self.band_hi) or (a < self.minpos)

    def cmp(self, a, b):
        if a == NAN or b == NAN:
            return EQ if a == b else IN
        ka = (a[1] * 2, 0) if isinstance(a, tuple) else (0, a)
        kb = (b[1] * 2, 0) if isinstance(b, tuple) else (0, b)
        return num_cmp(ka, kb)

    def canon_ok(self, c):
        return re.match(r"(-?[1-9]\.(0|[0-9]*[1-9])E(0|-?[1-9][0-9]*)|-?0\.0E0|INF|-INF|NaN)\Z", c) is not None


# ---- duration
_DUR = re.compile(r"(-)?P(?:([0-9]+)Y)?(?:([0-9]+)M)?(?:([0-9]+)D)?(T(?:([0-9]+)H)?(?:([0-9]+)M)?(?:([0-9]+(?:\.[0-9]+)?)S)?)?\Z")
_DUR_REFS = [(1696, 9), (1697, 2), (1903, 3), (1903, 7)]


class Duration(Atomic):
    name = "duration"
    ordered = True

    def parse(self, lex):
        if "duration-designator-without-number" in VARIANTS:
            lex = re.sub(r"(?<![0-9.])([YMDHS])", r"0\1", lex)
        if "duration-seconds-without-integer-digits" in VARIANTS:
            lex = re.sub(r"(?<![0-9])\.(?=[0-9])", "0.", lex)
        m = _DUR.match(lex)
        if not m:
            raise Invalid("duration")
        sg, y, mo, d, t, h, mi, s = m.groups()
        if y is None and mo is None and d is None and h is None and mi is None and s is None:
            raise Invalid("duration: no component")
        if t is not None and h is None and mi is None and s is None:
            raise Invalid("duration: T without time")
        months = int(y or 0) * 12 + int(mo or 0)
        secs = Fraction(int(d or 0)) * 86400 + int(h or 0) * 3600 + int(mi or 0) * 60 + Fraction(s or 0)
        k = -1 if sg else 1
        return (k * months, k * secs)

    def cmp(self, a, b):
        res = set()
        if "duration-compare-ignores-fraction" in VARIANTS:
            a = (a[0], Fraction(int(a[1])))
            b = (b[0], Fraction(int(b[1])))
        for (ry, rm) in _DUR_REFS:
            ta = days_from_civil(ry, rm + a[0], 1) * 86400 + a[1]
            tb = days_from_civil(ry, rm + b[0], 1) * 86400 + b[1]
            res.add(num_cmp(ta, tb))
        return res.pop() if len(res) == 1 else IN

    def eq(self, a, b):
        return self.cmp(a, b) == EQ


# ---- date/time family
_TZ = r"(Z|[+-][0-9]{2}:[0-9]{2})?"
_YEAR = r"(-?[0-9]{4,})"


def _tz(z):
    """-> offset in seconds or None; raises Invalid"""
    if z is None or z == "":
        return None
    if z == "Z":
        return 0
    hh, mm = int(z[1:3]), int(z[4:6])
    if hh > 14 or mm > 59 or (hh == 14 and mm != 0):
        raise Invalid("timezone range")
    return (1 if z[0] == "+" else -1) * (hh * 3600 + mm * 60)


def _year(ys):
    digits = ys.lstrip("-")
    if len(digits) > 4 and digits[0] == "0":
        raise Invalid("year leading zero")
    y = int(ys)
    if y == 0:
        raise Invalid("year 0000")
    if len(digits) > 9:
        raise Unspec("year beyond minimally conforming range")
    return y


def _md(y_astro, mo, d, neg):
    if mo < 1 or mo > 12:
        raise Invalid("month")
    if d < 1 or d > 31:
        raise Invalid("day")
    if neg and mo == 2 and d == 29:
        raise Unspec("leap years B.C.E. (no year zero in 1.0)")
    if d > mdays(y_astro, mo):
        raise Invalid("day of month")


def _hms(h, mi, s, fr):
    """-> seconds since midnight (Fraction), hour24 flag"""
    if mi > 59:
        raise Invalid("minute")
    if h > 24:
        raise Invalid("hour")
    if s >= 60:
        if s == 60 and h <= 24 and mi <= 59:
            raise Unspec("second = 60 (leap second: 1.0 text unclear)")
        raise Invalid("second")
    f = Fraction("0." + fr) if fr else Fraction(0)
    if h == 24 and (mi or s or f):
        raise Invalid("hour 24 with non-zero minutes/seconds")
    return h * 3600 + mi * 60 + s + f


class DateTimeLike(Atomic):
    """value = (kind, instant (Fraction seconds since 0001-01-01T00:00:00, local or UTC), tz offset or None, aux)"""
    ordered = True

    def __init__(self, name):
        self.name = name
        self.rx = {
            "dateTime": re.compile(_YEAR + r"-([0-9]{2})-([0-9]{2})T([0-9]{2}):([0-9]{2}):([0-9]{2})(?:\.([0-9]+))?" + _TZ + r"\Z"),
            "date": re.compile(_YEAR + r"-([0-9]{2})-([0-9]{2})" + _TZ + r"\Z"),
            "time": re.compile(r"([0-9]{2}):([0-9]{2}):([0-9]{2})(?:\.([0-9]+))?" + _TZ + r"\Z"),
            "gYearMonth": re.compile(_YEAR + r"-([0-9]{2})" + _TZ + r"\Z"),
            "gYear": re.compile(_YEAR + _TZ + r"\Z"),
            "gMonthDay": re.compile(r"--([0-9]{2})-([0-9]{2})" + _TZ + r"\Z"),
            "gDay": re.compile(r"---([0-9]{2})" + _TZ + r"\Z"),
            "gMonth": re.compile(r"--([0-9]{2})" + _TZ + r"\Z"),
        }[name]

    def parse(self, lex):
        n = self.name
        if n == "gMonth" and re.match(r"--[0-9]{2}--" + _TZ + r"\Z", lex):
            raise Unspec("gMonth --MM-- (original 1.0 form, corrected by erratum to --MM)")
        if "time-fraction-point-without-digits" in VARIANTS and n in ("dateTime", "time"):
            lex = re.sub(r"(:[0-9]{2})\.(?=Z\Z|[+-][0-9]{2}:[0-9]{2}\Z)", r"\1", lex)
        m = self.rx.match(lex)
        if not m:
            raise Invalid(n + " lexical")
        g = m.groups()
        neg = False
        aux = None
        if n in ("dateTime", "date", "gYearMonth", "gYear"):
            y = _year(g[0])
            neg = y < 0
            ya = astro(y)
        if n == "dateTime":
            off = _tz(g[7])
            _md(ya, int(g[1]), int(g[2]), neg)
            sod = _hms(int(g[3]), int(g[4]), int(g[5]), g[6])
            inst = days_from_civil(ya, int(g[1]), int(g[2])) * 86400 + sod
            if "datetime-hour24-not-next-day" in VARIANTS and int(g[3]) == 24 and g[7] in (None, "", "Z"):
                inst -= Fraction(1, 10 ** 7)      # field-wise comparison: after every time of that day, before the next day
        elif n == "date":
            off = _tz(g[3])
            _md(ya, int(g[1]), int(g[2]), neg)
            inst = Fraction(days_from_civil(ya, int(g[1]), int(g[2])) * 86400)
        elif n == "time":
            off = _tz(g[4])
            sod = _hms(int(g[0]), int(g[1]), int(g[2]), g[3])
            aux = "h24" if int(g[0]) == 24 else None
            inst = Fraction(sod)
        elif n == "gYearMonth":
            off = _tz(g[2])
            _md(ya, int(g[1]), 1, False)
            inst = Fraction(days_from_civil(ya, int(g[1]), 1) * 86400)
        elif n == "gYear":
            off = _tz(g[1])
            inst = Fraction(days_from_civil(ya, 1, 1) * 86400)
        elif n == "gMonthDay":
            off = _tz(g[2])
            _md(2000, int(g[0]), int(g[1]), False)   # an arbitrary leap year
            inst = Fraction(days_from_civil(2000, int(g[0]), int(g[1])) * 86400)
        elif n == "gDay":
            off = _tz(g[1])
            _md(2000, 1, int(g[0]), False)           # an arbitrary 31-day month
            inst = Fraction(days_from_civil(2000, 1, int(g[0])) * 86400)
        else:  # gMonth
            off = _tz(g[1])
            _md(2000, int(g[0]), 1, False)
            inst = Fraction(days_from_civil(2000, int(g[0]), 1) * 86400)
        if off is not None:
            inst -= off
        return (n, inst, off is not None, off, aux, neg)

    def cmp(self, a, b):
        ia, ib = a[1], b[1]
        if a[2] == b[2]:
            return num_cmp(ia, ib)
        if a[2]:  # a timezoned, b not
            if ia < ib - 14 * 3600:
                return LT
            if ia > ib + 14 * 3600:
                return GT
            if "tz-14h-boundary-not-indeterminate" in VARIANTS:
                if ia == ib - 14 * 3600:
                    return EQ
                if ia == ib + 14 * 3600:
                    return GT
            return IN
        r = self.cmp(b, a)
        return {LT: GT, GT: LT}.get(r, r)

    def eq(self, a, b):
        if "tz-14h-boundary-not-indeterminate" in VARIANTS:
            return self.cmp(a, b) == EQ
        return a[2] == b[2] and a[1] == b[1]

    def order_unspec(self, v):
        """values whose position in the order / whose identity the Recommendation leaves open"""
        if self.name == "time":
            # timezone normalisation crossing midnight, and 24:00:00: 'arbitrary date' ordering vs time-of-day identity
            return v[4] == "h24" or (v[2] and not (0 <= v[1] < 86400))
        if v[5] and self.name in ("dateTime", "date", "gYearMonth"):
            return True   # negative years: leap-year rule without year zero is not settled by 1.0
        return False

    def canon(self, v, lex):
        n, inst, tzd, off, aux, neg = v
        if neg:
            return None
        if n == "dateTime":
            days, sod = divmod(inst, 86400)
            y, mo, d = civil_from_days(int(days))
            if y < 1:
                return None
            s = int(sod)
            return "%s-%02d-%02dT%02d:%02d:%02d%s%s" % (fmt_year(xsd_year(y)), mo, d, s // 3600, s // 60 % 60, s % 60, fmt_frac(sod - s), "Z" if tzd else "")
        if n == "time":
            sod = inst % 86400
            s = int(sod)
            return "%02d:%02d:%02d%s%s" % (s // 3600, s // 60 % 60, s % 60, fmt_frac(sod - s), "Z" if tzd else "")
        if n == "date":
            if not tzd:
                y, mo, d = civil_from_days(int(inst // 86400))
                return "%s-%02d-%02d" % (fmt_year(xsd_year(y)), mo, d)
            mid = inst + 12 * 3600
            dd = int(mid // 86400)
            y, mo, d = civil_from_days(dd)
            if y < 1:
                return None
            rec = dd * 86400 - inst      # recoverable timezone in (-12h, +12h]
            if rec == 0:
                z = "Z"
            else:
                a = abs(int(rec))
                z = ("+" if rec > 0 else "-") + "%02d:%02d" % (a // 3600, a // 60 % 60)
            return "%s-%02d-%02d%s" % (fmt_year(xsd_year(y)), mo, d, z)
        return None

    def canon_ok(self, c):
        return None


# ---- binary
_HEX = re.compile(r"([0-9a-fA-F]{2})*\Z")
_B64 = "[A-Za-z0-9+/]"
_B16 = "[AEIMQUYcgkosw048]"
_B04 = "[AQgw]"
_B64RX = re.compile(r"((%s ?%s ?%s ?%s ?)*((%s ?%s ?%s ?%s)|(%s ?%s ?%s ?=)|(%s ?%s ?= ?=)))?\Z" % ((_B64,) * 4 + (_B64,) * 4 + (_B64, _B64, _B16) + (_B64, _B04)))
_B64ALPHA = "ABCDEFGHIJKLMNOPQRSTUVWXYZabcdefghijklmnopqrstuvwxyz0123456789+/"


class HexBinary(Atomic):
    name = "hexBinary"
    length_kind = "octets"

    def parse(self, lex):
        if not _HEX.match(lex):
            raise Invalid("hexBinary")
        return bytes.fromhex(lex)

    def canon(self, v, lex):
        return v.hex().upper()

    def canon_ok(self, c):
        return re.match(r"([0-9A-F]{2})*\Z", c) is not None

    def length(self, v):
        return len(v)


class Base64Binary(Atomic):
    name = "base64Binary"
    length_kind = "octets"

    def parse(self, lex):
        if not _B64RX.match(lex):
            raise Invalid("base64Binary")
        s = lex.replace(" ", "")
        bits = 0
        nb = 0
        out = bytearray()
        for ch in s:
            if ch == "=":
                break
            bits = (bits << 6) | _B64ALPHA.index(ch)
            nb += 6
            if nb >= 8:
                nb -= 8
                out.append((bits >> nb) & 0xFF)
        return bytes(out)

    def canon(self, v, lex):
        return lex.replace(" ", "")

    def canon_ok(self, c):
        return " " not in c and _B64RX.match(c) is not None

    def length(self, v):
        return len(v)


# ---- anyURI (deliberately narrow: see docs/c09.md)
_URI_SAFE = re.compile(r"([a-z][a-z0-9+.-]*:(?=[/a-z0-9]))?(//[a-z0-9.-]*)?(/?([a-z0-9._~-]|%[0-9a-fA-F]{2})+)*/?(\?([a-z0-9._~/?-]|%[0-9a-fA-F]{2})*)?(#([a-z0-9._~/?-]|%[0-9a-fA-F]{2})*)?\Z")


class AnyURI(Atomic):
    name = "anyURI"
    length_kind = "chars"

    def parse(self, lex):
        s = lex.replace(" ", "%20")   # XLink 5.4 escaping of the only disallowed character in the alphabets
        if re.search(r"%(?![0-9a-fA-F]{2})", s):
            raise Invalid("anyURI: malformed escape")
        if s.count("#") > 1:
            raise Invalid("anyURI: two fragment identifiers")
        if _URI_SAFE.match(s):
            return lex
        raise Unspec("anyURI outside the conservative RFC 2396 subset")

    def length(self, v):
        return len(v)


class QNameT(Atomic):
    length_kind = None  # length facets on QName/NOTATION: not judged

    def __init__(self, name):
        self.name = name

    def parse(self, lex):
        if not is_qname(lex):
            raise Invalid("QName")
        return lex


_I = Integer
BUILTINS = {
    "string": lambda: StringLike("string", "preserve"),
    "normalizedString": lambda: StringLike("normalizedString", "replace"),
    "token": lambda: StringLike("token", "collapse"),
    "language": lambda: StringLike("language", "collapse", lambda s: _LANG.match(s) is not None),
    "NMTOKEN": lambda: StringLike("NMTOKEN", "collapse", is_nmtoken),
    "Name": lambda: StringLike("Name", "collapse", is_name),
    "NCName": lambda: StringLike("NCName", "collapse", is_ncname),
    "ID": lambda: StringLike("ID", "collapse", is_ncname),
    "IDREF": lambda: StringLike("IDREF", "collapse", is_ncname),
    "ENTITY": lambda: StringLike("ENTITY", "collapse", is_ncname),
    "boolean": Boolean,
    "decimal": Decimal,
    "integer": lambda: _I("integer"),
    "nonPositiveInteger": lambda: _I("nonPositiveInteger", None, 0),
    "negativeInteger": lambda: _I("negativeInteger", None, -1),
    "long": lambda: _I("long", -2 ** 63, 2 ** 63 - 1),
    "int": lambda: _I("int", -2 ** 31, 2 ** 31 - 1),
    "short": lambda: _I("short", -2 ** 15, 2 ** 15 - 1),
    "byte": lambda: _I("byte", -128, 127),
    "nonNegativeInteger": lambda: _I("nonNegativeInteger", 0, None),
    "unsignedLong": lambda: _I("unsignedLong", 0, 2 ** 64 - 1),
    "unsignedInt": lambda: _I("unsignedInt", 0, 2 ** 32 - 1),
    "unsignedShort": lambda: _I("unsignedShort", 0, 2 ** 16 - 1),
    "unsignedByte": lambda: _I("unsignedByte", 0, 255),
    "positiveInteger": lambda: _I("positiveInteger", 1, None),
    "float": lambda: Float("float", 24, -149, 104),
    "double": lambda: Float("double", 53, -1074, 971),
    "duration": Duration,
    "dateTime": lambda: DateTimeLike("dateTime"),
    "time": lambda: DateTimeLike("time"),
    "date": lambda: DateTimeLike("date"),
    "gYearMonth": lambda: DateTimeLike("gYearMonth"),
    "gYear": lambda: DateTimeLike("gYear"),
    "gMonthDay": lambda: DateTimeLike("gMonthDay"),
    "gDay": lambda: DateTimeLike("gDay"),
    "gMonth": lambda: DateTimeLike("gMonth"),
    "hexBinary": HexBinary,
    "base64Binary": Base64Binary,
    "anyURI": AnyURI,
    "QName": lambda: QNameT("QName"),
    "NOTATION": lambda: QNameT("NOTATION"),
}
LIST_BUILTINS = {"NMTOKENS": "NMTOKEN", "IDREFS": "IDREF", "ENTITIES": "ENTITY"}
ALL_BUILTIN_NAMES = list(BUILTINS) + list(LIST_BUILTINS)
INTEGER_TYPES = ["integer", "nonPositiveInteger", "negativeInteger", "long", "int", "short", "byte", "nonNegativeInteger", "unsignedLong",
                 "unsignedInt", "unsignedShort", "unsignedByte", "positiveInteger"]


# ------------------------------------------------------------------------------------------------ type model
class Type:
    """compiled tdef: check(raw) -> ('V', value, lex) | ('I', reason, lex) | ('U', reason, lex)"""

    def __init__(self, tdef):
        self.tdef = tdef
        if "b" in tdef:
            n = tdef["b"]
            if n in LIST_BUILTINS:
                inner = Type({"r": {"l": {"b": LIST_BUILTINS[n]}}, "f": [["minLength", "1"]]})
                self.__dict__.update(inner.__dict__)
                self.tdef = tdef
                return
            self.variety = "atomic"
            self.prim = BUILTINS[n]()
            self.ws = self.prim.ws
            self.base = None
            self.facets = []
        elif "l" in tdef:
            self.variety = "list"
            self.item = Type(tdef["l"])
            self.ws = "collapse"
            self.base = None
            self.facets = []
            self.prim = None
        elif "u" in tdef:
            self.variety = "union"
            self.members = [Type(t) for t in tdef["u"]]
            self.ws = "collapse"   # the spaces only use unions whose members all have whiteSpace=collapse (see docs/c09.md)
            self.base = None
            self.facets = []
            self.prim = None
        else:
            self.base = Type(tdef["r"])
            self.variety = self.base.variety
            self.prim = self.base.prim
            self.ws = self.base.ws
            for k, v in tdef["f"]:
                if k == "whiteSpace":
                    self.ws = v
            self.facets = [(k, v) for k, v in tdef["f"] if k != "whiteSpace"]
            if self.variety == "list":
                self.item = self.base.item
            if self.variety == "union":
                self.members = self.base.members
            self._prep()

    # -- facet preparation (facet literals are interpreted in the *base* type)
    def _prep(self):
        self.fv = []
        pats = []
        enums = []
        for k, v in self.facets:
            if k == "pattern":
                pats.append(re.compile(r"(?:%s)\Z" % v))
            elif k == "enumeration":
                st, val, _ = self.base.check(v)
                if st != "V":
                    raise ValueError("enumeration literal %r not valid for base" % v)
                enums.append(val)
            elif k in ("length", "minLength", "maxLength", "totalDigits", "fractionDigits"):
                self.fv.append((k, int(v)))
            elif k in ("minInclusive", "maxInclusive", "minExclusive", "maxExclusive"):
                st, val, _ = self.base.check(v)
                if st != "V":
                    raise ValueError("bound %r not valid for base: %s" % (v, val))
                self.fv.append((k, val))
        self.pats = pats
        self.enums = enums
        # facet literals whose value / position in the order is not judged make every value-based verdict of the type unjudged
        self.unspec_facet = False
        if self.variety == "atomic":
            p = self.prim
            for k, v in self.facets:
                if k in ("enumeration", "minInclusive", "maxInclusive", "minExclusive", "maxExclusive"):
                    lexv = ws_apply(self.base.ws, v)
                    if isinstance(p, Float) and p.band(lexv):
                        self.unspec_facet = True
                    if isinstance(p, DateTimeLike) and p.order_unspec(self.base.check(v)[1]):
                        self.unspec_facet = True

    def primitive_ordered(self):
        return self.variety == "atomic" and self.prim.ordered

    # -- values
    def veq(self, a, b):
        if self.variety == "atomic":
            return self.prim.eq(a, b)
        if self.variety == "list":
            return len(a) == len(b) and all(self.item.veq(x, y) for x, y in zip(a, b))
        # union: values of different member types are distinct unless both members share a primitive (not used in the spaces)
        if "union-compare-across-member-types" in VARIANTS:
            for m in self.members:
                sa, va, _ = m.check(a[2])
                sb, vb, _ = m.check(b[2])
                if sa == "V" and sb == "V" and m.veq(va, vb):
                    return True
            return False
        return a[0] == b[0] and self.members[a[0]].veq(a[1], b[1])

    def vcmp(self, a, b):
        return self.prim.cmp(a, b)

    def vlength(self, v):
        if self.variety == "list":
            return len(v)
        if self.variety == "atomic":
            return self.prim.length(v)
        return None

    def check(self, raw, pre_normalised=False):
        lex = raw if pre_normalised else ws_apply(self.ws, raw)
        try:
            return ("V", self._value(lex), lex)
        except Invalid as e:
            return ("I", str(e), lex)
        except Unspec as e:
            return ("U", str(e), lex)

    def _value(self, lex):
        if self.base is None:
            if self.variety == "atomic":
                return self.prim.parse(lex)
            if self.variety == "list":
                items = [x for x in lex.split(" ") if x]
                out = []
                unspec = None
                for it in items:
                    st, v, _ = self.item.check(it)
                    if st == "I":
                        raise Invalid("list item: " + str(v))
                    if st == "U":
                        unspec = v
                    out.append(v)
                if unspec:
                    raise Unspec(unspec)
                return tuple(out)
            # union
            unspec = None
            for i, m in enumerate(self.members):
                st, v, _ = m.check(lex)
                if st == "V":
                    if unspec:
                        raise Unspec(unspec)
                    return (i, v, lex)
                if st == "U":
                    unspec = v
            if unspec:
                raise Unspec(unspec)
            raise Invalid("no union member accepts")
        # restriction: base first (base sees the lexical form normalised by *this* type's whitespace, which is at least as strong)
        st, v, _ = self.base.check(lex, pre_normalised=True)
        if st == "I":
            raise Invalid(v)
        unspec = v if st == "U" else None
        if self.pats and not any(p.match(lex) for p in self.pats):
            raise Invalid("pattern")
        if unspec:
            raise Unspec(unspec)
        if (self.enums or any(k.startswith(("min", "max")) and k.endswith("clusive") for k, _ in self.fv)) and self.variety == "atomic":
            p = self.prim
            if self.unspec_facet or (isinstance(p, Float) and p.band(lex)) or (isinstance(p, DateTimeLike) and p.order_unspec(v)):
                raise Unspec("value-based facet on a value whose identity/order is not judged")
        if self.enums and not any(self.veq(v, e) for e in self.enums):
            raise Invalid("enumeration")
        for k, fvv in self.fv:
            if k in ("length", "minLength", "maxLength"):
                n = self.vlength(v)
                if n is None:
                    if self.variety == "atomic" and isinstance(self.prim, QNameT):
                        continue
                    raise Unspec("length facet on a type without length")
                if (k == "length" and n != fvv) or (k == "minLength" and n < fvv) or (k == "maxLength" and n > fvv):
                    raise Invalid(k)
            elif k == "totalDigits":
                sign, ip, fd = dec_digits(v)
                if len(ip) + len(fd) > fvv:
                    raise Invalid(k)
            elif k == "fractionDigits":
                sign, ip, fd = dec_digits(v)
                if len(fd) > fvv:
                    raise Invalid(k)
            else:
                r = self.vcmp(v, fvv)
                ok = {"minInclusive": r in (GT, EQ), "minExclusive": r == GT, "maxInclusive": r in (LT, EQ), "maxExclusive": r == LT}[k]
                if "inclusive-bounds-accept-indeterminate" in VARIANTS and r == IN and k in ("minInclusive", "maxInclusive"):
                    ok = True
                if not ok:
                    raise Invalid(k)
        return v


# ------------------------------------------------------------------------------------------------ XSD emission
def xml_attr(s):
    out = []
    for ch in s:
        o = ord(ch)
        if ch in "<&\"'>" or o < 0x20 or o > 0x7e:
            out.append("&#x%X;" % o)
        else:
            out.append(ch)
    return "".join(out)


def emit_simple_type(tdef, name=None):
    head = "<xs:simpleType%s>" % (' name="%s"' % name if name else "")
    if "b" in tdef:
        return head + '<xs:restriction base="xs:%s"/></xs:simpleType>' % tdef["b"]
    if "l" in tdef:
        it = tdef["l"]
        if "b" in it:
            return head + '<xs:list itemType="xs:%s"/></xs:simpleType>' % it["b"]
        return head + "<xs:list>" + emit_simple_type(it) + "</xs:list></xs:simpleType>"
    if "u" in tdef:
        ms = tdef["u"]
        if all("b" in m for m in ms):
            return head + '<xs:union memberTypes="%s"/></xs:simpleType>' % " ".join("xs:" + m["b"] for m in ms)
        return head + "<xs:union>" + "".join(emit_simple_type(m) for m in ms) + "</xs:union></xs:simpleType>"
    base = tdef["r"]
    fac = "".join('<xs:%s value="%s"/>' % (k, xml_attr(v)) for k, v in tdef["f"])
    if "b" in base:
        return head + '<xs:restriction base="xs:%s">%s</xs:restriction></xs:simpleType>' % (base["b"], fac)
    return head + "<xs:restriction>" + emit_simple_type(base) + fac + "</xs:restriction></xs:simpleType>"


def emit_schema(tdefs):
    """one global element e<i> per tdef; returns (xsd text, line number -> type index)"""
    lines = ['<xs:schema xmlns:xs="http://www.w3.org/2001/XMLSchema" xmlns:p="urn:p">',
             '<xs:element name="r"><xs:complexType><xs:sequence><xs:any minOccurs="0" maxOccurs="unbounded" processContents="strict"/></xs:sequence></xs:complexType></xs:element>',
             '<xs:notation name="n1" public="n1"/>']
    line2type = {}
    for i, t in enumerate(tdefs):
        if "b" in t and t["b"] != "NOTATION":
            lines.append('<xs:element name="e%d" type="xs:%s"/>' % (i, t["b"]))
        elif "b" in t:
            lines.append("<!-- NOTATION cannot type an element directly -->")
        else:
            lines.append(emit_simple_type(t, "t%d" % i) + '<xs:element name="e%d" type="t%d"/>' % (i, i))
        line2type[len(lines)] = i
    lines.append("</xs:schema>")
    return "\n".join(lines) + "\n", line2type


def tdef_label(t):
    """type description without facet values (for grouping)"""
    if "b" in t:
        return t["b"]
    if "l" in t:
        return "list(%s)" % tdef_label(t["l"])
    if "u" in t:
        return "union(%s)" % ",".join(tdef_label(m) for m in t["u"])
    return "%s{%s}" % (tdef_label(t["r"]), ",".join(sorted(set(k for k, v in t["f"]))))


def has_pattern(t):
    if "b" in t:
        return False
    if "l" in t:
        return has_pattern(t["l"])
    if "u" in t:
        return any(has_pattern(m) for m in t["u"])
    return any(k == "pattern" for k, v in t["f"]) or has_pattern(t["r"])


def tdef_str(t):
    if "b" in t:
        return t["b"]
    if "l" in t:
        return "list(%s)" % tdef_str(t["l"])
    if "u" in t:
        return "union(%s)" % ",".join(tdef_str(m) for m in t["u"])
    return "%s{%s}" % (tdef_str(t["r"]), ",".join("%s=%s" % (k, v) for k, v in t["f"]))
