"""C16 - a serialised grammar pool restores to a behaviourally identical pool (driver drv/c16_pool.cpp, notes docs/c16.md)."""
from .checks import _sum


def _run(name, *args, **kw):
    return dict(name=name, driver="c16_pool", args=list(args) + ["--case-timeout", 120, "--max-viol", 60], **kw)


def _cov(rs):
    kinds = {}
    fams = {}
    for r in rs:
        for k, v in r.get("counters", {}).items():
            if k.startswith("kind:"):
                kinds[k[5:]] = kinds.get(k[5:], 0) + v
            if k.startswith("grammars:"):
                fams[k[9:]] = fams.get(k[9:], 0) + v
    distinct = sum(r.get("counters", {}).get("distinct_signatures", 0) for r in rs)
    return {
        # distinct structural dumps of the original pools (grammar + ladder spaces) + rejected level stamps + rejected truncations
        "distinct_nontrivial": distinct + _sum(rs, "level_mutations") + _sum(rs, "truncated_streams"),
        "grammar_pools_round_tripped": _sum(rs, "grammars_loaded"),
        "grammars_per_family": fams,
        "component_kinds_in_original_pools": kinds,
        "nonvacuity": {k: _sum(rs, k) for k in (
            "validations", "instances_valid_under_A", "instances_invalid_under_A", "instances_fatal_under_A", "instance_lines_with_error_under_A",
            "instance_lines_without_error_under_A", "validity_errors_under_A", "instances_with_defaulted_attributes", "instances_with_schema_defaulted_items",
            "instances_with_psvi_types", "streams_multi_block", "stream_bytes", "raw_ser_B_vs_A:byte-equal", "raw_ser_B_vs_A:differs",
            "ser_B_vs_A:byte-equal-modulo-element-ids", "ser_B_vs_A:equal-up-to-table-order", "ser_B_vs_A:differs", "ser_C_vs_A:byte-equal-modulo-element-ids",
            "ser_C_vs_A:equal-up-to-table-order", "ser_C_vs_A:differs", "ser_generations_alternate(C~A)", "grammar_rejected_at_load",
            "level_mutations", "level_rejected_with_XSerializationException", "level_control_accepted", "truncated_streams", "truncated_at_block_boundary",
            "truncated_at_block_boundary_inside_data", "truncated_only_zero_padding_accepted", "truncated_rejected:XMLException:XSerializationException",
            "ladder_data_end_within_16_of_block_boundary", "locked_pools_serialized", "locked_pools_restored", "witnesses_evaluated",
            "witness_failed:xmldatetime-fraction-lost", "witness_failed:notation-annotation-dropped", "witness_passed:xmldatetime-fraction-lost",
            "witness_passed:notation-annotation-dropped", "known_defect:xmldatetime-fraction-lost", "known_defect:notation-annotation-dropped")},
    }


SPEC = dict(
    level="exploration",
    rule="One case = one grammar-pool content G of an explicitly enumerated family plus its instance set. Families (drv/c16_gen*.hpp): DTD content models "
         "(EMPTY, ANY, mixed, every children expression over {a,b,c} with <= 3 leaves, ',' and '|', occurrence none/?/*/+ on leaves and groups; nested shapes), "
         "DTD attributes (10 attribute types x 4 default kinds, singly and in pairs), DTD entity/notation declaration subsets (9 declaration tokens: internal, "
         "nested, external SYSTEM/PUBLIC, unparsed+NDATA, parameter entity + redeclaration, notations, ATTLIST using them); XML Schema particles (sequence/choice/all x "
         "7 occurrence pairs x 8 leaf kinds incl. 4 wildcards and nested groups, 1-2 leaves), attribute uses (6 use/value-constraint combinations x 8 types x "
         "local/qualified/global-ref; attribute wildcards 5 namespace constraints x 3 processContents, directly and through nested attribute groups; restriction of uses), "
         "simple types (35 built-in bases x every applicable facet: length/minLength/maxLength/pattern/enumeration/whiteSpace/4 bounds/totalDigits/fractionDigits, "
         "fixed and not, and two-step derivations; NOTATION with xs:notation declarations), lists (8 item types x 8 facet sets) and unions (ordered member pairs, "
         "anonymous members, restricted unions, list of union, union of union, final), complex types (abstract x block x final x mixed with derived types by extension "
         "and restriction, 7 content kinds incl. simple content, recursion, all-groups, anonymous nesting), element flags (nillable x abstract x block x final x "
         "default/fixed), substitution groups, named groups (3 compositors x 7 occurrences x 4 contexts), identity constraints (unique/key/key+keyref x 6 selectors x "
         "6 field sets), annotations (21 positions x 4 bodies, singly, pairs, all), target namespace present/absent x elementFormDefault x attributeFormDefault x "
         "{stand-alone, import, import of no-namespace grammar, include, chameleon include, two loadGrammar calls}, and mixed pools (DTD+schema, two DTDs, two DTDs + two "
         "schemas). Every schema family is enumerated with and without targetNamespace. quick = the listed sub-bounds (~2.9 K pools), thorough = the full bounds (~22 K "
         "pools). For each pool A: B = deser(ser(A)), C = deser(ser(B)); oracles: (1) every instance validated against A, B, C alone (useCachedGrammarInParse, no "
         "grammar file reachable in the VFS) through SAX2+PSVIHandler and DOM+getSchemaTypeInfo gives identical dumps (events, defaulted attributes, types, "
         "messages with positions); (2) recursive XSModel dump / DTDGrammar dump of A, B, C identical; (3) re-serialised streams equal (see assumptions). "
         "Stream spaces on 8 rich pools: (level) the leading level field replaced by every value 0..15 except the current one and by each of its 32 single-bit flips must "
         "raise XSerializationException; (trunc) every prefix of a ladder around every 8192-byte block boundary must be rejected with a documented exception (or be "
         "loss-free: only zero padding removed) - the cut is moved through the structure by a pad sweep; (full-window-shift-sweep) one annotated schema pool whose target namespace URI is padded by every L = 0..4099 characters, which shifts every later field of the stream through "
         "all 8192 byte positions of the engine buffer, so that each string ends exactly on, one before and one behind a buffer boundary for some L (4 100 full round trips); "
         "(ladder) the same pools padded by L = 0..N-1 characters in "
         "the namespace URI / one long value / L extra enumeration values / a long annotation so that the data crosses block boundaries at every even offset, full "
         "round-trip oracles; (long values) one entity / enumeration value longer than a block (4090..8300 characters; quick: +-40 around the length at which it ends "
         "exactly on a block boundary) on a DTD pool and an annotation-free schema pool; (locked) pools serialised after lockPool(). Non-trivial = distinct original pool dumps + rejected mutated streams.",
    trusted_base=["clang 14 ASan+UBSan (-fno-sanitize-recover=undefined)", "metamorphic oracle: the original pool A is the reference for B and C (no external model)"],
    assumptions=[
        "oracle (3) narrowed: raw byte equality of ser(B) and ser(A) does not hold on the unchanged tree for a benign reason - element-declaration ids "
        "(XMLElementDecl::fId) are pool-local handles that RefHash3KeysIdPool::put reassigns in load order; streams are therefore compared after setting these ids to 0 "
        "in all three pools (public XMLElementDecl::setId), byte for byte",
        "hash tables are written in enumeration order and rebuilt by inserting in that order, which reverses every collision chain: a stream may differ from its "
        "predecessor by the order of table entries (accepted when equal as multisets of aligned 32-bit words) or, when serialisable objects hang off a reversed chain, by "
        "renumbered object tags (accepted only when the next generation is equal again: ser(C) ~ ser(A)); raw byte-equality counts are reported in the evidence",
        "grammars that do not load without error (UPA violations of the enumerated particle pairs etc.) are counted and not claimed",
        "a fresh parser attached to a pool whose XSModel already exists receives an empty XSModel (GrammarResolver::getXSModel); the harness forces a model refresh "
        "(lockPool/unlockPool) before creating each parser so that PSVI type information is actually compared",
        "instances that trigger three library defects unrelated to serialisation are left out (they abort the process under the sanitizers with the ORIGINAL pool): empty "
        "attribute values of list type with a PSVI handler (heap overflow in ListDatatypeValidator::getCanonicalRepresentation), prohibited attributes present with a PSVI "
        "handler (null PSVIAttribute in IGXMLScanner::buildAttList: those pools are validated without PSVI), generateSyntheticAnnotations (bad downcast in "
        "TraverseSchema::generateSyntheticAnnotation) - see docs/c16.md",
        "stream layout of annotated schema pools depends on heap addresses (annotation table written in pointer-hash order): the general ladder keeps every string "
        "shorter than one block; strings longer than a block are swept only on pools with address-independent layout",
        "errors reported at the same (severity, line, column) are compared as a set (hash-order of attribute definitions)",
        "listed defects (drv/c16_defects.hpp): 'xmldatetime-fraction-lost' and 'notation-annotation-dropped' are asserted strictly by the witness run (kind defect:<id>); "
        "in the other spaces a mismatch is only counted as known_defect:<id> when the witness of <id> fails in the same process AND the narrow predicate explains it "
        "completely (every differing dump line carries a fractional-seconds time value or is the valid->invalid flip of an owner element / the only differing lines are "
        "notation declarations identical up to the missing annotation); with a repaired library the witness passes and the predicate is disabled",
        "locked pools are validated without PSVI handlers: a fresh parser on a locked pool always gets an empty XSModel (GrammarResolver::getXSModel) and "
        "IGXMLScanner::buildAttList then dereferences a null XSSimpleTypeDefinition - with the original locked pool as well, i.e. not a serialisation defect",
        "after a rejected stream the same pool object usually refuses a second deserializeGrammars ('string pool is not empty'): documented as the client's responsibility, counted only",
    ],
    coverage=_cov,
    runs=dict(
        quick=[
            _run("witness", "--space", "witness", "--tier", "quick"),
            _run("grammar-families", "--space", "grammars", "--family", "all", "--tier", "quick"),
            _run("level-stamp", "--space", "level", "--tier", "quick"),
            _run("truncation", "--space", "trunc", "--tier", "quick", "--hi", 12, "--modes", "1,2", "--rich", 4),
            _run("block-boundary-ladder", "--space", "ladder", "--tier", "quick", "--hi", 24, "--modes", "1,2", "--rich", 4, "--sax-only", 1),
            _run("long-value-ends-on-block-boundary", "--space", "ladder", "--tier", "quick", "--modes", "2", "--rich", 8, "--only-rich", 3, "--align-window", 40, "--sax-only", 1),
            _run("full-window-shift-sweep", "--space", "ladder", "--tier", "quick", "--lo", 0, "--hi", 4100, "--modes", "1", "--rich", 8, "--only-rich", 0, "--sax-only", 1),
            _run("locked-pool", "--space", "locked", "--tier", "quick"),
        ],
        thorough=[
            _run("witness", "--space", "witness", "--tier", "thorough"),
            _run("grammar-families", "--space", "grammars", "--family", "all", "--tier", "thorough"),
            _run("level-stamp", "--space", "level", "--tier", "thorough"),
            _run("truncation", "--space", "trunc", "--tier", "thorough", "--hi", 200, "--modes", "1,2", "--rich", 8),
            _run("block-boundary-ladder-uri-value", "--space", "ladder", "--tier", "thorough", "--hi", 3500, "--step", 7, "--modes", "1,2", "--rich", 8, "--sax-only", 1),
            _run("block-boundary-ladder-list-annotation", "--space", "ladder", "--tier", "thorough", "--hi", 150, "--modes", "3,4", "--rich", 8, "--sax-only", 1),
            _run("long-value-sweep-dtd", "--space", "ladder", "--tier", "thorough", "--lo", 4090, "--hi", 8300, "--modes", "2", "--rich", 8, "--only-rich", 3, "--sax-only", 1),
            _run("long-value-sweep-schema", "--space", "ladder", "--tier", "thorough", "--lo", 4090, "--hi", 8300, "--modes", "2", "--rich", 8, "--only-rich", 5, "--sax-only", 1),
            _run("full-window-shift-sweep-uri", "--space", "ladder", "--tier", "thorough", "--lo", 0, "--hi", 4100, "--modes", "1", "--rich", 8, "--only-rich", 0, "--sax-only", 1),
            _run("full-window-shift-sweep-annotation", "--space", "ladder", "--tier", "thorough", "--lo", 0, "--hi", 4100, "--modes", "4", "--rich", 8, "--only-rich", 1, "--sax-only", 1),
            _run("locked-pool", "--space", "locked", "--tier", "thorough"),
        ],
    ),
    manifest=dict(
        text="Every pool of the enumerated DTD / XML Schema families is serialised, restored twice, and the restored pools must validate every instance identically, expose "
             "an identical schema component model and re-serialise to an equivalent stream; mutated level stamps and truncated streams must be rejected cleanly.",
        note="metamorphic (original pool is the reference); stream equality is modulo pool-local element ids and hash-chain order, see assumptions",
        technique="bounded-exhaustive enumeration of grammar families x instance sets, three-generation round trip (A, deser(ser(A)), deser(ser(deser(ser(A))))) differential on "
                  "validation dumps, XSModel dumps and streams; exhaustive level-field mutations; truncation and block-boundary ladders"),
)
