"""C08 - XML Schema 1.0 structures validation: bounded-exhaustive schema x instance exploration against a reference model.

Driver: drv/c08_schema.cpp (+ c08_ref.hpp reference model, c08_common.hpp parse helper, c08_spaces.hpp non-particle spaces).
Notes, narrowings, measured times, mutations and findings: docs/c08.md.
"""
from .checks import _sum

PROPERTY = "C08"

_PARTICLE_KEYS = ("ref_words_accepted", "ref_words_rejected_content_model", "ref_words_rejected_strict_wildcard")
_BATCH_KEYS = ("ref_items_valid", "ref_items_invalid")


def _coverage(rs):
    words = sum(_sum(rs, k) for k in _PARTICLE_KEYS)
    items = sum(_sum(rs, k) for k in _BATCH_KEYS)
    schema_rejections = _sum(rs, "schemas_upa_violation") + _sum(rs, "schemas_all_limited_violation") + _sum(rs, "expect_schema_rejected")
    return {
        # distinct (schema, instance) pairs that carry a reference verdict + schemas whose rejection is demanded
        "distinct_nontrivial": words + items + schema_rejections,
        "particle_schemas": sum(_sum(rs, k) for k in ("schemas_upa_ok", "schemas_upa_same-particle", "schemas_upa_violation")),
        "particle_schemas_with_both_verdicts": _sum(rs, "schemas_with_both_verdicts"),
        "reference_words": {"accepted": _sum(rs, "ref_words_accepted"), "rejected_by_content_model": _sum(rs, "ref_words_rejected_content_model"),
                            "rejected_by_strict_wildcard": _sum(rs, "ref_words_rejected_strict_wildcard")},
        "oracle_crosschecked_words": _sum(rs, "oracle_crosschecked_words"),
        "schemas_expected_rejected": {"upa": _sum(rs, "schemas_upa_violation"), "all_limited": _sum(rs, "schemas_all_limited_violation"),
                                      "component_constraints_runs": _sum(rs, "expect_schema_rejected")},
        "batch_items": {"valid": _sum(rs, "ref_items_valid"), "invalid": _sum(rs, "ref_items_invalid"), "noclaim": _sum(rs, "ref_items_noclaim")},
        "instance_verdicts_compared": _sum(rs, "instance_verdicts_compared"),
        "type_names_compared": _sum(rs, "type_names_compared") + _sum(rs, "attr_type_names_compared"),
        "defaults_compared": _sum(rs, "element_text_compared") + _sum(rs, "attribute_lists_compared"),
        "parses": _sum(rs, "parses"),
        # strict witnesses of the diagnosed library defects (space "witness": one violation "defect:<slug>" per defect that still shows) and
        # the mismatches in the other spaces that are exactly explained by a defect predicate (counted, not reported; see docs/c08.md section 4)
        "defect_witnesses": {"failing": _sum(rs, "witnesses_failing"), "passing": _sum(rs, "witnesses_passing")},
        "mismatches_explained_by_known_defect": _by_prefix(rs, "known_defect:"),
    }


def _by_prefix(rs, prefix):
    out = {}
    for r in rs:
        for k, v in r.get("counters", {}).items():
            if k.startswith(prefix):
                out[k[len(prefix):]] = out.get(k[len(prefix):], 0) + v
    return out


def _particles(tier, full, length, wordcap, alldeep, deadline=None):
    args = ["--space", "particles", "--tier", tier, "--full", full, "--len", length, "--wordcap", wordcap, "--alldeepmax", alldeep, "--case-timeout", 120, "--known", "skip"]
    if deadline:
        args += ["--deadline", deadline]
    return dict(name="particles-" + tier, driver="c08_schema", args=args)


_WITNESS = dict(name="witness", driver="c08_schema", args=["--space", "witness", "--workers", 2])


def _batch(space, tier):
    return dict(name=space + "-" + tier, driver="c08_schema", args=["--space", space, "--tier", tier, "--case-timeout", 120, "--known", "skip"])


SPEC = dict(
    level="exploration",
    rule="(chains: extension chains T0 <- T1 <- ... of depth 1-2 (thorough 3), every level adding one particle - a local element declaration or a reference to a global one, all assignments - and one attribute, "
         "declared top-down or bottom-up; items = every element e_j x {declared type, xsi:type of every type derived from it} x every child sequence of <= depth+2 over the chain's element names, "
         "valid iff the children are exactly the particles of the governing type in order and each is an integer.) (attrs also: wide complex types with N attribute uses, N in {10, 63..67, 70, 129..131} - around the 64-slot rows of the scanners' attribute-presence bookkeeping - with a required and a defaulted use last; the first item gives all N attributes, later items of the same type subsets.) (1) particles: every particle tree of the families P1 g{o}(l{o}), P1n g{o}(g{o}(l{o})), P2 g{o}(l{o} l{o}), P2n (three nested two-leaf shapes), "
         "P3 (three-leaf shapes, thorough), PA all-groups with 1-3 members, PL occurrence ladder (max 5/12), over leaves {element a,b,c; wildcards "
         "##any/##other/##targetNamespace x strict/lax/skip}, compositor {sequence, choice, all(top)}, occurrence pairs from "
         "{(0,1),(1,1),(0,inf),(1,inf),(2,2),(2,3),(0,2),(3,inf)} (per-family subsets listed in docs/c08.md) is one schema = one case. "
         "Each schema is classified by a Glushkov determinism test (UPA ok / same-particle ambiguity / violation) and by cos-all-limited; violating schemas must be "
         "reported erroneous (UPA: under full checking). For every other schema the batch instance holds one <e> per line for every child word over "
         "{a,b,c,x(other ns),d(undeclared)}: all words of length <= F (quick 3, thorough 4), all longer words up to L (quick 5, thorough 6) whose proper prefixes "
         "are viable for the reference, plus unary/period-2 ladder words up to length 13; the set of lines with validity errors must equal the set of words the "
         "reference rejects (Brzozowski derivatives with occurrence counters + strict-wildcard declaration rule), under {IG,SG} x {SAX2,DOM} x full checking {on,off} "
         "(all eight configurations see every word for schemas with <= alldeepmax words, otherwise a rotating pair sees all words and six see the words of length <= 3). "
         "(2) attrs / content / types / wild / assembly: every combination of the listed schema parameters is one schema (case) validated against a fixed batch of "
         "instance items; verdict, governing type name, attribute type names, delivered defaults are compared with a direct implementation of the Structures rules. "
         "Non-trivial = distinct (schema, instance) pairs with a reference verdict + schemas whose rejection is demanded.",
    trusted_base=["reference model drv/c08_ref.hpp (derivatives) cross-checked word by word against an independent denotational matcher in the same file",
                  "XML Schema 1.0 Structures (2nd ed.) validation rules as transcribed in drv/c08_spaces.hpp", "clang 14 ASan/UBSan"],
    assumptions=[
        "UPA: schemas whose only competing positions are copies of the SAME particle (e.g. (a{2,3}){0,unbounded}) are 'no claim' for the schema verdict "
        "(XSD 1.0 UPA speaks about particles, the counter-expanded Glushkov automaton about positions); their instances are still compared when the schema is accepted",
        "UPA-violating schemas are only claimed under full checking (Xerces documents UPA as part of schema full checking); without it nothing is claimed for them",
        "errors of the grammar-level checks (UPA, particle derivation) are reported by Xerces at the root start tag of the instance (line 1), "
        "schema traversal errors carry the schema's system id: both count as 'schema reported erroneous'",
        "words extending a prefix that is already dead for the reference are only enumerated up to length F (cut for time); ladder words cover large counts",
        "a directly declared use='prohibited' attribute that an attribute wildcard would admit is 'no claim' (XSD 1.0 says the use is absent, Xerces-C rejects it; contentious corner)",
        "PSVI [validity] is compared only for items the reference calls valid; for invalid items it is informational (not part of the property text)",
        "SAX2 PSVIElement::getTypeDefinition()==null is accepted for xs:anyType (documented convention of the DOM builder); DOMTypeInfo must say anyType",
        "delivered lexical form of whitespace-padded attribute values (' 5 ') is not compared (datatype normalisation belongs to C09)",
        "type names are compared only for valid items; anonymous types carry no name claim",
        "six diagnosed library defects (docs/c08.md section 4): each is executed strictly by one minimal witness in the space 'witness' and reported there as "
        "a violation of kind 'defect:<slug>' while it persists; in the other spaces a mismatch that is exactly explained by the structural predicate of a defect "
        "whose witness still fails (start-up probe) is counted as known_defect:<id> instead of being reported; when a witness passes its predicate is switched off",
    ],
    coverage=_coverage,
    runs=dict(
        quick=[_WITNESS, _particles("quick", 3, 5, 1000, 250), _batch("attrs", "quick"), _batch("content", "quick"), _batch("types", "quick"),
               _batch("wild", "quick"), _batch("assembly", "quick"), _batch("chains", "quick")],
        thorough=[_WITNESS, _particles("thorough", 4, 6, 2000, 300, deadline=1250), _batch("attrs", "thorough"), _batch("content", "thorough"), _batch("types", "thorough"),
                  _batch("wild", "thorough"), _batch("assembly", "thorough"), _batch("chains", "thorough")],
    ),
    manifest=dict(
        text="Schema-valid iff reported valid for every generated (schema, instance) pair: particle trees up to 2 (quick) / 3 (thorough) leaves with the eight "
             "occurrence pairs on every node (both the counter path and the subtree-expansion path of ComplexTypeInfo/DFAContentModel), all-groups, wildcards, "
             "UPA and cos-all-limited rejection, attribute uses x value constraints x attribute wildcards, content kinds x value constraints, "
             "extension/restriction x abstract/block/final x xsi:type x xsi:nil x substitution groups, wildcard namespace constraints x processContents, "
             "and twelve ways of assembling the same component (global/local, named/anonymous, groups, include, chameleon include, import, no target namespace); "
             "plus governing type names (DOMTypeInfo / PSVI) and delivered defaults.",
        note="Reference = Brzozowski derivatives with counters, self-checked against a denotational matcher; Structures rules transcribed for exactly the generated components. "
             "Six library defects are diagnosed, witnessed strictly (space 'witness', kinds 'defect:<slug>') and otherwise skipped by predicate; see docs/c08.md.",
        technique="bounded-exhaustive enumeration of typed schema models x child-word batches against a derivative-based reference and a direct rule implementation",
    ),
)
