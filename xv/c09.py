"""C09 - schema datatypes: lexical / value-space / facet / canonical-form correctness.

Python side of the check (run kind `python=`): enumerates the case spaces, drives drv/c09_dtv.cpp in big sharded batches
(XV_WORKERS processes, each a Python worker that writes case files, runs the C++ batch driver, and compares every answer
with the reference model of xv/c09_oracle.py).  See docs/c09.md.
"""
import json, os, re, subprocess, sys, time
from fractions import Fraction

from . import build
from .checks import _sum
from . import c09_oracle as O
from .c09_oracle import Type, LT, EQ, GT, IN

WSCH = [" ", "\t", "\n", "\r"]


# ================================================================================================ enumerations
class Words:
    """all words of length <= L over `alpha` (symbols may be multi-character tokens), shortest first"""

    def __init__(self, alpha, L):
        self.alpha, self.L = alpha, L
        n = len(alpha)
        self.size = sum(n ** i for i in range(L + 1))

    def get(self, idx):
        n = len(self.alpha)
        p = 1
        for ln in range(self.L + 1):
            if idx < p:
                w = []
                for _ in range(ln):
                    w.append(self.alpha[idx % n])
                    idx //= n
                return "".join(reversed(w))
            idx -= p
            p *= n
        raise IndexError

    def desc(self):
        return {"words": self.alpha, "L": self.L}


class Product:
    """field-wise product: every combination of one choice per field, concatenated"""

    def __init__(self, fields):
        self.fields = fields
        self.size = 1
        for f in fields:
            self.size *= len(f)

    def get(self, idx):
        out = []
        for f in reversed(self.fields):
            out.append(f[idx % len(f)])
            idx //= len(f)
        return "".join(reversed(out))

    def desc(self):
        return {"product": [len(f) for f in self.fields]}


class Listed:
    def __init__(self, items):
        self.items = list(items)
        self.size = len(self.items)

    def get(self, idx):
        return self.items[idx]

    def desc(self):
        return {"listed": self.size}


class Concat:
    def __init__(self, *es):
        self.es = es
        self.size = sum(e.size for e in es)

    def get(self, idx):
        for e in self.es:
            if idx < e.size:
                return e.get(idx)
            idx -= e.size
        raise IndexError

    def desc(self):
        return {"concat": [e.desc() for e in self.es]}


# ================================================================================================ space definitions
def B(n):
    return {"b": n}


def R(base, *facets):
    return {"r": base, "f": [list(f) for f in facets]}


NAME_ALPHA = ["a", "1", ":", "-", ".", "_", " ", "é", "·"]
INT_MAGS = [0, 1, 2, 127, 128, 129, 255, 256, 32767, 32768, 32769, 65535, 65536, 2147483647, 2147483648, 2147483649, 4294967295, 4294967296,
            9223372036854775807, 9223372036854775808, 9223372036854775809, 18446744073709551615, 18446744073709551616, 10 ** 30]

DT_YEAR = ["-0001", "0000", "0001", "1900", "1999", "2000", "2004", "9999", "10000", "012345", "99"]
DT_MONTH = ["00", "01", "02", "12", "13", "1"]
DT_DAY = ["00", "01", "28", "29", "30", "31", "32"]
DT_HOUR = ["00", "23", "24"]
DT_MIN = ["00", "59", "60"]
DT_SEC = ["00", "59", "60", "59.999", "00.0", "00."]
DT_ZONE = ["", "Z", "+00:00", "-14:00", "+14:00", "+14:01", "14:00", "-00:01", "z"]


def lex_space(tier):
    """(tdefs, [(tid, enumeration)]) - every built-in type with its lexical alphabet / field products"""
    q = tier == "quick"
    tdefs = []
    enums = []

    def add(name, *es):
        tdefs.append(B(name))
        for e in es:
            enums.append((len(tdefs) - 1, e))

    add("string", Words(["a", " ", "\t", "\n", "\U00010000"], 4 if q else 6))
    add("normalizedString", Words(["a", " ", "\t", "\n", "\r"], 4 if q else 6))
    add("token", Words(["a", " ", "\t", "\n", "\r"], 4 if q else 6))
    add("language", Words(["a", "1", "-", " ", "abcdefgh", "Z"], 4 if q else 6))
    for n in ("NMTOKEN", "Name", "NCName", "ID", "IDREF", "ENTITY", "NMTOKENS", "IDREFS", "ENTITIES"):
        add(n, Words(NAME_ALPHA, 3 if q else (5 if n in ("NMTOKEN", "Name", "NCName", "NMTOKENS") else 4)))
    add("QName", Words(["a", "1", ":", "-", "p", "q", " "], 4 if q else 6))
    add("NOTATION", Words(["a", "1", ":", "-", "p", " "], 3 if q else 5))
    add("anyURI", Words(["a", ":", "/", "#", "%", "?", "2", " "], 4 if q else 5))
    add("boolean", Words(["true", "false", "1", "0", "T", "t", " ", "\t"], 3 if q else 5))
    add("decimal", Words(["+", "-", "0", "1", "9", ".", " "], 5 if q else 6))
    for n in O.INTEGER_TYPES:
        add(n, Words(["+", "-", "0", "1", "9", " "], (5 if n == "integer" else 3) if q else (6 if n == "integer" else 5)),
            Product([["", "+", "-"], ["", "0", "00"], [str(m) for m in INT_MAGS], ["", ".", ".0"]]))
    for n in ("float", "double"):
        add(n, Words(["+", "-", "0", "1", ".", "E", "e", "INF", "NaN", " "], 4 if q else 5),
            Product([["", "+", "-"], ["1", "9.99", "1.7976931348623157", "3.4028235", "4.9", "1.4", "0", ".5", "5."], ["E", "e"], ["", "+", "-"],
                     ["0", "1", "38", "39", "45", "46", "308", "309", "324", "325", "400", "0038"]]))
    add("duration", Words(["-", "P", "T", "1", "0", "Y", "M", "D", "H", "S", "."], 4 if q else 5),
        Product([["", "-"], ["P"], ["", "1Y", "0Y", "Y"], ["", "2M", "13M"], ["", "3D", "400D"], ["", "T"], ["", "4H", "25H"], ["", "5M", "61M"],
                 ["", "6S", "6.5S", "6.S", ".5S", "60S", "6.50S"]]))
    if q:
        add("dateTime", Product([["-0001", "0000", "2000", "1900", "10000", "012345"], ["-"], ["02", "12", "13"], ["-"], ["00", "28", "29", "30", "31"], ["T"],
                                 DT_HOUR, [":"], ["00", "60"], [":"], ["00", "60", "59.999", "00."], ["", "Z", "-14:00", "+14:01", "14:00"]]))
    else:
        add("dateTime", Product([DT_YEAR, ["-"], DT_MONTH, ["-"], DT_DAY, ["T"], DT_HOUR, [":"], DT_MIN, [":"], DT_SEC, DT_ZONE]))
    tdefs_dt = len(tdefs) - 1
    enums.append((tdefs_dt, Words(["2000", "-", "02", "29", "T", ":", "00", "Z", "+14:00", ".5"], 4 if q else 5)))
    add("time", Product([["00", "12", "23", "24", "25", "1"], [":"], DT_MIN + ["0"], [":"], DT_SEC, DT_ZONE]),
        Words(["12", ":", "00", "Z", "+01:00", ".5", "-"], 4 if q else 6))
    add("date", Product([DT_YEAR, ["-"], DT_MONTH, ["-"], DT_DAY, DT_ZONE]), Words(["2000", "-", "02", "29", "Z", "+14:00", "T"], 4 if q else 6))
    add("gYearMonth", Product([DT_YEAR, ["-"], DT_MONTH, DT_ZONE]), Words(["2000", "-", "02", "Z", "+14:00", "1"], 4 if q else 6))
    add("gYear", Product([DT_YEAR, DT_ZONE]), Words(["2000", "-", "0", "Z", "+14:00", "1"], 4 if q else 6))
    add("gMonthDay", Product([["--", "-", ""], DT_MONTH, ["-", ""], DT_DAY, DT_ZONE]), Words(["-", "02", "29", "30", "Z", "+14:00"], 4 if q else 6))
    add("gDay", Product([["---", "--", ""], DT_DAY + ["1"], DT_ZONE]), Words(["-", "31", "32", "1", "Z", "+14:00"], 4 if q else 6))
    add("gMonth", Product([["--", "-", ""], DT_MONTH, ["", "--", "-"], DT_ZONE]), Words(["-", "12", "13", "1", "Z", "+14:00"], 4 if q else 6))
    add("hexBinary", Words(["0", "a", "F", "g", " "], 5 if q else 7))
    add("base64Binary", Words(["A", "Q", "B", "=", " ", "/"], 5 if q else 7))
    return tdefs, enums


def facet_space(tier):
    """derived types: every single facet and pairs of facets at boundary values on a representative base of each family,
    restriction chains, lists and unions"""
    q = tier == "quick"
    tdefs = []
    enums = []

    def add(tdef, e):
        tdefs.append(tdef)
        enums.append((len(tdefs) - 1, e))

    # ---- string-like: length facets / pattern / enumeration / whiteSpace
    sw = Words(["a", "b", " ", "\t", "\U00010000"], 3 if q else 4)
    for base in ("string", "token", "normalizedString"):
        for n in (0, 1, 2):
            add(R(B(base), ("length", str(n))), sw)
            add(R(B(base), ("minLength", str(n))), sw)
            add(R(B(base), ("maxLength", str(n))), sw)
        for lo, hi in ((0, 1), (1, 1), (1, 2), (2, 3)):
            add(R(B(base), ("minLength", str(lo)), ("maxLength", str(hi))), sw)
        add(R(B(base), ("pattern", "a*")), sw)
        add(R(B(base), ("pattern", "[ab]{2}")), sw)
        add(R(B(base), ("pattern", "a|b b")), sw)
        add(R(B(base), ("pattern", "a+"), ("pattern", "b")), sw)                       # two patterns in one step: OR
        add(R(R(B(base), ("pattern", "[ab]*")), ("pattern", ".a.?")), sw)              # two steps: AND
        add(R(B(base), ("enumeration", "a"), ("enumeration", "b b")), sw)
        add(R(B(base), ("enumeration", "a"), ("minLength", "1")), sw)
        add(R(B(base), ("pattern", "a.*"), ("maxLength", "2")), sw)
        add(R(R(B(base), ("minLength", "1")), ("maxLength", "2")), sw)
        # a length fixed in an earlier step stays in force when a later step adds minLength / maxLength (allowed by E2-35)
        add(R(R(B(base), ("length", "2")), ("maxLength", "3")), sw)
        add(R(R(B(base), ("length", "2")), ("minLength", "1")), sw)
        add(R(R(B(base), ("length", "1")), ("minLength", "0"), ("maxLength", "3")), sw)
        add(R(R(R(B(base), ("length", "2")), ("maxLength", "3")), ("pattern", "[ab ]*")), sw)
        add(R(R(R(B(base), ("minLength", "1")), ("length", "2")), ("maxLength", "2")), sw)
    add(R(B("string"), ("whiteSpace", "replace")), sw)
    add(R(B("string"), ("whiteSpace", "collapse")), sw)
    add(R(B("string"), ("whiteSpace", "collapse"), ("length", "1")), sw)
    add(R(B("string"), ("whiteSpace", "replace"), ("length", "2")), sw)
    add(R(B("normalizedString"), ("whiteSpace", "collapse"), ("enumeration", "a b")), sw)
    add(R(R(B("string"), ("whiteSpace", "replace")), ("whiteSpace", "collapse"), ("maxLength", "1")), sw)
    nw = Words(["a", "-", "1", " "], 3 if q else 4)
    for base in ("NMTOKEN", "NCName", "language", "Name"):
        add(R(B(base), ("length", "2")), nw)
        add(R(B(base), ("minLength", "2"), ("maxLength", "3")), nw)
        add(R(B(base), ("pattern", "a.*")), nw)
        add(R(B(base), ("enumeration", "a"), ("enumeration", "a-1")), nw)
    uw = Words(["a", ":", "/", " ", "#"], 3 if q else 4)
    add(R(B("anyURI"), ("length", "2")), uw)
    add(R(B("anyURI"), ("minLength", "1"), ("maxLength", "2")), uw)
    add(R(B("anyURI"), ("enumeration", "a:a"), ("enumeration", "a a")), uw)
    add(R(B("anyURI"), ("pattern", "a.*")), uw)
    qw = Words(["a", "p", ":", "b", " "], 3 if q else 4)
    add(R(B("QName"), ("enumeration", "p:a"), ("enumeration", "b")), qw)
    add(R(B("QName"), ("pattern", "p:.*")), qw)
    add(R(B("NOTATION"), ("enumeration", "n1")), Listed(["n1", "n2", " n1 ", "p:n1", "", "n1 n1"]))
    bw = Words(["true", "false", "1", "0", " "], 2)
    add(R(B("boolean"), ("pattern", "true|false")), bw)
    add(R(B("boolean"), ("pattern", "[01]")), bw)
    add(R(B("boolean"), ("whiteSpace", "collapse")), bw)
    # ---- binary
    hw = Words(["0a", "FF", "0", " ", "00"], 3 if q else 4)
    for n in (0, 1, 2):
        add(R(B("hexBinary"), ("length", str(n))), hw)
        add(R(B("hexBinary"), ("minLength", str(n))), hw)
        add(R(B("hexBinary"), ("maxLength", str(n))), hw)
    add(R(B("hexBinary"), ("minLength", "1"), ("maxLength", "2")), hw)
    add(R(R(B("hexBinary"), ("length", "1")), ("maxLength", "2")), hw)
    add(R(R(B("hexBinary"), ("length", "2")), ("minLength", "1")), hw)
    add(R(R(B("hexBinary"), ("length", "1")), ("minLength", "0"), ("maxLength", "3")), hw)
    add(R(B("hexBinary"), ("enumeration", "0a"), ("enumeration", "FF00")), hw)
    add(R(B("hexBinary"), ("pattern", "[0-9A-F]*")), hw)
    b64w = Words(["AA==", "AAA=", "AAAA", "A A A A", "QQ==", " ", "="], 3)
    for n in (0, 1, 2, 3, 4):
        add(R(B("base64Binary"), ("length", str(n))), b64w)
        add(R(B("base64Binary"), ("minLength", str(n))), b64w)
        add(R(B("base64Binary"), ("maxLength", str(n))), b64w)
    add(R(B("base64Binary"), ("minLength", "2"), ("maxLength", "3")), b64w)
    add(R(R(B("base64Binary"), ("length", "2")), ("maxLength", "3")), b64w)
    add(R(R(B("base64Binary"), ("length", "3")), ("minLength", "1")), b64w)
    add(R(B("base64Binary"), ("enumeration", "AA=="), ("enumeration", "AAAAQQ==")), b64w)
    # ---- decimal / integer
    dextra = Listed(["1.50", "0.50", "-0.5", "-1.5", "10.0", "15.0", "9.99", "0.05", "-5.0", "100", "-10", "1.55", "99.9", "0.10", "-0.0", "+1.5", "+10", "01.5", "1.500", "-19", "19.0",
                     "255", "256", "-128", "-129", "127", "128", " 5 ", "1 5", ""])
    dw = Concat(Words(["-", "0", "1", "5", "9", "."], 3 if q else 4), dextra)
    dw5 = dw if q else Concat(Words(["-", "0", "1", "5", "9", "."], 5), dextra)
    for base in ("decimal", "integer"):
        for t in (1, 2, 3):
            add(R(B(base), ("totalDigits", str(t))), dw5)
        for f in ((0, 1, 2) if base == "decimal" else (0,)):
            add(R(B(base), ("fractionDigits", str(f))), dw5)
        for t, f in ((1, 0), (1, 1), (2, 1), (3, 2), (2, 2)):
            if base == "decimal" or f == 0:
                add(R(B(base), ("totalDigits", str(t)), ("fractionDigits", str(f))), dw5)
        bounds = ["-1", "0", "1.5", "10", "-0.5"] if base == "decimal" else ["-1", "0", "1", "10", "-5"]
        for b in bounds:
            for k in ("minInclusive", "minExclusive", "maxInclusive", "maxExclusive"):
                add(R(B(base), (k, b)), dw)
        vals = [Fraction(b) for b in bounds]
        for lo in bounds:
            for hi in bounds:
                fl, fh = Fraction(lo), Fraction(hi)
                if fl <= fh:
                    add(R(B(base), ("minInclusive", lo), ("maxInclusive", hi)), dw)
                    add(R(B(base), ("minExclusive", lo), ("maxExclusive", hi)), dw)
                if fl < fh:
                    add(R(B(base), ("minExclusive", lo), ("maxInclusive", hi)), dw)
                    add(R(B(base), ("minInclusive", lo), ("maxExclusive", hi)), dw)
        add(R(B(base), ("enumeration", "1"), ("enumeration", "-5")), dw)
        add(R(B(base), ("pattern", "[0-9]+")), dw)
        add(R(B(base), ("pattern", "-?[0-9]"), ("totalDigits", "2")), dw)
        add(R(B(base), ("totalDigits", "2"), ("minExclusive", "0")), dw)
        add(R(B(base), ("totalDigits", "2"), ("maxInclusive", "15")), dw)
        add(R(R(R(B(base), ("minInclusive", "0")), ("maxExclusive", "10")), ("totalDigits", "1")), dw)          # three-step chain
        add(R(R(B(base), ("minInclusive", "-5"), ("maxInclusive", "15")), ("minInclusive", "0"), ("maxInclusive", "9")), dw)
        add(R(R(B(base), ("enumeration", "1"), ("enumeration", "5"), ("enumeration", "9")), ("enumeration", "5")), dw)
    add(R(B("decimal"), ("enumeration", "1.0"), ("enumeration", "0.50")), dw)
    add(R(B("decimal"), ("fractionDigits", "1"), ("maxExclusive", "1.5")), dw)
    for base, lo, hi in (("byte", "-128", "127"), ("unsignedByte", "0", "255"), ("short", "-1", "1"), ("positiveInteger", "1", "19"), ("nonPositiveInteger", "-19", "0"),
                         ("int", "-15", "15"), ("long", "0", "0"), ("unsignedLong", "5", "5")):
        add(R(B(base), ("minInclusive", lo), ("maxInclusive", hi)), dw)
        add(R(B(base), ("totalDigits", "1")), dw)
        add(R(B(base), ("maxExclusive", hi)), dw)
    # ---- float / double
    fvals = ["-INF", "-1e39", "-2", "-1.5", "-1", "-0", "0", "0.0", "1", "1.0", "1.5", "1.50", "15E-1", "2", "1e39", "INF", "NaN", "1e-46", "", " 1 ", "+INF", "1e400"]
    fw = Listed(fvals)
    for base in ("float", "double"):
        for b in ("-1", "0", "1.5", "INF", "-INF"):
            for k in ("minInclusive", "minExclusive", "maxInclusive", "maxExclusive"):
                add(R(B(base), (k, b)), fw)
        for lo, hi in (("-1", "1.5"), ("0", "0"), ("1.5", "INF"), ("-INF", "0"), ("-INF", "INF")):
            add(R(B(base), ("minInclusive", lo), ("maxInclusive", hi)), fw)
            add(R(B(base), ("minExclusive", lo), ("maxExclusive", hi)), fw)
        add(R(B(base), ("enumeration", "1.0"), ("enumeration", "INF"), ("enumeration", "NaN")), fw)
        add(R(B(base), ("enumeration", "15E-1")), fw)
        add(R(B(base), ("pattern", "[0-9.]+")), fw)
        add(R(R(B(base), ("minInclusive", "-1")), ("maxExclusive", "1.5")), fw)
    # ---- date/time family: bounds with and without time zone, enumeration with equal values in different lexical forms
    dts = {
        "dateTime": (["2000-01-01T12:00:00", "2000-01-01T12:00:00Z", "2000-01-01T13:00:00+01:00"],
                     ["2000-01-01T12:00:00", "2000-01-01T12:00:00.0", "2000-01-01T12:00:00Z", "2000-01-01T13:00:00+01:00", "2000-01-01T11:59:59", "2000-01-01T12:00:01",
                      "2000-01-01T11:59:59Z", "2000-01-01T12:00:01Z", "2000-01-02T02:00:00Z", "2000-01-02T02:00:01Z", "1999-12-31T22:00:00Z", "1999-12-31T21:59:59Z",
                      "2000-01-02T02:00:01", "1999-12-31T21:59:59", "2000-01-01T24:00:00", "2000-01-02T00:00:00", "1999-12-31T24:00:00", "2000-01-01T12:00:00.5", ""]),
        "date": (["2000-01-01", "2000-01-01Z", "2000-01-02+10:00"],
                 ["2000-01-01", "2000-01-01Z", "2000-01-01+00:00", "2000-01-02+10:00", "2000-01-01-14:00", "1999-12-31", "2000-01-02", "1999-12-31Z", "2000-01-02Z",
                  "2000-01-01+14:00", "2000-01-03", "1999-12-30", "2000-01-01+01:00", ""]),
        "time": (["12:00:00", "12:00:00Z", "13:00:00+01:00"],
                 ["12:00:00", "12:00:00.0", "12:00:00Z", "13:00:00+01:00", "11:59:59", "12:00:01", "11:59:59Z", "12:00:01Z", "12:00:00.5", "23:59:59", "00:00:00", ""]),
        "duration": (["P1M", "P30D", "PT1H"],
                     ["P1M", "P30D", "P31D", "P28D", "P27D", "P32D", "P29D", "PT1H", "PT60M", "PT3600S", "PT3600.0S", "PT59M", "PT61M", "P0D", "-P1D", "P1Y", "P12M", "PT0.5S", ""]),
        "gYearMonth": (["2000-01", "2000-01Z"], ["2000-01", "2000-01Z", "1999-12", "2000-02", "1999-12Z", "2000-02Z", "2000-01+14:00", "2000-01-14:00", ""]),
        "gYear": (["2000", "2000Z"], ["2000", "2000Z", "1999", "2001", "1999Z", "2001Z", "2000+14:00", "2000-14:00", "-0001", ""]),
        "gMonthDay": (["--06-15", "--06-15Z"], ["--06-15", "--06-15Z", "--06-14", "--06-16", "--06-14Z", "--06-16Z", "--06-15+14:00", "--06-15-14:00", "--02-29", ""]),
        "gDay": (["---15", "---15Z"], ["---15", "---15Z", "---14", "---16", "---14Z", "---16Z", "---15+14:00", "---15-14:00", ""]),
        "gMonth": (["--06", "--06Z"], ["--06", "--06Z", "--05", "--07", "--05Z", "--07Z", "--06+14:00", "--06-14:00", ""]),
    }
    for base, (bnds, vals) in dts.items():
        vw = Listed(vals)
        for b in bnds:
            for k in ("minInclusive", "minExclusive", "maxInclusive", "maxExclusive"):
                add(R(B(base), (k, b)), vw)
        add(R(B(base), ("minInclusive", bnds[0]), ("maxInclusive", bnds[0])), vw)
        add(R(B(base), ("enumeration", bnds[0]), ("enumeration", bnds[-1])), vw)
        add(R(B(base), ("pattern", "[^Z]*")), vw)
        add(R(R(B(base), ("minInclusive", bnds[0])), ("maxInclusive", bnds[0])), vw)
    # ---- lists and unions
    lw = Words(["1", "01", "a", "true", " ", "  ", "-1"], 3 if q else 4)
    L_int = {"l": B("int")}
    U_ib = {"u": [B("int"), B("boolean")]}
    U_3 = {"u": [B("int"), B("boolean"), B("NCName")]}
    L_u = {"l": U_ib}
    L_u3 = {"l": U_3}
    U_l = {"u": [{"l": B("int")}, {"l": B("boolean")}, {"l": B("NCName")}]}
    for t in (L_int, U_ib, U_3, L_u, L_u3, U_l, {"l": B("NMTOKEN")}, {"l": R(B("int"), ("maxInclusive", "1"))}, {"u": [R(B("int"), ("minInclusive", "0")), B("boolean")]}):
        add(t, lw)
    for base in (L_int, L_u, L_u3):
        for n in (0, 1, 2):
            add(R(base, ("length", str(n))), lw)
            add(R(base, ("minLength", str(n))), lw)
            add(R(base, ("maxLength", str(n))), lw)
        add(R(base, ("minLength", "1"), ("maxLength", "2")), lw)
        add(R(R(base, ("length", "2")), ("maxLength", "3")), lw)
        add(R(R(base, ("length", "1")), ("minLength", "0")), lw)
        add(R(R(base, ("length", "2")), ("minLength", "1"), ("maxLength", "3")), lw)
        add(R(base, ("enumeration", "1 1"), ("enumeration", "-1")), lw)
        add(R(base, ("pattern", "[0-9 ]*")), lw)
    add(R(U_ib, ("enumeration", "1"), ("enumeration", "true")), lw)
    add(R(U_3, ("enumeration", "01"), ("enumeration", "a")), lw)
    add(R(U_l, ("enumeration", "1 1"), ("enumeration", "true 1"), ("enumeration", "a")), lw)
    add({"l": R(B("decimal"), ("totalDigits", "1"))}, Words(["1", "1.0", "10", "0.1", " ", "01.0"], 3))
    add({"u": [{"l": B("int")}, B("token")]}, lw)
    return tdefs, enums


# ---- order space value sets
ORDER_SETS = {
    "decimal": ["0", "-0", "+0.0", "0.00", "1", "1.0", "01", "+1.", ".5", "0.5", "0.50", "-0.5", "-.5", "-1", "-1.0", "2", "10", "9.99", "9.990", "-10", "100", "1.5", "1.50",
                "001.5", "-1.5", "0.1", "0.10", "0.01", "99", "99.0", "99.9", "100.0", "123456789012345678901234567890", "123456789012345678901234567890.0",
                "123456789012345678901234567891", "-123456789012345678901234567890", "0.000000000000000000000000000001", "0.0000000000000000000000000000010",
                "0.000000000000000000000000000002", "18446744073709551615", "18446744073709551616", "9223372036854775807", "9223372036854775808", "-9223372036854775808",
                "-9223372036854775809", "4294967296", "4294967295.999", "1.0000000000000000000000000001", "0.99999999999999999999", "3", "-3", "-2", "2.0"],
    "integer": ["0", "-0", "+0", "00", "1", "+1", "01", "-1", "-01", "2", "10", "010", "-10", "99", "100", "127", "128", "-128", "-129", "255", "256", "32767", "32768", "65535",
                "65536", "2147483647", "2147483648", "-2147483648", "-2147483649", "4294967295", "4294967296", "9223372036854775807", "9223372036854775808",
                "-9223372036854775808", "-9223372036854775809", "18446744073709551615", "18446744073709551616", "123456789012345678901234567890",
                "0123456789012345678901234567890", "123456789012345678901234567891", "-123456789012345678901234567890", "3", "-3", "5", "+5", "7", "-7", "1000", "999"],
    "float": ["0", "-0", "0.0E0", "1", "1.0", "1e0", "10E-1", "0.1E1", "-1", "-1.0E0", "1.5", "15e-1", "0.1", "1.0E-1", "0.100000001", "16777216", "16777217", "1.6777216E7",
              "16777218", "3.4028235E38", "3.4028234E38", "1e39", "INF", "-INF", "-1e39", "NaN", "1e-46", "1.4E-45", "1.1754944E-38", "2", "-2", "100", "1E2", "1e+2", "0.5", ".5",
              "5e-1", "-0.5", "1e38", "1E38", "123456789", "123456792", "123456790", "0.3", "0.30000001", "3", "-3", "1e-10", "1E-10", "4", "1e10", "10000000000"],
    "double": ["0", "-0", "0.0E0", "1", "1.0", "1e0", "10E-1", "0.1E1", "-1", "-1.0E0", "1.5", "15e-1", "0.1", "1.0E-1", "0.1000000000000000055511151231257827", "0.10000000000000001",
               "0.1000000000000001", "9007199254740992", "9007199254740993", "9.007199254740992E15", "9007199254740994", "1.7976931348623157E308", "1e308", "1e309", "INF", "-INF",
               "-1e309", "NaN", "1e-400", "4.9E-324", "2.2250738585072014E-308", "2", "-2", "100", "1E2", "0.5", ".5", "5e-1", "-0.5", "16777216", "16777217", "123456789",
               "0.3", "0.30000000000000004", "3", "-3", "1e-10", "1E-10", "4", "1e10", "10000000000"],
    "duration": ["P0D", "PT0S", "-P0D", "P0Y", "P1Y", "P12M", "P365D", "P366D", "P364D", "P367D", "P1M", "P30D", "P31D", "P28D", "P29D", "P27D", "P32D", "PT24H", "P1D", "PT1440M",
                 "PT86400S", "PT86400.0S", "P1DT0S", "-P1D", "-PT24H", "-P1M", "-P30D", "-P1Y", "P1Y1M", "P13M", "P1Y30D", "P1M1D", "PT0.5S", "PT0.50S", "PT0.6S", "PT1S", "PT1.0S",
                 "PT60S", "PT1M", "PT1M0.5S", "PT3600S", "PT1H", "P5M", "P150D", "P151D", "P152D", "P153D", "P149D", "P2M", "P59D", "P60D", "P61D", "P62D", "P58D", "-P31D", "-P28D",
                 "-P27D", "-P32D", "P1MT1S", "P30DT1S"],
    "dateTime": ["2000-01-01T12:00:00", "2000-01-01T12:00:00.0", "2000-01-01T12:00:00Z", "2000-01-01T13:00:00+01:00", "2000-01-01T11:00:00-01:00", "2000-01-01T12:00:00+00:00",
                 "2000-01-01T12:00:00-00:00", "2000-01-02T02:00:00Z", "2000-01-02T02:00:01Z", "2000-01-02T01:59:59Z", "1999-12-31T22:00:00Z", "1999-12-31T21:59:59Z",
                 "1999-12-31T22:00:01Z", "2000-01-01T24:00:00", "2000-01-02T00:00:00", "2000-01-01T24:00:00Z", "2000-01-02T00:00:00Z", "2000-01-01T23:59:59.999",
                 "2000-01-01T12:00:00.5", "2000-01-01T12:00:00.50", "2000-01-01T12:00:00.500Z", "2000-01-01T12:00:00.6", "1999-12-31T23:59:59", "2000-02-29T00:00:00",
                 "2000-03-01T00:00:00", "2000-02-28T24:00:00", "2000-02-29T24:00:00", "2000-02-29T12:00:00+14:00", "2000-02-28T22:00:00Z", "2001-01-01T00:00:00",
                 "2000-12-31T24:00:00", "10000-01-01T00:00:00", "9999-12-31T23:59:59", "9999-12-31T24:00:00", "0001-01-01T00:00:00", "0001-01-01T00:00:00Z", "0001-01-01T12:00:00+14:00",
                 "2000-01-01T00:00:00-14:00", "2000-01-01T14:00:00Z", "2000-01-01T14:00:00", "2000-01-01T00:00:00", "2000-01-01T00:00:00Z", "2000-01-01T13:59:59",
                 "2000-01-01T14:00:01", "1999-12-31T10:00:00", "1999-12-31T09:59:59", "1999-12-31T10:00:01", "2000-01-01T12:00:01", "2000-01-01T11:59:59", "2000-01-01T12:00:01Z",
                 "2000-01-01T11:59:59Z", "1900-02-28T24:00:00", "1900-03-01T00:00:00", "2004-02-29T23:59:59-14:00", "2004-03-01T13:59:59Z"],
    "time": ["12:00:00", "12:00:00.0", "12:00:00Z", "13:00:00+01:00", "11:00:00-01:00", "12:00:00+00:00", "12:00:00.5", "12:00:00.50", "12:00:00.5Z", "00:00:00", "00:00:00Z", "23:59:59",
             "23:59:59.999", "23:59:59Z", "01:00:00Z", "02:00:00+01:00", "12:00:01", "11:59:59", "11:59:59Z", "12:00:01Z", "22:00:00", "02:00:00", "02:00:01", "01:59:59", "21:59:59",
             "22:00:01", "14:00:00+14:00", "10:00:00-14:00", "00:00:00.001", "06:30:00", "06:30:00Z", "20:30:00+14:00"],
    "date": ["2000-01-01", "2000-01-01Z", "2000-01-01+00:00", "2000-01-01-00:00", "2000-01-01+14:00", "1999-12-31-10:00", "2000-01-01-14:00", "2000-01-02+10:00", "2000-01-02", "1999-12-31",
             "2000-02-29", "2000-03-01", "2000-01-01+01:00", "2000-01-02Z", "1999-12-31Z", "2000-01-03", "1999-12-30", "2000-01-01+12:00", "1999-12-31-12:00", "2000-01-01-12:00",
             "2000-01-02+12:00", "10000-01-01", "9999-12-31", "0001-01-01", "0001-01-01Z", "2000-02-28", "1900-02-28", "1900-03-01", "2000-01-02-14:00", "1999-12-31+14:00"],
    "gYearMonth": ["2000-01", "2000-01Z", "2000-01+00:00", "1999-12", "2000-02", "1999-12Z", "2000-02Z", "2000-01+14:00", "2000-01-14:00", "2000-01+01:00", "2000-12", "2001-01", "10000-01",
                   "0001-01", "2000-01-01:00"],
    "gYear": ["2000", "2000Z", "2000+00:00", "1999", "2001", "1999Z", "2001Z", "2000+14:00", "2000-14:00", "2000+01:00", "10000", "0001", "9999", "2000-01:00"],
    "gMonthDay": ["--06-15", "--06-15Z", "--06-15+00:00", "--06-14", "--06-16", "--06-14Z", "--06-16Z", "--06-15+14:00", "--06-15-14:00", "--02-29", "--03-01", "--02-28", "--12-31", "--01-01",
                  "--06-15+01:00"],
    "gDay": ["---15", "---15Z", "---15+00:00", "---14", "---16", "---14Z", "---16Z", "---15+14:00", "---15-14:00", "---01", "---31", "---15+01:00"],
    "gMonth": ["--06", "--06Z", "--06+00:00", "--05", "--07", "--05Z", "--07Z", "--06+14:00", "--06-14:00", "--01", "--12", "--06+01:00"],
}
EQUALITY_SETS = {   # unordered types: equality through DatatypeValidator::compare
    "boolean": ["true", "1", "false", "0"],
    "hexBinary": ["", "0a", "0A", "0a0A", "0A0a", "ff", "FF", "00"],
    "base64Binary": ["", "AA==", "A A = =", "AAA=", "AAAA", "A A A A", "AAAAAA==", "AAAA AA==", "QQ==", "QUE="],
    "string": ["a", "a ", " a", "A", ""],
    "token": ["a", "a b", "A"],
    "QName": ["a", "p:a", "q:a", "b"],
    "anyURI": ["a", "A", "a:a", "a%20a", "a a"],
    "NMTOKENS": ["a b", "a", "b a", "a b c"],
}
EQUALITY_DERIVED = [
    ({"l": B("decimal")}, ["1 2", "01 2.0", "1.0 +2", "2 1", "1", "1 2 3", "1.0", "+1"]),
    ({"l": B("boolean")}, ["true 0", "1 false", "1 0", "0 1", "true"]),
    ({"u": [B("int"), B("boolean")]}, ["1", "01", "+1", "true", "false", "0", "00"]),
    ({"l": {"u": [B("int"), B("NCName")]}}, ["1 a", "01 a", "a 1", "a a", "a"]),
]


def order_space(tier):
    """ordered types: (i) DatatypeValidator::compare over all ordered pairs of the value set, (ii) the order as validation sees it: for every
    value v of the set four derived types {min,max}{In,Ex}clusive=v, every value w validated against each"""
    tdefs = []
    enums = []
    pairs = []   # (tid, a, b)
    for name, vals in ORDER_SETS.items():
        tdefs.append(B(name))
        base = len(tdefs) - 1
        for a in vals:
            for b in vals:
                pairs.append((base, a, b))
        # quick tier: the facet-observed order uses every other value of the set (compare() above still sees all pairs)
        fvals = vals if tier != "quick" else vals[::2]
        vw = Listed(fvals)
        for v in fvals:
            for k in ("minInclusive", "minExclusive", "maxInclusive", "maxExclusive"):
                tdefs.append(R(B(name), (k, v)))
                enums.append((len(tdefs) - 1, vw))
    for name, vals in EQUALITY_SETS.items():
        tdefs.append(B(name))
        for a in vals:
            for b in vals:
                pairs.append((len(tdefs) - 1, a, b))
    for tdef, vals in EQUALITY_DERIVED:
        tdefs.append(tdef)
        for a in vals:
            for b in vals:
                pairs.append((len(tdefs) - 1, a, b))
    return tdefs, enums, pairs


# ================================================================================================ driver plumbing
def esc(s):
    out = []
    for ch in s:
        o = ord(ch)
        if 0x20 < o < 0x7f and ch != "\\":
            out.append(ch)
        elif o >= 0x10000:
            o -= 0x10000
            out.append("\\u%04X\\u%04X" % (0xD800 + (o >> 10), 0xDC00 + (o & 0x3FF)))
        else:
            out.append("\\u%04X" % o)
    return "".join(out)


def unesc(s):
    if "\\" not in s:
        return s
    out = []
    i = 0
    units = []
    while i < len(s):
        if s[i] == "\\" and s[i + 1:i + 2] == "u":
            units.append(int(s[i + 2:i + 6], 16))
            i += 6
        else:
            units.append(ord(s[i]))
            i += 1
    j = 0
    while j < len(units):
        u = units[j]
        if 0xD800 <= u < 0xDC00 and j + 1 < len(units) and 0xDC00 <= units[j + 1] < 0xE000:
            out.append(chr(0x10000 + ((u - 0xD800) << 10) + (units[j + 1] - 0xDC00)))
            j += 2
        else:
            out.append(chr(u))
            j += 1
    return "".join(out)


class Drv:
    """persistent batch driver (c09_dtv --serve): the schema is loaded once per worker; every batch is a case file in, a result file out.
    A crash (sanitizer abort, signal) is attributed to the first case without a complete result line; that case gets the pseudo result
    'X\t<json log>' and a fresh driver process continues behind it."""

    def __init__(self, exe, env, schema, types, workdir, tag):
        self.exe, self.env, self.schema, self.types, self.workdir, self.tag = exe, env, schema, types, workdir, tag
        self.p = None
        self.diags = []
        self.failed_schema = False
        self.start()

    def start(self):
        diag = os.path.join(self.workdir, self.tag + ".diag")
        self.errp = os.path.join(self.workdir, self.tag + ".err")
        for attempt in range(60):
            if os.path.exists(diag):
                os.unlink(diag)
            ef = open(self.errp, "w")
            self.p = subprocess.Popen([self.exe, "--serve", "--schema", self.schema, "--types", self.types, "--out", diag], env=self.env, stdin=subprocess.PIPE,
                                      stdout=subprocess.PIPE, stderr=ef, text=True)
            ef.close()
            line = self.p.stdout.readline()
            self.diags = [ln for ln in open(diag).read().split("\n") if ln.startswith("S\t")] if os.path.exists(diag) else []
            if line.strip() == "READY":
                return
            rc = self.p.wait()
            log = open(self.errp).read()[:1500]
            if rc == 4:
                self.failed_schema = True
                return
            if rc in (126, 127) or "error while loading shared libraries" in log:
                # the library flavor is being relinked by a concurrent `xv build` (other checks share build/asan): wait for it
                time.sleep(5)
                build.ensure_lib("asan", quiet=True)
                continue
            raise RuntimeError("driver does not start (rc=%s): %s" % (rc, log))
        raise RuntimeError("driver cannot be started")

    def close(self):
        if self.p and self.p.poll() is None:
            try:
                self.p.stdin.close()
                self.p.wait(timeout=30)
            except Exception:
                self.p.kill()
        for fn in (self.tag + ".diag", self.tag + ".err"):
            fp = os.path.join(self.workdir, fn)
            if os.path.exists(fp) and not os.environ.get("XV_KEEP"):
                os.unlink(fp)

    def run(self, lines, tag, crashes, guards=True):
        if self.failed_schema:
            return self.diags, None
        inp = os.path.join(self.workdir, tag + ".in")
        outp = os.path.join(self.workdir, tag + ".out")
        with open(inp, "w") as f:
            f.write("\n".join(lines))
            f.write("\n")
        if os.path.exists(outp):
            os.unlink(outp)
        skip = 0
        guard = 0
        res = []
        while True:
            resp = ""
            try:
                self.p.stdin.write("RUN\t%s\t%s\t%d\t%d\n" % (inp, outp, skip, 1 if guards else 0))
                self.p.stdin.flush()
                resp = self.p.stdout.readline().strip()
            except (BrokenPipeError, OSError):
                resp = ""
            data = open(outp).read() if os.path.exists(outp) else ""
            res = data.split("\n")
            res.pop()           # text after the last newline: empty, or the partial line of a dying process
            if resp == "DONE" and len(res) == len(lines):
                break
            guard += 1
            rc = self.p.wait() if resp == "" else None
            log = open(self.errp).read()[:1500]
            idx = len(res)
            if resp != "" or idx >= len(lines) or guard > 300:
                raise RuntimeError("driver failed without a pending case (resp=%r rc=%s, %d/%d results): %s" % (resp, rc, len(res), len(lines), log))
            if rc in (126, 127) or "error while loading shared libraries" in log:
                self.start()
                continue
            crashes.append((idx, log))
            res.append("X\t" + json.dumps(log))
            with open(outp, "w") as f:
                f.write("".join(ln + "\n" for ln in res))
            skip = idx + 1
            self.start()
            if skip >= len(lines):
                break
        for fp in (inp, outp):
            if os.path.exists(fp) and not os.environ.get("XV_KEEP"):
                os.unlink(fp)
        return self.diags, res


# ================================================================================================ comparison
ST_FOCA0002, ST_FOCA0001, ST_FOCA0003 = 6, 7, 8
I64 = (-2 ** 63, 2 ** 63 - 1)
U64 = (0, 2 ** 64 - 1)
XS_INT_LIMITS = {"integer": I64, "nonPositiveInteger": I64, "negativeInteger": I64, "long": I64, "nonNegativeInteger": U64, "positiveInteger": U64, "unsignedLong": U64}
DBL_MAX = (2 ** 53 - 1) * Fraction(2) ** 971
DBL_MIN_SUB = Fraction(2) ** -1074


# ================================================================================================ listed library defects
DT8 = ("dateTime", "time", "date", "gYearMonth", "gYear", "gMonthDay", "gDay", "gMonth")
STRS = ("string", "normalizedString", "token", "language", "NMTOKEN", "Name", "NCName", "ID", "IDREF", "ENTITY", "anyURI")
QENUM = {"r": {"b": "QName"}, "f": [["enumeration", "p:a"], ["enumeration", "b"]]}


def _inv(f):
    return f[1] != "1"


# id, what fails / where, witness (op, tdef, args), strict expectation on the driver's answer fields, expected (text), model scope
# (built-ins whose verdicts / comparisons the defect's alternative model in c09_oracle.VARIANTS can change; None: predicate only)
DEFECTS = [
    dict(id="decimal-bare-point-accepted", where="util/XMLBigDecimal.cpp parseDecimal", what="decimal literal without any digit ('.', '+.', '-.') accepted",
         w=("V", B("decimal"), ["."]), ok=_inv, expected="invalid", scope=("decimal",)),
    dict(id="float-bare-point-accepted", where="util/XMLAbstractDoubleFloat.cpp init/convert", what="float/double literal without any digit ('.', '+.', '-.') accepted",
         w=("V", B("double"), ["-."]), ok=_inv, expected="invalid", scope=("float", "double")),
    dict(id="time-fraction-point-without-digits", where="util/XMLDateTime.cpp getTime", what="dateTime/time: '.' without fraction digits accepted when a time zone follows (00:00:00.Z)",
         w=("V", B("time"), ["00:00:00.Z"]), ok=_inv, expected="invalid", scope=("dateTime", "time")),
    dict(id="duration-designator-without-number", where="util/XMLDateTime.cpp parseDuration/parseInt", what="duration designator without a number accepted (PY, PM, PTH)",
         w=("V", B("duration"), ["PY"]), ok=_inv, expected="invalid", scope=("duration",)),
    dict(id="duration-seconds-without-integer-digits", where="util/XMLDateTime.cpp parseDuration", what="duration seconds without integer digits accepted (PT.5S; E2-23 requires [0-9]+(\\.[0-9]+)?)",
         w=("V", B("duration"), ["PT.5S"]), ok=_inv, expected="invalid", scope=("duration",)),
    dict(id="datetime-hour24-not-next-day", where="util/XMLDateTime.cpp normalize / getDateTimeCanonicalRepresentation / compareOrder",
         what="dateTime ...T24:00:00 (no or Z time zone) is not the first instant of the next day: canonical form keeps the date, compare/bounds order it before the next day's 00:00:00",
         w=("V", B("dateTime"), ["2000-01-01T24:00:00"]), ok=lambda f: f[2] == "2000-01-02T00:00:00", expected="canonical 2000-01-02T00:00:00", scope=("dateTime",)),
    dict(id="datetime-canonical-year-zero", where="util/XMLDateTime.cpp normalize (no year 0000 in XSD 1.0)", what="time-zone normalisation across year 1 yields canonical year 0000, which is not a valid literal",
         w=("V", B("dateTime"), ["0001-01-01T00:00:00+14:00"]), ok=lambda f: f[2] == "-0001-12-31T10:00:00Z", expected="canonical -0001-12-31T10:00:00Z", scope=None),
    dict(id="tz-14h-boundary-not-indeterminate", where="util/XMLDateTime.cpp compare/getRetVal", what="timezoned vs non-timezoned value exactly 14:00 apart compares EQUAL / GREATER instead of indeterminate "
         "(enumeration, bounds, compare on all date/time types)",
         w=("C", B("dateTime"), ["2000-01-01T12:00:00", "1999-12-31T22:00:00Z"]), ok=lambda f: f[1] not in ("0",), expected="compare != 0", scope=DT8),
    dict(id="inclusive-bounds-accept-indeterminate", where="validators/datatype/AbstractNumericValidator.cpp boundsCheck", what="minInclusive/maxInclusive accept values whose comparison with the bound is "
         "indeterminate (NaN on float/double, P30D vs P1M, timezoned vs non-timezoned)",
         w=("V", R(B("float"), ("minInclusive", "0")), ["NaN"]), ok=_inv, expected="invalid", scope=("float", "double", "duration") + DT8),
    dict(id="duration-compare-ignores-fraction", where="util/XMLDateTime.cpp compare(duration)/addDuration", what="duration comparison ignores fractional seconds (PT0.5S equals PT0.6S and P0D)",
         w=("C", B("duration"), ["PT0.5S", "PT0.6S"]), ok=lambda f: f[1] == "-1", expected="compare == -1", scope=("duration",)),
    dict(id="negative-duration-compare-equal", where="util/XMLDateTime.cpp compare(duration) -> compareOrder -> normalize (UTC_NEG sign marker treated as a time zone)",
         what="negative durations are 'normalised' like timezoned dates before the field comparison: -P1M compares EQUAL to -P30D (P1M vs P30D is indeterminate)",
         w=("C", B("duration"), ["-P1M", "-P30D"]), ok=lambda f: f[1] != "0", expected="compare != 0", scope=None),
    dict(id="float-compared-in-double-precision", where="util/XMLFloat.cpp checkBoundary / XMLAbstractDoubleFloat::compareValues", what="xs:float values compared in double precision (0.1 != 0.100000001, "
         "16777216 != 16777217)", w=("C", B("float"), ["0.1", "0.100000001"]), ok=lambda f: f[1] == "0", expected="compare == 0", scope=("float",)),
    dict(id="hexbinary-compare-lexical", where="validators/datatype/HexBinaryDatatypeValidator (no compare override)", what="hexBinary compare is lexical (0a != 0A)",
         w=("C", B("hexBinary"), ["0a", "0A"]), ok=lambda f: f[1] == "0", expected="compare == 0", scope=None),
    dict(id="base64binary-compare-lexical", where="validators/datatype/Base64BinaryDatatypeValidator (no compare override)", what="base64Binary compare is lexical ('AA==' != 'A A = =')",
         w=("C", B("base64Binary"), ["AA==", "A A = ="]), ok=lambda f: f[1] == "0", expected="compare == 0", scope=None),
    dict(id="hexbinary-canonical-unchanged", where="validators/datatype/HexBinaryDatatypeValidator (no getCanonicalRepresentation override)", what="validator's canonical form of hexBinary is the literal itself (0a)",
         w=("V", B("hexBinary"), ["0a"]), ok=lambda f: f[2] == "0A", expected="canonical 0A", scope=None),
    dict(id="base64binary-canonical-unchanged", where="validators/datatype/Base64BinaryDatatypeValidator (no getCanonicalRepresentation override)", what="validator's canonical form of base64Binary keeps the blanks",
         w=("V", B("base64Binary"), ["A A = ="]), ok=lambda f: f[2] == "AA==", expected="canonical AA==", scope=None),
    dict(id="union-compare-across-member-types", where="validators/datatype/UnionDatatypeValidator.cpp compare", what="inside a union, values of different member types compare equal (int 1 == boolean true): "
         "equality not transitive, enumerations on (lists of) unions accept wrong values",
         w=("C", {"u": [B("int"), B("boolean")]}, ["1", "true"]), ok=lambda f: f[1] != "0", expected="compare != 0", scope="union"),
    dict(id="qname-enumeration-unprefixed-entry", where="validators/datatype/QNameDatatypeValidator.cpp checkContent", what="QName enumeration: an unprefixed enumeration entry matches any instance value "
         "with the same local name (enumeration {p:a, b} accepts p:b), in-parse", w=("P", QENUM, ["p:b"]), ok=lambda f: f[1] == "0", expected="validation error", scope=None),
    dict(id="length-facets-count-utf16-units", where="validators/datatype/AbstractStringValidator.cpp getLength (XMLString::stringLen)", what="length/minLength/maxLength count UTF-16 code units, not characters",
         w=("V", R(B("string"), ("length", "1")), ["\U00010000"]), ok=lambda f: f[1] == "1", expected="valid", scope=STRS),
    dict(id="float-canonical-mantissa-leading-zero", where="util/XMLAbstractDoubleFloat.cpp getCanonicalRepresentation", what="float/double canonical form of .01 is 0.1E-1 (not canonical, not idempotent)",
         w=("V", B("float"), [".01"]), ok=lambda f: f[2] == "1.0E-2", expected="canonical 1.0E-2", scope=None),
    dict(id="xsvalue-special-float-actual-normal", where="framework/psvi/XSValue.cpp getActValNumerics", what="XSValue::getActualValue(INF|-INF|NaN) reports DoubleFloatType_Normal with value 0",
         w=("V", B("double"), ["INF"]), ok=lambda f: f[5].startswith("g:1:"), expected="f_doubleEnum = DoubleFloatType_PosINF", scope=None),
    dict(id="xsvalue-float-underflow-canonical-0", where="framework/psvi/XSValue.cpp getCanRepNumerics (XMLUni::fgPosZeroString)", what="XSValue canonical form of a float/double literal converted to zero "
         "(underflow) is '0', which is not the canonical zero 0.0E0 (and canonicalises to it)", w=("V", B("double"), ["1E-400"]), ok=lambda f: f[4] == "0.0E0", expected="XSValue canonical 0.0E0", scope=None),
    dict(id="xsvalue-string-rejects-non-bmp", where="framework/psvi/XSValue.cpp validateStrings", what="XSValue::validate(dt_string|normalizedString|token) rejects characters outside the BMP (surrogates tested singly)",
         w=("V", B("string"), ["\U00010000"]), ok=lambda f: f[3] == "1", expected="XSValue::validate true", scope=None),
    dict(id="xsvalue-unsigned-rejects-minus-zero", where="framework/psvi/XSValue.cpp getActualNumericValue", what="XSValue rejects -0 for unsignedInt/Short/Byte (validators accept); no actual value for "
         "nonNegativeInteger/unsignedLong -0 although validate() is true", w=("V", B("unsignedInt"), ["-0"]), ok=lambda f: f[3] == "1", expected="XSValue::validate true", scope=None),
    dict(id="xsvalue-notation-uri-local-form", where="framework/psvi/XSValue.cpp validateStrings / util/XMLString.cpp isValidNOTATION", what="XSValue dt_NOTATION expects URI:local instead of a QName "
         "(rejects p:a, accepts a:a:a)", w=("V", B("NOTATION"), ["p:a"]), ok=lambda f: f[3] == "1", expected="XSValue::validate true", scope=None),
    dict(id="xsvalue-anyuri-rejects-space", where="framework/psvi/XSValue.cpp validateStrings (XMLUri::isValidURI without escaping)", what="XSValue dt_anyURI rejects literals with a blank in the authority/path that "
         "the validator accepts ('// a')", w=("V", B("anyURI"), ["// a"]), ok=lambda f: f[3] == "1", expected="XSValue::validate true", scope=None),
]
DEFECT_BY_ID = {d["id"]: d for d in DEFECTS}
ACTIVE = set()         # ids whose witness fails on the library under test; only these may explain a mismatch
_TCACHE = {}


def run_witnesses(exe, env, workdir):
    """-> {id: (passed, observed result line)}; every witness is one strict assertion on one minimal case"""
    tdefs = [d["w"][1] for d in DEFECTS]
    xsd, _ = O.emit_schema(tdefs)
    sp, tp = os.path.join(workdir, "wit.xsd"), os.path.join(workdir, "wit.types")
    open(sp, "w", encoding="utf-8").write(xsd)
    open(tp, "w").write("".join("%d\t%s\n" % (i, t["b"] if "b" in t else "-") for i, t in enumerate(tdefs)))
    lines = []
    for i, d in enumerate(DEFECTS):
        op, tdef, args = d["w"]
        if op == "P":
            lines.append("P\t%d\tIG\t%s" % (i, "\t".join(esc(a) for a in args)))
        else:
            lines.append("%s\t%d\t%s" % (op, i, "\t".join(esc(O.ws_apply(Type(tdef).ws, a)) for a in args)))
    crashes = []
    drv = Drv(exe, env, sp, tp, workdir, "wit")
    diags, res = drv.run(lines, "wit0", crashes)
    drv.close()
    for fn in ("wit.xsd", "wit.types"):
        if not os.environ.get("XV_KEEP"):
            os.unlink(os.path.join(workdir, fn))
    out = {}
    for d, ln, r in zip(DEFECTS, lines, res or [""] * len(lines)):
        f = r.split("\t")
        try:
            passed = f[0] != "X" and bool(d["ok"](f))
        except Exception:
            passed = False
        out[d["id"]] = (passed, r, ln)
    return out


def _with(S, fn):
    old = O.VARIANTS
    O.VARIANTS = set(S)
    try:
        return fn()
    finally:
        O.VARIANTS = old


def _model_type(tdef, S):
    key = (json.dumps(tdef, sort_keys=True), frozenset(S))
    if key not in _TCACHE:
        if len(_TCACHE) > 20000:
            _TCACHE.clear()
        try:
            _TCACHE[key] = _with(S, lambda: Type(tdef))
        except Exception:
            _TCACHE[key] = None
    return _TCACHE[key]


def _scope_ok(d, tdef):
    sc = d["scope"]
    if sc is None:
        return False
    if sc == "union":
        return '"u"' in json.dumps(tdef)
    return uses_builtin(tdef, sc)


def _subsets(ids):
    ids = sorted(ids)
    for a in ids:
        yield (a,)
    for i, a in enumerate(ids):
        for b in ids[i + 1:]:
            yield (a, b)
    if len(ids) <= 6:
        for i, a in enumerate(ids):
            for j in range(i + 1, len(ids)):
                for k in range(j + 1, len(ids)):
                    yield (a, ids[j], ids[k])


def parse_expect(T, tdef, st, lex):
    """what in-parse validation must say, given the stand-alone verdict: ENTITY values need a declared unparsed entity, QName prefixes a binding"""
    if st == "V" and uses_builtin(tdef, ("ENTITY", "ENTITIES")):
        return "I", "entity"
    if st == "V" and T.variety == "atomic" and isinstance(T.prim, O.QNameT) and ":" in lex and lex.split(":")[0] != "p":
        return "I", "prefix"
    return st, None


def compare_expect(T, a, b):
    sa, va, _ = T.check(a)
    sb, vb, _ = T.check(b)
    if sa != "V" or sb != "V":
        return None
    if T.variety == "atomic" and T.prim.ordered:
        return T.vcmp(va, vb)
    return EQ if T.veq(va, vb) else IN


def compare_consistent(T, exp, r):
    if exp is None:
        return False
    if (exp == EQ) != (r == 0):
        return False
    if T.primitive_ordered():
        if exp == LT and r != -1:
            return False
        if exp == GT and r != 1:
            return False
    return True


_SIG2REL = {(True, True, False, False): GT, (False, True, True, False): EQ, (False, False, True, True): LT, (False, False, False, False): IN}


def model_sig(name, w, v, S, unknown=False):
    """the four verdicts (w > v, w >= v, w <= v, w < v) of the reference model with the defect models S; None when a verdict is not judged"""
    sig = []
    for k in ("minExclusive", "minInclusive", "maxInclusive", "maxExclusive"):
        T = _model_type(R(B(name), (k, v)), S)
        if T is None:
            return None
        st = _with(S, lambda: T.check(w)[0])
        if st == "U" and unknown:
            return None
        sig.append(st == "V")
    return tuple(sig)


def _xerces_hour24_canon(lex):
    T = Type(B("dateTime"))
    st, v, _ = T.check(lex.replace("T24:00:00", "T00:00:00"))
    return T.prim.canon(v, lex) if st == "V" else None


def _prim_name(tdef):
    while "r" in tdef:
        tdef = tdef["r"]
    return tdef.get("b")


def explain(kind, f):
    """-> ids of ACTIVE listed defects that *exactly* predict this mismatch (minimal set), or None.  Narrow by construction: either a
    predicate over (type, literal, observed) specific to one defect, or 'the reference model with this defect's alternative behaviour switched
    on (c09_oracle.VARIANTS) predicts precisely the observed answer'."""
    if not ACTIVE:
        return None
    tdef = f.get("tdef")
    prim = _prim_name(tdef) if tdef else None
    lex = f.get("lex")
    act = lambda i: i in ACTIVE
    # ---------------- predicate-only defects
    if kind.endswith(("-canon-form", "-canon-changes-value", "-canon-not-valid", "-canon-not-in-lexical-space", "-canon-not-idempotent")):
        c = f.get("observed") if kind.endswith("-canon-form") else f.get("canonical")
        if kind == "xsvalue-canon-not-idempotent" and prim in ("float", "double") and c == "0" and f.get("again") == "0.0E0" and act("xsvalue-float-underflow-canonical-0"):
            return ["xsvalue-float-underflow-canonical-0"]
        if prim == "dateTime" and lex and "T24:00:00" in lex and act("datetime-hour24-not-next-day") and not kind.endswith("idempotent") and c == _xerces_hour24_canon(lex):
            return ["datetime-hour24-not-next-day"]
        if prim in ("dateTime", "date") and isinstance(c, str) and c.startswith("0000-") and act("datetime-canonical-year-zero") and kind.endswith(("-canon-not-valid", "-canon-not-in-lexical-space")):
            return ["datetime-canonical-year-zero"]
        if kind == "dv-canon-form" and prim == "hexBinary" and c == lex and act("hexbinary-canonical-unchanged"):
            return ["hexbinary-canonical-unchanged"]
        if kind == "dv-canon-form" and prim == "base64Binary" and c == lex and act("base64binary-canonical-unchanged"):
            return ["base64binary-canonical-unchanged"]
        if prim in ("float", "double") and isinstance(c, str) and re.match(r"-?0\.[0-9]*[1-9][0-9]*E-?[0-9]+\Z", c) and act("float-canonical-mantissa-leading-zero") \
                and kind.endswith(("-canon-form", "-canon-not-idempotent")):
            return ["float-canonical-mantissa-leading-zero"]
        return None
    if kind == "xsvalue-actual" and prim in ("float", "double") and lex in ("INF", "-INF", "NaN") and str(f.get("observed")).endswith(":4:0") and act("xsvalue-special-float-actual-normal"):
        return ["xsvalue-special-float-actual-normal"]
    if kind == "xsvalue-verdict-differs-from-validator" and f.get("dv") == "1" and str(f.get("xsvalue")).startswith("0"):
        if prim in ("string", "normalizedString", "token") and any(ord(ch) > 0xFFFF for ch in lex) and act("xsvalue-string-rejects-non-bmp"):
            return ["xsvalue-string-rejects-non-bmp"]
        if prim in ("unsignedInt", "unsignedShort", "unsignedByte") and re.match(r"-0+\Z", lex) and act("xsvalue-unsigned-rejects-minus-zero"):
            return ["xsvalue-unsigned-rejects-minus-zero"]
        if prim == "anyURI" and " " in lex and act("xsvalue-anyuri-rejects-space"):
            return ["xsvalue-anyuri-rejects-space"]
        return None
    if kind == "xsvalue-actual-missing" and prim in ("nonNegativeInteger", "unsignedLong") and re.match(r"-0+\Z", lex) and act("xsvalue-unsigned-rejects-minus-zero"):
        return ["xsvalue-unsigned-rejects-minus-zero"]
    if kind in ("xsvalue-rejects-valid", "xsvalue-accepts-invalid") and prim == "NOTATION" and ":" in lex and act("xsvalue-notation-uri-local-form"):
        return ["xsvalue-notation-uri-local-form"]
    if kind == "compare-unequal-values-equal" and prim == "duration" and f["a"].startswith("-") and f["b"].startswith("-") and f.get("expected") == IN and act("negative-duration-compare-equal"):
        return ["negative-duration-compare-equal"]
    if kind == "compare-equal-values-differ" and prim == "hexBinary" and f["a"].lower() == f["b"].lower() and act("hexbinary-compare-lexical"):
        return ["hexbinary-compare-lexical"]
    if kind == "compare-equal-values-differ" and prim == "base64Binary" and f["a"].replace(" ", "") == f["b"].replace(" ", "") and act("base64binary-compare-lexical"):
        return ["base64binary-compare-lexical"]
    if kind == "parse-accepts-invalid" and prim == "QName" and act("qname-enumeration-unprefixed-entry") and lex and ":" in lex:
        ens = []
        t = tdef
        while "r" in t:
            ens += [v for k, v in t["f"] if k == "enumeration"]
            t = t["r"]
        if any(":" not in e and e == lex.split(":")[1] for e in ens) and lex.split(":")[0] == "p":
            return ["qname-enumeration-unprefixed-entry"]
        return None
    # ---------------- model defects: the reference model + the defect's alternative behaviour must predict exactly the observation
    if kind.startswith("order-"):
        name = f.get("type")
        cand = [d["id"] for d in DEFECTS if d["id"] in ACTIVE and d["scope"] not in (None, "union") and name in d["scope"]]
        negdur = name == "duration" and act("negative-duration-compare-equal")

        def pair(x, y, robs, S):
            """-> 'same' (model with S predicts robs, as the plain reference does), 'defect' (only the defect model predicts it), 'unknown' (not judged), None (no)"""
            sig = model_sig(name, x, y, S, unknown=True)
            if sig is None:
                return "unknown"
            std = _SIG2REL.get(model_sig(name, x, y, ()))
            if _SIG2REL.get(sig) == robs:
                return "same" if std == robs else "defect"
            if negdur and x.startswith("-") and y.startswith("-") and robs == EQ and std == IN:
                return "negdur"
            return None
        for S in [()] + list(_subsets(cand)):
            if kind == "order-not-transitive":
                got = [pair(x, y, r, S) for x, y, r in ((f["a"], f["b"], f["ab"]), (f["b"], f["c"], f["bc"]), (f["a"], f["c"], f["ac"]))]
            elif kind == "order-not-antisymmetric":
                got = [pair(f["a"], f["b"], f["ab"], S), pair(f["b"], f["a"], f["ba"], S)]
            elif kind == "order-not-reflexive":
                got = [pair(f["a"], f["a"], f["observed"], S)]
            elif kind == "order-facets-inconsistent":
                got = ["defect" if S and model_sig(name, f["w"], f["v"], S) == tuple(f["gt_ge_le_lt"]) else None]
            else:
                got = [None]
            if None not in got and ("defect" in got or "negdur" in got):
                return list(S) + (["negative-duration-compare-equal"] if "negdur" in got else [])
        return None
    if tdef is None:
        return None
    cand = [d["id"] for d in DEFECTS if d["id"] in ACTIVE and _scope_ok(d, tdef)]
    if not cand:
        return None
    if kind in ("dv-accepts-invalid", "dv-rejects-valid", "parse-accepts-invalid", "parse-rejects-valid"):
        want = "V" if "accepts" in kind else "I"
        for S in _subsets(cand):
            T = _model_type(tdef, S)
            if T is None:
                continue
            st = _with(S, lambda: T.check(f["raw"]))
            e = st[0]
            if kind.startswith("parse"):
                e = parse_expect(T, tdef, st[0], st[2])[0]
            if e == want:
                return list(S)
        return None
    if kind in ("compare-equal-values-differ", "compare-unequal-values-equal", "compare-order"):
        for S in _subsets(cand):
            T = _model_type(tdef, S)
            if T is not None and compare_consistent(T, _with(S, lambda: compare_expect(T, f["a"], f["b"])), f["observed"]):
                return list(S)
        return None
    if kind == "compare-equality-not-transitive":
        for S in _subsets(cand):
            T = _model_type(tdef, S)
            if T is None:
                continue
            e = _with(S, lambda: [compare_expect(T, f["a"], f["b"]), compare_expect(T, f["b"], f["c"]), compare_expect(T, f["a"], f["c"])])
            if e[0] == EQ and e[1] == EQ and e[2] not in (EQ, None):
                return list(S)
        return None
    return None


class Acc:
    """counters / violations / samples of one worker"""

    def __init__(self):
        self.cnt = {}
        self.viol = []
        self.samples = []

    def count(self, k, n=1):
        self.cnt[k] = self.cnt.get(k, 0) + n

    def violation(self, kind, **fields):
        ids = explain(kind, fields) if not kind.startswith(("defect:", "crash")) else None
        if ids:
            for i in ids:
                self.count("known_defect:" + i)
            self.count("mismatches_explained_by_listed_defects")
            return
        self.count("violations")
        self.count("violations:" + kind)
        tn = O.tdef_label(fields["tdef"]) if fields.get("tdef") else str(fields.get("type"))
        self.count("vt:%s|%s" % (kind, tn))
        per = self.cnt.get("_listed:" + kind + "|" + tn, 0)
        if per < 3 and len(self.viol) < 1500:
            self.cnt["_listed:" + kind + "|" + tn] = per + 1
            v = {"case": fields.pop("case", None), "kind": kind}
            v.update(fields)
            self.viol.append(v)


def uses_builtin(tdef, names):
    if "b" in tdef:
        return tdef["b"] in names
    if "l" in tdef:
        return uses_builtin(tdef["l"], names)
    if "u" in tdef:
        return any(uses_builtin(m, names) for m in tdef["u"])
    return uses_builtin(tdef["r"], names)


def uses_facet(tdef, name):
    if "r" in tdef:
        return any(k == name for k, v in tdef["f"]) or uses_facet(tdef["r"], name)
    return False


def float_band(T, lex):
    """finite literal whose magnitude lies where Xerces' documented clamping and IEEE rounding may legitimately differ (see docs/c09.md)"""
    return T.variety == "atomic" and isinstance(T.prim, O.Float) and T.prim.band(lex)


def check_xs_actual(T, name, lex, val, xsact, acc, ctx):
    """XSValue::getActualValue for an oracle-valid literal"""
    def bad(why, exp):
        acc.violation("xsvalue-actual", why=why, expected=exp, observed=xsact, **ctx)
    strings = ("string", "normalizedString", "token", "language", "NMTOKEN", "Name", "NCName", "ID", "IDREF", "ENTITY", "NMTOKENS", "IDREFS", "ENTITIES", "anyURI", "QName", "NOTATION")
    if xsact.startswith("~") and name not in strings and xsact not in ("~:7", "~:8"):
        acc.violation("xsvalue-actual-missing", why="validate() accepts the literal but getActualValue() returns no value", observed=xsact, **ctx)
        return
    if name in ("string", "normalizedString", "token", "language", "NMTOKEN", "Name", "NCName", "ID", "IDREF", "ENTITY", "NMTOKENS", "IDREFS", "ENTITIES", "anyURI", "QName",
                "NOTATION"):
        if xsact != "~:3":
            bad("string types have no actual value: status st_NoActVal expected", "~:3")
        return
    if name == "boolean":
        if xsact != ("b:1" if val else "b:0"):
            bad("boolean value", "b:%d" % val)
        return
    if name in ("hexBinary", "base64Binary"):
        if xsact != "B":
            bad("binary value expected", "B")
        return
    if name == "decimal":
        if abs(val) > DBL_MAX or (val != 0 and abs(val) < DBL_MIN_SUB):
            if xsact != "~:%d" % ST_FOCA0001:
                bad("decimal outside double range must give st_FOCA0001", "~:7")
            else:
                acc.count("xs_outside_limits_status_ok")
            return
        if not xsact.startswith("d:") or float(xsact[2:]) != float(val):
            bad("decimal as double", "d:%r" % float(val))
        return
    if name in ("float", "double"):
        if float_band(T, lex):
            acc.count("float_band_not_judged")
            return
        if not xsact.startswith(("f:", "g:")):
            bad("float value expected", "?")
            return
        _, en, tx = xsact.split(":")
        en = int(en)
        if val == O.NAN:
            exp = 2
        elif val == O.PINF:
            exp = 1
        elif val == O.NINF:
            exp = 0
        else:
            exp = 4
        d = T.prim.exact(lex)
        if exp == 4 and val == 0 and d is not None and d != 0:
            exp = 3
        if en != exp and not (exp in (0, 1) and d is None and en == exp):
            bad("float class (0 -INF, 1 INF, 2 NaN, 3 zero by conversion, 4 normal)", exp)
            return
        if exp == 4:
            got = O.round_binary(Fraction(float(tx)), T.prim.p, T.prim.emin, T.prim.emax)
            if got != val:
                bad("float value", str(val))
        return
    if name in O.INTEGER_TYPES:
        lo, hi = XS_INT_LIMITS.get(name, I64)
        iv = int(val)
        if iv < lo or iv > hi:
            if xsact != "~:%d" % ST_FOCA0003:
                bad("integer outside the machine range must give st_FOCA0003", "~:8")
            else:
                acc.count("xs_outside_limits_status_ok")
            return
        if xsact != "i:%d" % iv:
            bad("integer value", "i:%d" % iv)
        return
    if name == "duration":
        if not xsact.startswith("t:"):
            bad("duration fields expected", "t:...")
            return
        f = xsact[2:].split(":")
        y, mo, d, h, mi, s = [int(x) for x in f[:6]]
        ms = float(f[6])
        months = 12 * y + mo
        secs = d * 86400 + h * 3600 + mi * 60 + s + ms
        if months != val[0] or abs(secs - float(val[1])) > 1e-6:
            bad("duration fields", "months=%d seconds=%s" % (val[0], float(val[1])))
        return
    if name in ("dateTime", "time", "date", "gYearMonth", "gYear", "gMonthDay", "gDay", "gMonth"):
        if not xsact.startswith("t:"):
            bad("date/time fields expected", "t:...")
            return
        if T.prim.order_unspec(val) or val[5]:
            acc.count("xs_actual_datetime_not_judged")
            return
        f = xsact[2:].split(":")
        y, mo, d, h, mi, s = [int(x) for x in f[:6]]
        ms = float(f[6])
        if name == "dateTime":
            if mo < 1 or mo > 12:
                bad("month field", "1..12")
                return
            inst = O.days_from_civil(y if y > 0 else y + 0, mo, d) * 86400 + h * 3600 + mi * 60 + s + ms
            if abs(inst - float(val[1])) > 1e-6:
                bad("dateTime fields denote another instant", str(float(val[1])))
        elif name == "time":
            sod = (h * 3600 + mi * 60 + s + ms) % 86400
            if abs(sod - float(val[1] % 86400)) > 1e-6 or (y, mo, d) != (0, 0, 0):
                bad("time fields", str(float(val[1] % 86400)))
        else:
            if val[2] and val[3] != 0:
                acc.count("xs_actual_datetime_not_judged")
                return
            ey, em, ed = O.civil_from_days(int(val[1] // 86400))
            exp = {"date": (ey, em, ed), "gYearMonth": (ey, em, 0), "gYear": (ey, 0, 0), "gMonthDay": (0, em, ed), "gDay": (0, 0, ed), "gMonth": (0, em, 0)}[name]
            if (y, mo, d) != exp:
                bad("date fields", str(exp))
        return


def canon_checks(T, lex, val, c, acc, ctx, who):
    """form of a canonical literal returned for an oracle-valid value (validity / value preservation / idempotence are phase 2)"""
    if T.variety != "atomic" or T.base is not None and T.tdef.get("f"):
        pass
    if T.variety != "atomic":
        return
    p = T.prim
    exp = None
    try:
        exp = p.canon(val, lex)
    except Exception:
        exp = None
    if isinstance(p, O.Float):
        if float_band(T, lex):
            return
        d = p.exact(lex)
        if d is not None and (isinstance(val, tuple) or (val == 0 and d != 0)):
            acc.count("canon_of_converted_float_not_judged")   # documented out-of-bound conversion (docs/schema.xml): form of the canonical literal not judged
            return
        if val == O.NAN:
            exp = "NaN"
        elif val == O.PINF:
            exp = "INF"
        elif val == O.NINF:
            exp = "-INF"
    if isinstance(p, O.DateTimeLike) and p.order_unspec(val) and p.name != "time":
        return
    if exp is not None:
        acc.count("canon_exact_compared")
        if c != exp:
            acc.violation(who + "-canon-form", expected=exp, observed=c, **ctx)
        return
    ok = p.canon_ok(c)
    if ok is None:
        return
    acc.count("canon_syntax_compared")
    if not ok:
        acc.violation(who + "-canon-form", expected="a literal of the canonical subset", observed=c, **ctx)


def process_segment(space, drv, tdefs, Ts, cases, pairs, tag, acc, pk, pstate):
    """cases: list of (gidx, tid, raw).  pairs: list of (gidx, tid, a, b).  One driver run for V/C/P lines, one for the canonical round trip."""
    lines = []
    meta = []          # per line: ('V', case index) | ('C', pair index) | ('P', [case indexes], scanner)
    judged = []
    for ci, (gidx, tid, raw) in enumerate(cases):
        T = Ts[tid]
        st, val, lex = T.check(raw)
        judged.append((st, val, lex))
        lines.append("V\t%d\t%s" % (tid, esc(lex)))
        meta.append(("V", ci))
    for pi, (gidx, tid, a, b) in enumerate(pairs):
        T = Ts[tid]
        lines.append("C\t%d\t%s\t%s" % (tid, esc(O.ws_apply(T.ws, a)), esc(O.ws_apply(T.ws, b))))
        meta.append(("C", pi))
    # in-parse slice: fixed arithmetic progression over the global case index + every case whose raw form needs whitespace processing
    bytid = {}
    for ci, (gidx, tid, raw) in enumerate(cases):
        if "b" in tdefs[tid] and tdefs[tid]["b"] == "NOTATION":
            continue
        if gidx % pk == 0 or judged[ci][2] != raw:
            bytid.setdefault(tid, []).append(ci)
    for tid, cis in bytid.items():
        idlike = uses_builtin(tdefs[tid], ("ID",))
        batch = []
        seen = set()
        scn = ["IG", "SG"]

        def flush():
            if batch:
                s = scn[pstate[0] % 2]
                pstate[0] += 1
                lines.append("P\t%d\t%s\t%s" % (tid, s, "\t".join(esc(cases[c][2]) for c in batch)))
                meta.append(("P", list(batch), s))
                del batch[:]
                seen.clear()
        for ci in cis:
            key = judged[ci][2]
            if idlike:
                toks = set(key.split(" ")) if key else set()
                if toks & seen:
                    flush()
                seen.update(toks)
            batch.append(ci)
            if len(batch) >= 250:
                flush()
        flush()
    crashes = []
    t_d = time.time()
    diags, res = drv.run(lines, tag, crashes)
    acc.count("ms_in_driver", int((time.time() - t_d) * 1000))
    if res is None:
        raise RuntimeError("schema failed to load in worker: %s" % diags[:5])
    acc.count("driver_lines", len(lines))
    dvres = {}
    phase2 = []
    phase2_meta = []
    for ln, m, r in zip(lines, meta, res):
        f = r.split("\t")
        if f[0] == "X":
            acc.count("crashes")
            if m[0] == "V":
                gidx, tid, raw = cases[m[1]]
                acc.violation("crash", case=gidx, tdef=tdefs[tid], type=O.tdef_str(tdefs[tid]), raw=raw, lex=judged[m[1]][2], line=ln[:300], log=json.loads(f[1])[:1200], space=space)
            else:
                acc.violation("crash", line=ln[:300], log=json.loads(f[1])[:1200], space=space)
            continue
        if m[0] == "V":
            ci = m[1]
            gidx, tid, raw = cases[ci]
            T = Ts[tid]
            st, val, lex = judged[ci]
            ctx = dict(case=gidx, tdef=tdefs[tid], type=O.tdef_str(tdefs[tid]), raw=raw, lex=lex)
            nodv = f[1] == "nodv"     # NOTATION cannot type an element: only XSValue is exercised for the built-in itself
            dv_ok = f[1] == "1"
            if not nodv:
                dvres[ci] = dv_ok
            if space == "order" and "r" in tdefs[tid] and len(tdefs[tid]["f"]) == 1 and "b" in tdefs[tid]["r"]:
                pstate[2].append([tdefs[tid]["r"]["b"], tdefs[tid]["f"][0][0], tdefs[tid]["f"][0][1], raw, dv_ok])
            acc.count("evaluations")
            acc.count("no_validator_xsvalue_only" if nodv else "dv_valid" if dv_ok else "dv_invalid")
            if not dv_ok and not nodv:
                acc.count("exc:" + f[1][2:])
            qenum = T.variety == "atomic" and isinstance(T.prim, O.QNameT) and uses_facet(tdefs[tid], "enumeration")
            if st == "U":
                acc.count("oracle_unspecified")
            elif qenum:
                # QName/NOTATION values are (namespace, local name) pairs: the stand-alone validator has no namespace context and skips
                # the enumeration (QNameDatatypeValidator::checkContent); judged in-parse only
                acc.count("qname_enumeration_needs_context_not_judged")
                dvres.pop(ci, None)
            elif nodv:
                acc.count("oracle_valid" if st == "V" else "oracle_invalid")
            else:
                acc.count("oracle_valid" if st == "V" else "oracle_invalid")
                if dv_ok and st == "I":
                    acc.violation("dv-accepts-invalid", why=val, observed=f[1], **ctx)
                elif not dv_ok and st == "V":
                    acc.violation("dv-rejects-valid", observed=f[1], **ctx)
            c = None if f[2].startswith(("~", "!", "K:")) else unesc(f[2])
            if f[2].startswith("K:"):
                acc.count("known_defect_skipped:" + f[2][2:])
            elif f[2].startswith("!"):
                acc.violation("dv-canon-exception", observed=f[2], **ctx)
            if dv_ok and c is None and not f[2].startswith("K:"):
                acc.count("dv_canon_null_for_valid")
                if st == "V":
                    acc.violation("dv-canon-null", observed=f[2], **ctx)
            if not dv_ok and c is not None:
                acc.violation("dv-canon-for-invalid", observed=c, **ctx)
            if dv_ok and st == "V" and c is not None:
                acc.count("dv_canon_checked")
                canon_checks(T, lex, val, c, acc, ctx, "dv")
                phase2.append("V\t%d\t%s" % (tid, esc(c)))
                phase2_meta.append((ci, c, "dv"))
            if len(f) >= 6:   # built-in: XSValue
                name = tdefs[tid]["b"]
                xs_ok = f[3] == "1"
                acc.count("xs_valid" if xs_ok else "xs_invalid")
                if not xs_ok:
                    acc.count("xs_status:" + f[3][2:])
                if nodv:
                    if st != "U" and xs_ok != (st == "V"):
                        acc.violation("xsvalue-accepts-invalid" if xs_ok else "xsvalue-rejects-valid", xsvalue=f[3], **ctx)
                elif xs_ok != dv_ok and st == "U" and name == "anyURI":
                    acc.count("anyuri_unspecified_not_judged")
                elif xs_ok != dv_ok:
                    acc.violation("xsvalue-verdict-differs-from-validator", dv=f[1], xsvalue=f[3], oracle=st, **ctx)
                elif st != "U" and xs_ok != (st == "V"):
                    acc.count("xs_wrong_like_validator")
                blank = lex.strip(" \t\n\r") == ""      # XSValue documents st_NoContent for empty / all-blank content in getActualValue / getCanonicalRepresentation
                xc = None if f[4].startswith(("~", "K:")) else unesc(f[4])
                if xc is not None and st == "V":
                    acc.count("xs_canon_checked")
                    if c is not None and xc == c:
                        acc.count("xs_canon_same_as_dv_canon")      # already judged as the validator's canonical form
                    else:
                        acc.count("xs_canon_differs_from_dv_canon")
                        canon_checks(T, lex, val, xc, acc, ctx, "xsvalue")
                        phase2.append("V\t%d\t%s" % (tid, esc(xc)))
                        phase2_meta.append((ci, xc, "xsvalue"))
                if xc is not None and st == "I":
                    if dv_ok:
                        acc.count("xs_consequence_of_validator_accepting_invalid")
                    else:
                        acc.violation("xsvalue-canon-for-invalid", observed=xc, **ctx)
                if st == "V" and xs_ok and blank:
                    acc.count("xs_blank_content_not_judged")
                elif st == "V" and xs_ok:
                    acc.count("xs_actual_checked")
                    check_xs_actual(T, name, lex, val, f[5], acc, ctx)
                elif st == "I" and not f[5].startswith("~"):
                    if dv_ok:
                        acc.count("xs_consequence_of_validator_accepting_invalid")
                    else:
                        acc.violation("xsvalue-actual-for-invalid", observed=f[5], **ctx)
                if len(f) >= 7 and st != "U":
                    dec = f[6]
                    if st == "V" and lex == "":
                        acc.count("binary_decode_empty_not_judged")
                    elif st == "V":
                        if dec != "=" + val.hex():
                            acc.violation("binary-decode", expected=val.hex(), observed=dec, **ctx)
                        else:
                            acc.count("binary_decode_ok")
                    elif dec != "~" and name == "base64Binary":
                        acc.violation("binary-decode-accepts-invalid", observed=dec, **ctx)
            if gidx % 99991 == 0 and len(acc.samples) < 6:
                acc.samples.append({"type": O.tdef_str(tdefs[tid]), "raw": raw, "oracle": st, "dv": f[1], "canonical": f[2]})
        elif m[0] == "C":
            gidx, tid, a, b = pairs[m[1]]
            T = Ts[tid]
            ctx = dict(case=gidx, tdef=tdefs[tid], type=O.tdef_str(tdefs[tid]), a=a, b=b)
            sa, va, _ = T.check(a)
            sb, vb, _ = T.check(b)
            acc.count("compare_calls")
            if f[1].startswith("!") or f[1] == "nodv":
                acc.violation("compare-exception", observed=f[1], **ctx)
                continue
            r = int(f[1])
            pstate[1][(tid, a, b)] = r
            if sa != "V" or sb != "V":
                acc.count("compare_not_judged")
                continue
            unspec = T.variety == "atomic" and isinstance(T.prim, O.DateTimeLike) and (T.prim.order_unspec(va) or T.prim.order_unspec(vb))
            if T.variety == "atomic" and isinstance(T.prim, O.Float) and (float_band(T, a) or float_band(T, b)):
                unspec = True
            if unspec:
                acc.count("compare_not_judged")
                continue
            if T.variety == "atomic" and T.prim.ordered:
                exp = T.vcmp(va, vb)
            else:
                exp = EQ if T.veq(va, vb) else IN
            acc.count("compare_expect_" + exp)
            if exp == EQ and r != 0:
                acc.violation("compare-equal-values-differ", expected=0, observed=r, **ctx)
            elif exp != EQ and r == 0:
                acc.violation("compare-unequal-values-equal", expected=exp, observed=r, **ctx)
            elif exp == LT and r != -1 and T.primitive_ordered():
                acc.violation("compare-order", expected=-1, observed=r, **ctx)
            elif exp == GT and r != 1 and T.primitive_ordered():
                acc.violation("compare-order", expected=1, observed=r, **ctx)
        else:
            cis, scn = m[1], m[2]
            flags = f[1]
            tid = cases[cis[0]][1]
            T = Ts[tid]
            other = f[2] if len(f) > 2 else "-"
            name = tdefs[tid].get("b")
            acc.count("parse_docs")
            if other != "-" and not (uses_builtin(tdefs[tid], ("IDREF", "IDREFS")) and "never declared" in other):
                acc.violation("parse-unexpected-error", observed=other, tdef=tdefs[tid], type=O.tdef_str(tdefs[tid]), raws=[cases[c][2] for c in cis][:5], scanner=scn)
                continue
            for k, ci in enumerate(cis):
                gidx, _, raw = cases[ci]
                st, val, lex = judged[ci]
                pv = flags[k] == "1"
                acc.count("parse_values")
                acc.count("parse_valid" if pv else "parse_invalid")
                ctx = dict(case=gidx, tdef=tdefs[tid], type=O.tdef_str(tdefs[tid]), raw=raw, lex=lex, scanner=scn)
                exp, why_ctx = parse_expect(T, tdefs[tid], st, lex)
                if why_ctx == "entity":
                    acc.count("parse_entity_undeclared")     # no unparsed entity is declared in the instance
                elif why_ctx == "prefix":
                    acc.count("parse_qname_unbound_prefix")  # prefix not bound in the instance (only p is)
                if raw != lex:
                    acc.count("parse_ws_processed")
                if exp == "U":
                    if ci in dvres and dvres[ci] != pv:
                        acc.violation("parse-differs-from-validator", parse=pv, dv=dvres[ci], **ctx)
                    continue
                same_as_dv = ci in dvres and dvres[ci] == pv and exp == st
                if pv and exp == "I":
                    if same_as_dv:
                        acc.count("parse_wrong_like_validator")       # reported once, as dv-accepts-invalid
                    else:
                        acc.violation("parse-accepts-invalid", why=str(val), dv=dvres.get(ci), **ctx)
                elif not pv and exp == "V":
                    if same_as_dv:
                        acc.count("parse_wrong_like_validator")
                    else:
                        acc.violation("parse-rejects-valid", dv=dvres.get(ci), **ctx)
    # ---- phase 2: canonical literals are valid, value-preserving, idempotent
    if phase2:
        # dedupe
        uniq = {}
        for ln, m in zip(phase2, phase2_meta):
            uniq.setdefault(ln, []).append(m)
        l2 = list(uniq)
        t_d = time.time()
        d2, r2 = drv.run(l2, tag + "p2", crashes)
        acc.count("ms_in_driver", int((time.time() - t_d) * 1000))
        acc.count("driver_lines", len(l2))
        for ln, r in zip(l2, r2):
            f = r.split("\t")
            for (ci, c, who) in uniq[ln][:3]:
                gidx, tid, raw = cases[ci]
                T = Ts[tid]
                st, val, lex = judged[ci]
                ctx = dict(case=gidx, tdef=tdefs[tid], type=O.tdef_str(tdefs[tid]), raw=raw, lex=lex, canonical=c)
                if f[0] == "X":
                    acc.violation("crash", line=ln[:300], log=json.loads(f[1])[:1200], **ctx)
                    continue
                acc.count("canon_roundtrips")
                st2, val2, _ = T.check(c, pre_normalised=True)
                if O.has_pattern(tdefs[tid]) and (f[1] != "1" or st2 == "I"):
                    acc.count("canon_excluded_by_pattern_not_judged")   # a pattern facet may exclude the primitive type's canonical literal: the Recommendation's problem
                    continue
                if f[1] != "1":
                    acc.violation(who + "-canon-not-valid", observed=f[1], **ctx)
                    continue
                if st2 == "I":
                    acc.violation(who + "-canon-not-in-lexical-space", why=str(val2), **ctx)
                    continue
                skipv = T.variety == "atomic" and ((isinstance(T.prim, O.DateTimeLike) and T.prim.name != "time" and T.prim.order_unspec(val)) or float_band(T, lex))
                if st2 == "V" and not skipv and not T.veq(val, val2):
                    if not (T.variety == "atomic" and isinstance(T.prim, O.DateTimeLike) and T.prim.name == "time" and val[2] == val2[2] and (val[1] - val2[1]) % 86400 == 0):
                        acc.violation(who + "-canon-changes-value", **ctx)
                        continue
                c2 = None if f[2].startswith(("~", "!")) else unesc(f[2])
                if who == "dv" and c2 != c:
                    acc.violation("dv-canon-not-idempotent", again=c2, **ctx)
                if who == "xsvalue" and len(f) >= 5:
                    x2 = None if f[4].startswith("~") else unesc(f[4])
                    if x2 != c:
                        acc.violation("xsvalue-canon-not-idempotent", again=x2, **ctx)
    return dvres


# ================================================================================================ worker / space runner
CHUNK = 20000
KNOWN_DEFECT_CANARIES = []      # (driver KNOWN_DEFECTS entry, type, literal): none left, both crashes are repaired in /repo


def build_space(name, tier):
    if name == "lex":
        tdefs, enums = lex_space(tier)
        only = os.environ.get("C09_ONLY")          # development aid: restrict the lex space to some built-ins
        if only:
            keep = set(only.split(","))
            enums = [(t, e) for t, e in enums if tdefs[t]["b"] in keep]
        return tdefs, enums, []
    if name == "facets":
        tdefs, enums = facet_space(tier)
        return tdefs, enums, []
    if name == "order":
        return order_space(tier)
    raise ValueError(name)


def units_of(enums, pairs):
    """deterministic partition of the whole space into units of <= CHUNK cases: ('E', enum index, start, end, global offset) / ('P', start, end, global offset)"""
    units = []
    g = 0
    for ei, (tid, e) in enumerate(enums):
        s = 0
        while s < e.size:
            t = min(e.size, s + CHUNK)
            units.append(("E", ei, s, t, g + s))
            s = t
        g += e.size
    s = 0
    while s < len(pairs):
        t = min(len(pairs), s + CHUNK)
        units.append(("P", s, t, g + s))
        s = t
    return units, g + len(pairs)


def worker(w, W, space, tier, exe, env, workdir, pk, out_path, t_space0=None, deadline=0):
    acc = Acc()
    t0 = time.time()
    tdefs, enums, pairs = build_space(space, tier)
    Ts = [Type(t) for t in tdefs]
    xsd, line2type = O.emit_schema(tdefs)
    schema = os.path.join(workdir, "w%d.xsd" % w)
    types = os.path.join(workdir, "w%d.types" % w)
    with open(schema, "w", encoding="utf-8") as f:
        f.write(xsd)
    with open(types, "w") as f:
        for i, t in enumerate(tdefs):
            f.write("%d\t%s\n" % (i, t["b"] if "b" in t else "-"))
    units, total = units_of(enums, pairs)
    pstate = [0, {}, []]
    drv = Drv(exe, env, schema, types, workdir, "w%d" % w)
    mine = [u for i, u in enumerate(units) if i % W == w]
    seg = 0
    cases, prs = [], []

    def flush():
        nonlocal seg, cases, prs
        if cases or prs:
            process_segment(space, drv, tdefs, Ts, cases, prs, "w%d_%d" % (w, seg), acc, pk, pstate)
            seg += 1
            cases, prs = [], []
    for u in mine:
        if deadline and time.time() - t_space0 > deadline:
            acc.count("deadline_skipped", (u[3] - u[2]) if u[0] == "E" else (u[2] - u[1]))     # cases not started: evidence says exhaustive=false
            continue
        if u[0] == "E":
            _, ei, s, t, g = u
            tid, e = enums[ei]
            cases.extend((g + (i - s), tid, e.get(i)) for i in range(s, t))
        else:
            _, s, t, g = u
            prs.extend((g + (i - s), pairs[i][0], pairs[i][1], pairs[i][2]) for i in range(s, t))
        if len(cases) + len(prs) >= CHUNK:
            flush()
    flush()
    drv.close()
    acc.cnt["_wall"] = int(time.time() - t0)
    acc.count("ms_in_worker", int((time.time() - t0) * 1000))
    with open(out_path, "w") as f:
        json.dump({"cnt": acc.cnt, "viol": acc.viol, "samples": acc.samples, "cmp": [[k[0], k[1], k[2], v] for k, v in pstate[1].items()], "bounds": pstate[2]}, f)


def order_axioms(tdefs, Ts, cmpres, acc):
    """axioms on the *observed* equality relation of DatatypeValidator::compare (independent of the oracle): reflexive, symmetric, transitive"""
    by = {}
    for tid, a, b, r in cmpres:
        by.setdefault(tid, {})[(a, b)] = r
    for tid, m in by.items():
        vals = sorted(set(a for a, _ in m))
        name = O.tdef_str(tdefs[tid])
        for a in vals:
            if m.get((a, a)) != 0 and Ts[tid].check(a)[0] == "V":
                acc.violation("compare-not-reflexive", type=name, tdef=tdefs[tid], a=a, observed=m.get((a, a)))
            for b in vals:
                acc.count("axiom_pairs")
                if (m.get((a, b)) == 0) != (m.get((b, a)) == 0):
                    acc.violation("compare-equality-not-symmetric", type=name, tdef=tdefs[tid], a=a, b=b, ab=m.get((a, b)), ba=m.get((b, a)))
                if Ts[tid].primitive_ordered() and not isinstance(Ts[tid].prim, (O.DateTimeLike, O.Duration)):
                    x, y = m.get((a, b)), m.get((b, a))
                    if x in (-1, 1) and y != -x:
                        acc.violation("compare-not-antisymmetric", type=name, tdef=tdefs[tid], a=a, b=b, ab=x, ba=y)
        eq = [(a, b) for (a, b), r in m.items() if r == 0]
        eqs = {}
        for a, b in eq:
            eqs.setdefault(a, set()).add(b)
        for a in eqs:
            for b in eqs[a]:
                for c in eqs.get(b, ()):
                    acc.count("axiom_triples")
                    if m.get((a, c)) != 0:
                        acc.violation("compare-equality-not-transitive", type=name, tdef=tdefs[tid], a=a, b=b, c=c)
        if Ts[tid].primitive_ordered() and not isinstance(Ts[tid].prim, (O.DateTimeLike, O.Duration)):
            lt = {}
            for (a, b), r in m.items():
                if r == -1:
                    lt.setdefault(a, set()).add(b)
            for a in lt:
                for b in lt[a]:
                    for c in lt.get(b, ()):
                        acc.count("axiom_triples")
                        if m.get((a, c)) != -1:
                            acc.violation("compare-order-not-transitive", type=name, tdef=tdefs[tid], a=a, b=b, c=c, ac=m.get((a, c)))


def facet_order_axioms(boundres, acc):
    """The order as validation sees it, independent of the reference model: for every ordered type rel(w, v) is reconstructed from the four
    verdicts 'w is valid for {min,max}{In,Ex}clusive = v' and must be a consistent (partial) order: exactly one of LT/EQ/GT/IN is
    expressed, w<v iff v>w, equality symmetric, reflexive, and < transitive (also through equal values) over all triples."""
    by = {}
    skip = {}

    def not_judged(name, lit):
        """literals whose value / position in the order the reference model does not judge (documented conversion bands, see assumptions)"""
        key = (name, lit)
        if key not in skip:
            T = Type(B(name))
            st, v, lex = T.check(lit)
            skip[key] = st != "V" or float_band(T, lex) or (isinstance(T.prim, O.DateTimeLike) and T.prim.order_unspec(v))
        return skip[key]
    for name, k, v, w, ok in boundres:
        if not_judged(name, v) or not_judged(name, w):
            acc.count("facet_order_not_judged_literals")
            continue
        by.setdefault(name, {}).setdefault((w, v), {})[k] = ok
    for name, m in by.items():
        rel = {}
        vals = sorted(set(w for w, _ in m))
        for (w, v), d in m.items():
            if len(d) < 4:
                continue
            sig = (d["minExclusive"], d["minInclusive"], d["maxInclusive"], d["maxExclusive"])    # w>v, w>=v, w<=v, w<v
            r = {(True, True, False, False): GT, (False, True, True, False): EQ, (False, False, True, True): LT, (False, False, False, False): IN}.get(sig)
            acc.count("facet_order_pairs")
            if r is None:
                acc.violation("order-facets-inconsistent", type=name, tdef={"b": name}, w=w, v=v, gt_ge_le_lt=list(sig))
            rel[(w, v)] = r
        for a in vals:
            if rel.get((a, a)) not in (EQ, None) :
                acc.violation("order-not-reflexive", type=name, tdef={"b": name}, a=a, observed=rel.get((a, a)))
            for b in vals:
                x, y = rel.get((a, b)), rel.get((b, a))
                if x is None or y is None:
                    continue
                if {LT: GT, GT: LT, EQ: EQ, IN: IN}[x] != y:
                    acc.violation("order-not-antisymmetric", type=name, tdef={"b": name}, a=a, b=b, ab=x, ba=y)
        le = {}
        for (a, b), r in rel.items():
            if r in (LT, EQ):
                le.setdefault(a, []).append((b, r))
        for a in le:
            for b, r1 in le[a]:
                for c, r2 in le.get(b, ()):
                    acc.count("facet_order_triples")
                    want = EQ if (r1 == EQ and r2 == EQ) else LT
                    if rel.get((a, c)) not in (want, None):
                        acc.violation("order-not-transitive", type=name, tdef={"b": name}, a=a, b=b, c=c, ab=r1, bc=r2, ac=rel.get((a, c)))


def run_space(run, tier, out_path, env):
    t0 = time.time()
    space = run["space"]
    W = int(os.environ.get("XV_WORKERS", "10"))
    pk = int(run.get("parse_every", 7))
    exe = build.ensure_driver("c09_dtv", run.get("flavor", "asan"))
    workdir = os.path.join(build.BUILD, "run", "c09-%s-%s-%d" % (space, tier, os.getpid()))
    os.makedirs(workdir, exist_ok=True)
    # ---- listed defects: a predicate is live only while its witness still fails on the library under test
    global ACTIVE
    ACTIVE = set()
    wit = run_witnesses(exe, env, workdir)
    ACTIVE = set(i for i, (passed, _, _) in wit.items() if not passed)
    ACTIVE -= set(os.environ.get("C09_ASSUME_FIXED", "").split(","))     # development aid: show what a listed defect's predicate swallows
    if space == "witness":
        acc = Acc()
        for d in DEFECTS:
            passed, res, ln = wit[d["id"]]
            acc.count("evaluations")
            acc.count("witness_passed_defect_absent" if passed else "witness_failed_defect_present")
            if not passed:
                op, tdef, args = d["w"]
                acc.violation("defect:" + d["id"], defect=d["id"], what=d["what"], where=d["where"], operation={"V": "validate/canonical/XSValue", "C": "compare", "P": "in-parse"}[op],
                              tdef=tdef, type=O.tdef_str(tdef), raw=args[0], args=args, expected=d["expected"], observed=res.replace("\t", " | ")[:600])
        cnt = {k: v for k, v in acc.cnt.items() if not k.startswith(("_", "vt:"))}
        cnt.setdefault("violations", 0)
        json.dump({"space": run["name"], "total": len(DEFECTS), "workers": 1, "wall_s": round(time.time() - t0, 3), "bounds": {"witnesses": len(DEFECTS)},
                   "counters": cnt, "violations": acc.viol, "samples": [{"defect": d["id"], "witness": d["w"][2]} for d in DEFECTS[:6]]}, open(out_path, "w"))
        os.rmdir(workdir)
        return
    tdefs, enums, pairs = build_space(space, tier)
    Ts = [Type(t) for t in tdefs]
    units, total = units_of(enums, pairs)
    acc = Acc()
    acc.count("listed_defects_active", len(ACTIVE))
    # ---- schema sanity in the parent: every generated derivation is legal, so any diagnostic is a finding (or an oracle error)
    xsd, line2type = O.emit_schema(tdefs)
    sp = os.path.join(workdir, "parent.xsd")
    tp = os.path.join(workdir, "parent.types")
    open(sp, "w", encoding="utf-8").write(xsd)
    open(tp, "w").write("".join("%d\t%s\n" % (i, t["b"] if "b" in t else "-") for i, t in enumerate(tdefs)))
    crashes = []
    pdrv = Drv(exe, env, sp, tp, workdir, "parent")
    diags, res = pdrv.run(["V\t0\tx"], "parent0", crashes)
    for d in diags:
        f = d.split("\t")
        if f[2].startswith("NODV:") and tdefs[int(f[2][5:])].get("b") == "NOTATION":
            continue
        ti = line2type.get(int(f[1]))
        acc.violation("schema-diagnostic", line=int(f[1]), message=f[2][:400], tdef=tdefs[ti] if ti is not None else None,
                      type=O.tdef_str(tdefs[ti]) if ti is not None else None)
    if res is None:
        raise RuntimeError("schema of space %s does not load: %s" % (space, diags[:3]))
    # ---- one unguarded canary per KNOWN_DEFECTS entry of the driver (the guarded cases are only counted)
    for kd, tname, lexv in KNOWN_DEFECT_CANARIES:
        tids = [i for i, t in enumerate(tdefs) if t.get("b") == tname or (tname == "NMTOKENS-as-list" and t == {"l": {"b": "int"}})]
        if tids and ((space == "lex" and "b" in tdefs[tids[0]]) or (space == "facets" and "l" in tdefs[tids[0]])):
            cr = []
            _, r1 = pdrv.run(["V\t%d\t%s" % (tids[0], esc(lexv))], "canary", cr, guards=False)
            acc.count("known_defect_canaries")
            if cr:
                acc.violation("crash", known_defect=kd, type=O.tdef_str(tdefs[tids[0]]), tdef=tdefs[tids[0]], raw=lexv, lex=lexv, log=cr[0][1][:1500], space=space)
    pdrv.close()
    W = max(1, min(W, len(units)))
    procs = []
    for w in range(W):
        pid = os.fork()
        if pid == 0:
            rc = 0
            try:
                worker(w, W, space, tier, exe, env, workdir, pk, os.path.join(workdir, "res%d.json" % w), t0, float(run.get("deadline", 0)))
            except BaseException:
                import traceback
                traceback.print_exc()
                rc = 3
            sys.stdout.flush()
            sys.stderr.flush()
            os._exit(rc)
        procs.append(pid)
    failed = False
    for pid in procs:
        _, st = os.waitpid(pid, 0)
        if st != 0:
            failed = True
    if failed:
        raise RuntimeError("c09 worker failed (harness error), see stderr")
    cmpres = []
    boundres = []
    for w in range(W):
        p = os.path.join(workdir, "res%d.json" % w)
        r = json.load(open(p))
        for k, v in r["cnt"].items():
            if k == "_wall":
                acc.cnt["max_worker_wall_s"] = max(acc.cnt.get("max_worker_wall_s", 0), v)
            elif not k.startswith("_"):
                acc.cnt[k] = acc.cnt.get(k, 0) + v
        acc.viol.extend(r["viol"])
        acc.samples.extend(r["samples"])
        cmpres.extend(r["cmp"])
        boundres.extend(r.get("bounds", []))
    if cmpres:
        order_axioms(tdefs, Ts, cmpres, acc)
    if boundres:
        facet_order_axioms(boundres, acc)
    acc.viol.sort(key=lambda v: (v["kind"], json.dumps(v.get("case")), json.dumps(v, sort_keys=True)))
    # keep the list small but representative: at most 4 per kind
    listed = []
    per = {}
    for v in acc.viol:
        tn = O.tdef_label(v["tdef"]) if v.get("tdef") else str(v.get("type"))
        key = (v["kind"], tn)
        if per.get(key, 0) < 2:
            per[key] = per.get(key, 0) + 1
            listed.append(v)
    by_type = {k[3:]: v for k, v in acc.cnt.items() if k.startswith("vt:")}
    cnt = {k: v for k, v in acc.cnt.items() if not k.startswith(("_", "vt:"))}
    cnt.setdefault("violations", 0)
    cnt["types"] = len(tdefs)
    out = {"space": run["name"], "total": total, "workers": W, "wall_s": round(time.time() - t0, 3),
           "bounds": {"types": len(tdefs), "enumerations": len(enums), "pairs": len(pairs), "parse_every": pk,
                      "alphabets": [dict(type=O.tdef_str(tdefs[t]), **e.desc()) for t, e in enums[:80]]},
           "counters": cnt, "violations": listed[:400], "samples": acc.samples[:8]}
    # the orchestrator treats counted-but-unlisted violations as unclassifiable: list cap per kind is intentional, so report the per-kind totals
    out["violation_totals"] = {k[11:]: v for k, v in cnt.items() if k.startswith("violations:")}
    out["violation_totals_by_type"] = by_type
    out["nonvacuity"] = {"violation_totals_by_type": by_type, "listed_violations_are_a_capped_selection": True}
    cnt["violations"] = len(out["violations"])
    json.dump(out, open(out_path, "w"))
    if not os.environ.get("XV_KEEP"):
        for fn in os.listdir(workdir):
            os.unlink(os.path.join(workdir, fn))
        os.rmdir(workdir)


def replay(body):
    """re-executes one recorded violation through a one-type schema and prints library answers next to the oracle's"""
    v = dict(body["violation"])
    if v.get("operation") == "compare" and len(v.get("args", [])) == 2:
        v.pop("raw", None)
        v["a"], v["b"] = v["args"]
    tdef = v.get("tdef")
    if tdef is None:
        print("nothing to replay:", json.dumps(v)[:800])
        return 1
    env = dict(os.environ)
    env.update(build.SAN_ENV)
    exe = build.ensure_driver("c09_dtv", body.get("flavor", "asan"))
    workdir = os.path.join(build.BUILD, "run", "c09-replay-%d" % os.getpid())
    os.makedirs(workdir, exist_ok=True)
    xsd, _ = O.emit_schema([tdef])
    sp, tp = os.path.join(workdir, "r.xsd"), os.path.join(workdir, "r.types")
    open(sp, "w", encoding="utf-8").write(xsd)
    open(tp, "w").write("0\t%s\n" % (tdef["b"] if "b" in tdef else "-"))
    T = Type(tdef)
    lines = []
    if "raw" in v:
        st, val, lex = T.check(v["raw"])
        print("type     :", O.tdef_str(tdef))
        print("raw      : %r   normalised: %r" % (v["raw"], lex))
        print("oracle   :", st, val)
        lines.append("V\t0\t" + esc(lex))
        if not ("b" in tdef and tdef["b"] == "NOTATION"):
            lines.append("P\t0\tIG\t" + esc(v["raw"]))
            lines.append("P\t0\tSG\t" + esc(v["raw"]))
        if v.get("canonical") is not None:
            lines.append("V\t0\t" + esc(v["canonical"]))
    elif "a" in v and "b" in v:
        sa, va, la = T.check(v["a"])
        sb, vb, lb = T.check(v["b"])
        print("type     :", O.tdef_str(tdef))
        print("a, b     : %r %r" % (v["a"], v["b"]))
        if sa == "V" and sb == "V":
            print("oracle   :", T.vcmp(va, vb) if T.primitive_ordered() else (EQ if T.veq(va, vb) else "not equal"))
        lines.append("C\t0\t%s\t%s" % (esc(la), esc(lb)))
        lines.append("C\t0\t%s\t%s" % (esc(lb), esc(la)))
    else:
        print("recorded:", json.dumps(v)[:1500])
        return 1
    crashes = []
    rdrv = Drv(exe, env, sp, tp, workdir, "replay")
    diags, res = rdrv.run(lines, "replay0", crashes, guards=False)
    rdrv.close()
    for d in diags:
        print("schema   :", d)
    for ln, r in zip(lines, res or []):
        print("library  : %-40s -> %s" % (ln.replace("\t", " "), r.replace("\t", " | ")))
    print("recorded :", json.dumps({k: v[k] for k in v if k not in ("tdef",)})[:1200])
    for fn in os.listdir(workdir):
        os.unlink(os.path.join(workdir, fn))
    os.rmdir(workdir)
    return 1


# ================================================================================================ SPEC
def _cov(results):
    return {
        "distinct_nontrivial": _sum(results, "oracle_valid") + _sum(results, "oracle_invalid") + _sum(results, "compare_expect_EQ") + _sum(results, "compare_expect_LT")
        + _sum(results, "compare_expect_GT") + _sum(results, "compare_expect_IN"),
        "validator_calls": _sum(results, "evaluations"), "accepted": _sum(results, "dv_valid"), "rejected": _sum(results, "dv_invalid"),
        "in_parse_values": _sum(results, "parse_values"), "in_parse_whitespace_processed": _sum(results, "parse_ws_processed"),
        "xsvalue_validations": _sum(results, "xs_valid") + _sum(results, "xs_invalid"), "canonical_round_trips": _sum(results, "canon_roundtrips"),
        "compare_calls": _sum(results, "compare_calls"), "not_judged_ambiguous": _sum(results, "oracle_unspecified"),
        "listed_defect_witnesses_failing": _sum(results, "witness_failed_defect_present"),
        "mismatches_explained_by_listed_defects": _sum(results, "mismatches_explained_by_listed_defects"),
    }


SPEC = dict(
    level="exploration",
    rule="Three sub-spaces, each enumerated completely (sizes: quick 169004 + 102464 + 40912, thorough 2697457 + 661483 + 100424 cases; alphabets and bounds per type in docs/c09.md "
         "and in the evidence 'bounds'). lex: for each of the 44 built-in types every string of length <= L over a per-type lexical alphabet of 5-11 symbols "
         "(L = 3..5 quick, 4..7 thorough) plus field-wise products (sign x leading zeros x 24 boundary magnitudes x fraction suffix for the 13 integer types; "
         "year x month x day x hour x minute x second x zone for the date/time types; mantissa x exponent for float/double; component products for duration). "
         "facets: ~600 derived types (every single facet and pairs of facets at boundary values on string-like, decimal/integer, float/double, date/time, binary, "
         "QName/anyURI/boolean bases; 2- and 3-step restriction chains (incl. `length` fixed in an earlier step and minLength/maxLength added in a later one, erratum E2-35); lists, unions, lists of unions, unions of lists) x all value words <= 3 (quick) / 4-5 (thorough) over the base's "
         "alphabet. order: for each of 13 ordered types a fixed value set (12-60 literals with lexically different equal values and the specification's indeterminate pairs): "
         "DatatypeValidator::compare on all ordered pairs, all triples of the observed relation for the axioms, and the order as validation sees it through four bounding-facet "
         "types per value. Every case: whitespace processing, DatatypeValidator::validate/getCanonicalRepresentation (canonical literal fed back: valid, same value, idempotent), "
         "XSValue::validate/getCanonicalRepresentation/getActualValue for built-ins, and a schema-validated parse of <e>raw</e> for a fixed arithmetic progression of the case "
         "index plus every case whose raw form contains whitespace to normalise. One case = one (type, raw string) or (type, a, b); non-trivial = judged by the reference (valid or "
         "invalid) or a judged comparison.",
    trusted_base=["xv/c09_oracle.py: reference model written from XML Schema Part 2 (1.0 Second Edition) with Python fractions/re (CPython 3.11)", "clang 14 ASan/UBSan"],
    assumptions=[
        "not judged (ambiguous in 1.0 / editions differ): seconds = 60; gMonth --MM--; Feb 29 and value comparisons in negative years; time values whose time-zone normalisation "
        "crosses midnight and 24:00:00 for *ordering*; float/double literals within one rounding step of overflow/underflow; sign of zero; anyURI outside a conservative RFC 2396 subset",
        "DatatypeValidator::compare is a three-way API used by the library for equality only: for pairs the Recommendation calls indeterminate only 'not equal' is required of it; "
        "the order itself is observed through the bounding facets",
        "validators and XSValue are called with the literal after the type's whitespace processing (the parser does that processing itself; that path is checked in-parse)",
        "QName/NOTATION prefix binding, ID uniqueness, IDREF resolution and ENTITY declarations are checked only in-parse (the stand-alone calls have no validation context)",
        "unions are only built from members with whiteSpace=collapse; length facets on QName/NOTATION are not judged; enumerations on QName/NOTATION are judged in-parse only",
        "canonical literals: validity is not judged for pattern-restricted types (a pattern may exclude the primitive's canonical literal); the form of canonical literals of "
        "float/double values produced by the documented out-of-bound conversion is not judged; XSValue returns st_NoContent for blank content",
        "DEFECTS (xv/c09.py): each listed library defect is asserted strictly on one minimal witness (run 'witness', kind defect:<id>); elsewhere a mismatch is only "
        "counted (known_defect:<id>) when it is exactly what the defect's narrow predicate / alternative model predicts, and only while the witness still fails",
    ],
    coverage=_cov,
    runs=dict(
        quick=[dict(name="witness", python="c09.run_space", space="witness", needs_lib=True),
               dict(name="lex", python="c09.run_space", space="lex", needs_lib=True, parse_every=10, deadline=85),
               dict(name="facets", python="c09.run_space", space="facets", needs_lib=True, parse_every=5, deadline=65),
               dict(name="order", python="c09.run_space", space="order", needs_lib=True, parse_every=3, deadline=50)],
        thorough=[dict(name="witness", python="c09.run_space", space="witness", needs_lib=True),
                  dict(name="lex", python="c09.run_space", space="lex", needs_lib=True, parse_every=20, deadline=840),
                  dict(name="facets", python="c09.run_space", space="facets", needs_lib=True, parse_every=5, deadline=400),
                  dict(name="order", python="c09.run_space", space="order", needs_lib=True, parse_every=1, deadline=200)],
    ),
    manifest=dict(text="bounded-exhaustive agreement of the datatype validators, XSValue and in-parse validation with an independent model of XML Schema Part 2",
                  note="reference model in Python; ambiguous corners of the Recommendation excluded and listed",
                  technique="bounded-exhaustive enumeration of lexical strings / derived types / value pairs against a reference model"),
)
