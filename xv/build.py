"""Building the instrumented library flavors (always from the repo's *current working tree*) and the drivers."""
import fcntl, hashlib, os, subprocess, sys, time

VERIF = os.path.dirname(os.path.dirname(os.path.abspath(__file__)))
REPO = os.environ.get("VERIF_REPO", "/repo")
BUILD = os.path.join(VERIF, "build")

FLAVORS = {
    "asan": dict(cc="clang", cxx="clang++",
                 flags="-O1 -g -fsanitize=address,undefined -fno-sanitize-recover=undefined -fno-omit-frame-pointer -DXERCES_VERIF_HOOKS -Wno-error"),
    "tsan": dict(cc="clang", cxx="clang++",
                 flags="-O1 -g -fsanitize=thread -fno-omit-frame-pointer -DXERCES_VERIF_HOOKS -Wno-error"),
    "fast": dict(cc="gcc", cxx="g++", flags="-O2 -g -DXERCES_VERIF_HOOKS -Wno-error"),
}


def flavor_dir(flavor):
    if os.path.realpath(REPO) == "/repo":
        return os.path.join(BUILD, flavor)
    h = hashlib.sha1(os.path.realpath(REPO).encode()).hexdigest()[:8]
    return os.path.join(BUILD, "%s-%s" % (flavor, h))


def lib_path(flavor):
    return os.path.join(flavor_dir(flavor), "src", "libxerces-c-4.0.so")


def run(cmd, log, **kw):
    with open(log, "ab") as f:
        f.write(("\n$ %s\n" % " ".join(cmd)).encode())
        f.flush()
        return subprocess.call(cmd, stdout=f, stderr=subprocess.STDOUT, **kw)


def ensure_lib(flavor, quiet=False):
    """cmake (once) + ninja xerces-c under a lock. Returns lib path. Raises on failure."""
    os.makedirs(BUILD, exist_ok=True)
    d = flavor_dir(flavor)
    fl = FLAVORS[flavor]
    lock = open(os.path.join(BUILD, ".lock-" + os.path.basename(d)), "w")
    fcntl.flock(lock, fcntl.LOCK_EX)
    try:
        log = d + ".log"
        t0 = time.time()
        if not os.path.exists(os.path.join(d, "build.ninja")):
            cmd = ["cmake", "-G", "Ninja", "-S", REPO, "-B", d, "-DCMAKE_BUILD_TYPE=None",
                   "-DCMAKE_C_COMPILER=" + fl["cc"], "-DCMAKE_CXX_COMPILER=" + fl["cxx"],
                   "-DCMAKE_CXX_FLAGS=" + fl["flags"], "-DCMAKE_C_FLAGS=" + fl["flags"].replace("-fno-sanitize-recover=undefined", ""),
                   "-Dtranscoder=icu", "-Dmessage-loader=inmemory", "-Dmutex-manager=standard",
                   "-Dnetwork-accessor=curl", "-Dxmlch-type=char16_t"]
            if run(cmd, log) != 0:
                raise RuntimeError("cmake failed for flavor %s, see %s" % (flavor, log))
        if run(["ninja", "-C", d, "xerces-c"], log) != 0:
            raise RuntimeError("library build failed for flavor %s, see %s" % (flavor, log))
        if not quiet:
            print("[xv] library flavor %s up to date (%.1fs) from %s" % (flavor, time.time() - t0, REPO), flush=True)
        return lib_path(flavor)
    finally:
        fcntl.flock(lock, fcntl.LOCK_UN)
        lock.close()


def driver_bin(name, flavor):
    return os.path.join(flavor_dir(flavor), "drv", name)


def newest_mtime(paths):
    m = 0
    for p in paths:
        if os.path.isdir(p):
            for r, _, fs in os.walk(p):
                for f in fs:
                    m = max(m, os.path.getmtime(os.path.join(r, f)))
        elif os.path.exists(p):
            m = max(m, os.path.getmtime(p))
    return m


def ensure_driver(name, flavor, extra_flags=None, extra_srcs=None, plain_c=None):
    """Compile drv/<name>.cpp against the flavor's library. Recompiled whenever the library was relinked
    (headers / class layouts may have changed) or a driver source is newer."""
    lib = ensure_lib(flavor, quiet=True)
    d = flavor_dir(flavor)
    out = driver_bin(name, flavor)
    os.makedirs(os.path.dirname(out), exist_ok=True)
    lock = open(out + ".lock", "w")
    fcntl.flock(lock, fcntl.LOCK_EX)
    try:
        drv = os.path.join(VERIF, "drv")
        deps = [os.path.join(drv, name + ".cpp")] + [os.path.join(drv, s) for s in (extra_srcs or [])] + [os.path.join(drv, s) for s in (plain_c or [])]
        deps += [os.path.join(drv, s[:-2] + ".h") for s in (plain_c or [])]
        dfile = out + ".d"
        if os.path.exists(dfile):  # exact header dependencies inside /verif/drv from the last compile (-MMD)
            for tok in open(dfile).read().replace("\\\n", " ").split():
                if tok.startswith(drv + os.sep) and tok not in deps:
                    deps.append(tok)
        else:
            deps.append(drv)
        dep = max(newest_mtime(deps), os.path.getmtime(lib))
        if os.path.exists(out) and os.path.getmtime(out) >= dep:
            return out
        fl = FLAVORS[flavor]
        srcs = [os.path.join(drv, name + ".cpp")] + [os.path.join(drv, s) for s in (extra_srcs or [])]
        log = out + ".log"
        if os.path.exists(log):
            os.unlink(log)
        for cfile in (plain_c or []):  # C sources that must stay uninstrumented (scheduler core)
            obj = out + "." + cfile + ".o"
            if run(["clang", "-O1", "-g", "-fPIC", "-c", os.path.join(drv, cfile), "-I" + drv, "-o", obj], log) != 0:
                sys.stderr.write(open(log).read()[-4000:])
                raise RuntimeError("plain C source %s failed to compile" % cfile)
            srcs.append(obj)
        cmd = [fl["cxx"], "-std=c++17"] + fl["flags"].split() + ["-Wno-unused-value",
               "-I" + os.path.join(REPO, "src"), "-I" + os.path.join(d, "src"), "-I" + drv] + srcs + \
              ["-MMD", "-MF", out + ".d", "-o", out + ".tmp", lib, "-Wl,-rpath," + os.path.dirname(lib), "-lexpat", "-licuuc", "-licudata", "-lpthread"] + (extra_flags or [])
        if run(cmd, log) != 0:
            sys.stderr.write(open(log).read()[-4000:])
            raise RuntimeError("driver %s failed to compile (flavor %s), see %s" % (name, flavor, log))
        os.replace(out + ".tmp", out)
        return out
    finally:
        fcntl.flock(lock, fcntl.LOCK_UN)
        lock.close()


SAN_ENV = {
    "ASAN_OPTIONS": "detect_leaks=0:quarantine_size_mb=8:allocator_release_to_os_interval_ms=-1:abort_on_error=0:handle_abort=1",
    "UBSAN_OPTIONS": "print_stacktrace=1:halt_on_error=1",
    "TSAN_OPTIONS": "halt_on_error=0:report_signal_unsafe=0:suppress_equal_stacks=0:suppress_equal_addresses=0:history_size=4",
}
