"""C10 - XML Schema identity constraints (unique / key / keyref) are enforced in the value space.

Driver: drv/c10_idc.cpp (spaces, rendering, library runs, comparison), reference model: drv/c10_ref.hpp.  Notes: docs/c10.md."""
from .checks import _sum


def _ix(name, space, tier, *extra):
    return dict(name=name, driver="c10_idc", args=["--space", space, "--tier", tier] + list(extra))


_NONVAC = ("lists", "parses", "instances_valid", "instances_invalid", "constraint_verdicts_compared", "noclaim_constraint_verdicts",
           "expected_violated:unique", "expected_violated:key", "expected_violated:keyref",
           "expected_satisfied:unique", "expected_satisfied:key", "expected_satisfied:keyref",
           "ref_duplicates", "ref_equal_but_lexically_different", "ref_key_absent", "ref_key_partial", "ref_key_nillable", "ref_keyref_found",
           "ref_keyref_not_found", "ref_field_multi", "ref_propagated_entries", "ref_conflict_removed",
           "observed:IC_DuplicateUnique", "observed:IC_DuplicateKey", "observed:IC_AbsentKeyValue", "observed:IC_KeyNotEnoughValues",
           "observed:IC_KeyMatchesNillable", "observed:IC_KeyNotFound", "observed:IC_KeyRefOutOfScope", "observed:IC_FieldMultipleMatch",
           "lists_skipped_noncanonical_group_order", "lists_skipped_field_on_complex_element", "lists_with_unclaimed_verdict")


def _cov(rs):
    known = {}
    for r in rs:
        for k, v in r.get("counters", {}).items():
            if k.startswith("known_defect_skipped:"):
                known[k.split(":", 1)[1]] = known.get(k.split(":", 1)[1], 0) + v
    return {
        # instance lists (scope instances) whose per-constraint verdict was derived by the reference model and compared with the library
        # under every configuration; a list is non-trivial by construction (distinct definition x distinct word over the item alphabet)
        "distinct_nontrivial": _sum(rs, "lists"),
        "definitions": sum(r.get("bounds", {}).get("definitions", 0) for r in rs),
        "documents": sum(r.get("bounds", {}).get("documents", 0) for r in rs),
        "nonvacuity": {k: _sum(rs, k) for k in _NONVAC},
        "known_defect_skipped": known,
    }


SPEC = dict(
    level="exploration",
    rule="A definition = constraint kind {unique, key, keyref->key, keyref->unique} x selector {r, .//r, *, a/r, r|s, p:r, child::r, p:*} x 1-2 fields from "
         "{@k, k, ., @p:k, k|@k} x simple type of the field carriers {string, token, integer, decimal, date, QName, boolean, float, a restriction of integer; "
         "keyref side optionally a related type: integer/decimal, token/string, restriction/base} x scope shape {constraints on the document element (one parse per "
         "list); on <g>, many sibling <g> per document = independent scopes (one list per line); <g> nested in <g> = the same constraint active at two depths; "
         "key/unique on <h>, keyref on the enclosing <g> = node-table propagation to an ancestor}.  For each definition ALL lists (words) of tuples up to the length "
         "bound over its item alphabet are executed: item = role (key / reference; references before and after keys arise as word orders) x nesting group x position "
         "{child, a/, b/a/, s, p:r} x one value symbol per carrier from the per-type alphabet {'1','01','1.0',' 1 ','2', ... lexical variants (CDATA, character "
         "reference, comment inside the value, big integers, time zones, INF/NaN, prefix rebinding), absent, xsi:nil, field matching two nodes}.  Length bounds "
         "(quick/thorough): value space 3/4 (keyref: 2/3 over the 5-value core alphabet, 3/4 over the 3-value alphabet, 2/2 over the extended alphabet), extended "
         "alphabets 2/3, path space 2/3 for one field and 1/2 for two fields, recursive 3/4, ancestor keyref 3/4 with two sibling key scopes and 4/5 with four sibling key scopes (every distribution of the keys over the scopes, references before and after them), document-element scope 2/3; growth: every list "
         "<= 1 plus n in {1,50,(81,)500} unrelated distinct tuples before/after/around.  Every document is validated by {IGXMLScanner,SGXMLScanner} x {SAX2,DOM} "
         "(lists of the maximal length of a batched definition: IG/SAX2 and SG/DOM); errors are bucketed per scope instance by line and classified by message. "
         "Oracle: own implementation of Structures 3.11.4/3.11.5 (target/qualified node sets, key-sequences, node tables with propagation and conflict removal) over "
         "value-space keys (Datatypes 1.0).  Checked per scope instance and constraint: violated <=> an error of that constraint's classes is reported; no IC error on a "
         "valid instance; no error of any other kind; no fatal error / exception.  distinct_nontrivial = number of lists compared.",
    trusted_base=["clang 14 ASan/UBSan", "C library strtof (float lexical mapping)"],
    assumptions=[
        "xsi:nil on a field element of unique/keyref: verdict claimed only if it is the same whether the nilled field counts as absent, as a value equal to other nilled fields, "
        "or as the empty string (Structures 1.0 does not say); for key the nillable declaration is a violation by 3.11.4 clause 4.2.3 and is claimed",
        "NaN = NaN and float -0 = 0: verdicts that depend on either are not claimed",
        "a field that matches several nodes is always claimed as a violation of that constraint (clause 3); what such a node contributes to the node table seen by "
        "a keyref is error recovery and not claimed",
        "duplicated key-sequences inside one violated key/unique: whether a keyref of an ancestor still finds them (3.11.5 removes them as conflicts, the library keeps one) is not claimed",
        "lists in which a field selects an element without simple type (selector * reaching the container elements with field '.') are skipped",
        "the verdict is attributed by error line: every scope instance is rendered on one line",
        "known defects (docs/c10.md) are skipped exactly on the lists whose reference verdict changes when the reference model imitates the defect; their number is reported; "
        "each known defect has a strict witness (run `defect-witnesses`, no skipping) that reports `defect:<id>` while the defect exists, and a defect whose witness passes is no longer skipped anywhere",
        "equality between values of different primitive types is not exercised (key/keyref type pairs are always of one primitive type)",
    ],
    coverage=_cov,
    runs=dict(
        quick=[_ix("values-flat", "values", "quick"), _ix("paths-flat", "paths", "quick"), _ix("scopes-recursive-and-ancestor", "scopes", "quick"),
               _ix("values-document-element", "root", "quick"), _ix("paths-document-element", "rootpaths", "quick"), _ix("growth", "growth", "quick"),
               _ix("defect-witnesses", "witness", "quick")],
        # per-run deadlines (seconds) keep the thorough tier inside its 25 min budget on an oversubscribed box: cases not started are counted
        # as deadline_skipped and the evidence then says exhaustive:false.  Unloaded, the whole tier needs ~3950 CPU-seconds (~9 min on 8 cores).
        thorough=[_ix("values-flat", "values", "thorough", "--deadline", 600), _ix("paths-flat", "paths", "thorough", "--deadline", 300),
                  _ix("scopes-recursive-and-ancestor", "scopes", "thorough", "--deadline", 120), _ix("values-document-element", "root", "thorough", "--deadline", 240),
                  _ix("paths-document-element", "rootpaths", "thorough", "--deadline", 90), _ix("growth", "growth", "thorough", "--deadline", 90),
                  _ix("defect-witnesses", "witness", "thorough")],
    ),
    manifest=dict(
        technique="bounded-exhaustive enumeration of identity-constraint definitions x all tuple lists up to a length bound, validated by the real parser "
                  "(2 scanners x 2 APIs) and compared per constraint with an independent value-space implementation of Structures 3.11",
        text="Every list of tuples within the bounds is executed under every constraint definition of the stated family; reported identity-constraint errors must coincide, "
             "per scope instance and per constraint, with the reference verdict. Permutation independence follows from exhaustiveness over all word orders against an order-free oracle; "
             "independence of table size is checked by the growth sub-space.",
        note="Reference model is hand-written (c10_ref.hpp); narrowings and the known library defects are listed in docs/c10.md."),
)
