"""C20 - XInclude processing yields the specified merged tree (modulo xml:base, base URIs compared separately), detects
inclusion loops and reports invalid xi:include usage.  Driver drv/c20_xinc.cpp, reference expander drv/c20_ref.hpp."""
from .checks import _sum


def _x(name, *args, **kw):
    return dict(name=name, driver="c20_xinc", args=list(args) + ["--apis", 3], **kw)


def _cov(rs):
    kd, kdp = {}, {}
    for r in rs:
        for k, v in r.get("counters", {}).items():
            if k.startswith("known_defect:"):
                kd[k[13:]] = kd.get(k[13:], 0) + v
            if k.startswith("proc:known_defect:"):
                kdp[k[18:]] = kdp.get(k[18:], 0) + v
    nv = {k: _sum(rs, k) for k in (
        "cases_executed", "pruned_equivalent", "parses", "ref_ok", "ref_ok_with_includes", "ref_ok_with_foreign_base_uris", "ref_error",
        "ref_error:loop", "ref_error:no-fallback", "ref_error:multi-fallback", "ref_error:orphan-fallback", "ref_error:bad-parse", "ref_error:xpointer",
        "ref_error:no-href", "ref_error:bad-child", "ref_error:docelem", "ref_includes", "ref_xml_included", "ref_text_included", "ref_text_with_markup_chars",
        "ref_resource_errors", "ref_fallback_used", "ref_fallback_ignored", "ref_unused_fallback_with_include", "ref_loops", "ref_loops_via_dotdot",
        "ref_ok_depth:0", "ref_ok_depth:1", "ref_ok_depth:2", "ref_ok_depth:3", "dom:tree_equal", "dom:bases_equal", "dom:error_reported_as_expected",
        "ls:tree_equal", "ls:bases_equal", "ls:error_reported_as_expected", "proc:tree_equal", "proc:bases_equal", "proc:error_reported_as_expected",
        "apis_agree", "leak_checks", "xerces_file_opens", "xerces_opens_over_20", "xerces_opens_over_40", "xerces_opens_over_100", "xerces_opens_over_200")}
    return {
        # cases are distinct by construction (different file contents); non-trivial = at least one xi:include / xi:fallback was processed and the
        # outcome (merged tree + base URIs, or the obligation to report an error) was compared
        "distinct_nontrivial": _sum(rs, "ref_ok_with_includes") + _sum(rs, "ref_error"),
        "distinct_expected_results": _sum(rs, "distinct_signatures"),
        "nonvacuity": nv,
        "known_defect_cases_skipped": kd,                       # XercesDOMParser / DOMLSParser
        "known_defect_cases_skipped_document_processor": kdp,   # XIncludeDOMDocumentProcessor
    }


_RULE = (
    "Files live in an in-memory file system: /v/a.xml (main document, system id = its path), /v/s/b.xml, /v/s/t/c.xml, /v/d.xml, text targets /v/s/t1.txt "
    "(UTF-8, contains '<a>&amp;]]>' and U+00E9), /v/s/t/t2.txt (UTF-16LE+BOM), /v/t3.txt (UTF-16BE+BOM); a missing target is /v/s/zz.xml; every href is the relative "
    "reference from the including element's base directory (so '..' segments and directory changes occur). Sub-spaces, each enumerated completely: "
    "(graph) every assignment of a template to each of n files: root only | one xi:include as document element / first / middle / last child / nested two levels deep | "
    "one include inside the xi:fallback of a failing include | two includes (first+last child; nested + following sibling), every include targeting any of the n files "
    "(itself included) or the missing file (then with a text fallback); non-main files carry a prolog comment and a trailing PI and, with rb>1, a relative or an absolute "
    "xml:base on their root (hrefs then relative to it); assignments that differ only in a file no include mentions are executed once (pruned_equivalent). "
    "quick: n=2 full templates rb=3 (3 885 assignments); n=3 reduced templates {root only, document element, first child, nested, in-fallback} (4 913). "
    "thorough: + n=3 all templates except nested+following-sibling (68 921), n=3 reduced rb=3 (31 433), n=4 reduced (194 481). "
    "(deep) five files in one directory: a includes p; p includes q, or q and then any file; q has two includes of any of the five files; r and s are leaves or "
    "include any file (5 400 assignments, no fallbacks): the smallest shape in which an include completes at inclusion depth 3 and a later sibling closes a loop "
    "through a middle entry of the inclusion history. "
    "(opts) main document = one include at each of 5 positions x an 87-entry option catalogue (target b / c / a itself / missing / text files / no href; parse absent, xml, text, bogus; "
    "encoding absent, ISO-8859-1, UTF-16; xpointer; xml:base on the xi:include; fallback none, empty, text, elements+text, nested include (4 targets, with/without inner fallback), "
    "two fallbacks, xi:include child, fallback outside an include) x 9 forms of b.xml (plain; absolute / relative xml:base on the root; includes c; includes a (loop); "
    "document element is an include; include under a relative xml:base; includes itself; includes c twice) = 3 915; two includes per document: quick catalogue x every 4th catalogue entry x {first+last child} x plain b (1 914), "
    "thorough catalogue^2 x 2 templates x 2 forms of b (30 276). (leak) catalogue x 2 contexts (middle child + plain b; document element + b including a) re-run with LeakSanitizer, leak check after every case. "
    "(defects) one minimal reproducer per entry of KNOWN_DEFECTS, evaluated strictly. "
    "Every case is processed three ways under ASan+UBSan: XercesDOMParser(setDoNamespaces, setDoXInclude, parse(systemId)), DOMLSParser(namespaces, fgXercesDoXInclude, parseURI) and "
    "XIncludeDOMDocumentProcessor::doXIncludeDOMProcess on the document parsed without XInclude; runner crash pinning, 20 s watchdog and a budget of 300 file opens per parse "
    "(exceeding it = runaway inclusion; the real maximum in these spaces is 79). Oracle: reference XInclude 1.0 expander over expat trees: expected DOM dump (elements with namespace, attributes, "
    "text, comments, PIs) equal modulo xml:base attributes; getBaseURI() of every result element equal to its base URI in its source document; when the reference finds a "
    "fatal error (loop / self inclusion, missing resource without fallback, two fallbacks, xi:include child, orphan fallback, bad parse value, xpointer, no href, include as "
    "document element not replaced by exactly one element) an error/fatal error or documented exception must be reported, and for each such kind except the last a message of "
    "the corresponding XInclude error code; no error may be reported otherwise; the two parsers must agree with each other on tree, base URIs, messages and exception.")

SPEC = dict(
    level="exploration",
    rule=_RULE,
    trusted_base=["expat 2.5.0 (parses every generated file for the reference expander)", "drv/c20_ref.hpp: reference expander written from XInclude 1.0 Second Edition",
                  "clang 14 ASan+UBSan, LeakSanitizer (leak sub-space)"],
    assumptions=[
        "xpointer is documented as unsupported (XMLErrs::XIncludeXPointerNotSupported): any xi:include with an xpointer attribute must only produce that error; no tree is claimed",
        "xml:base attributes are excluded from the tree comparison (compared through getBaseURI()); namespace declarations xmlns=\"\" and xmlns:xml added by DOM Level 3 namespace "
        "normalisation (AbstractDOMParser runs normalizeDocument() after XInclude) are ignored: they do not change any element or attribute namespace",
        "a byte order mark U+FEFF at the start of an included UTF-16 text resource is not claimed either way (XInclude 1.0 is silent; libxml2 keeps it too): it is removed from both sides before comparing",
        "'an error is reported' = fatalError/error callback of the ErrorHandler / DOMErrorHandler or a documented exception of parse() (DOMException HIERARCHY_REQUEST_ERR is what Xerces "
        "raises for a text node / several elements replacing the document element); warnings (XIncludeResourceError 'unable to include resource') are not errors",
        "targets that are not well-formed, DOCTYPE-bearing targets (notation/entity merging), accept/accept-language and non-file URI schemes are outside the enumerated space",
        "after the first reference error no tree is claimed (Xerces keeps processing the remaining includes; only the reporting obligation is checked); "
        "the specific XInclude message per error kind is not required when an exception ended processing",
        "XIncludeDOMDocumentProcessor is driven with the parser as XMLErrorReporter on a document parsed with namespaces on and XInclude off; a user XMLEntityHandler is not installed",
        "cases whose only discrepancies match a predicate of KNOWN_DEFECTS in drv/c20_xinc.cpp are counted (known_defect_cases_skipped) and not re-reported in the big sub-spaces; "
        "each defect is reported by its minimal reproducer in the strict 'defects' sub-space (violation field defect=<id>)",
    ],
    coverage=_cov,
    runs=dict(
        quick=[_x("defects-strict", "--space", "defects"),
               _x("opts-one-and-two-includes", "--space", "opts", "--pairs", 1),
               _x("graph-2-files", "--space", "graph", "--files", 2, "--tset", "full", "--rb", 3),
               _x("graph-3-files-reduced", "--space", "graph", "--files", 3, "--tset", "small", "--rb", 1),
               _x("deep-5-files", "--space", "deep"),
               _x("leak-check", "--space", "leak")],
        thorough=[_x("defects-strict", "--space", "defects"),
                  _x("opts-one-and-two-includes", "--space", "opts", "--pairs", 2),
                  _x("graph-2-files", "--space", "graph", "--files", 2, "--tset", "full", "--rb", 3),
                  _x("graph-3-files", "--space", "graph", "--files", 3, "--tset", "mid", "--rb", 1),
                  _x("graph-3-files-reduced-xmlbase", "--space", "graph", "--files", 3, "--tset", "small", "--rb", 3),
                  _x("graph-4-files-reduced", "--space", "graph", "--files", 4, "--tset", "small", "--rb", 1),
                  _x("deep-5-files", "--space", "deep"),
                  _x("leak-check", "--space", "leak")],
    ),
    manifest=dict(
        text="Every inclusion graph / option combination within the stated bounds is expanded by both DOM parsers and must equal the reference XInclude 1.0 expansion "
             "(tree modulo xml:base, base URI of every element), report an error exactly when the reference finds a fatal one (loops, invalid usage), terminate, and not leak.",
        note="reference expander over expat trees; xpointer unsupported (documented); known library defects listed in docs/c20.md are reported by strict reproducers",
        technique="bounded-exhaustive enumeration of inclusion graphs and per-include option products against a reference XInclude expander"),
)
