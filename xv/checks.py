"""Registry of property checks: which driver runs (sub-spaces) make up the quick and thorough tier of each property."""


def _sum(results, key):
    return sum(r.get("counters", {}).get(key, 0) for r in results)


CHECKS = {}
# checks run end-to-end and reviewed by the lead; only these are claimed in MANIFEST.json
REVIEWED = ["C01", "C02", "C03", "C04", "C05", "C06", "C07", "C08", "C09", "C10", "C11", "C12", "C13", "C14", "C15", "C16", "C17", "C18", "C19", "C20"]
NOT_APPLICABLE = {}  # property -> reason, for properties deliberately not claimed

# ------------------------------------------------------------------------------------------------ C01
def _px(name, *args, **kw):
    return dict(name=name, driver="parsex", args=list(args), **kw)


CHECKS["C01"] = dict(
    level="exploration",
    rule="Documents: all words <= k over the byte/token alphabets (document tokens incl. raw invalid bytes, DTD-subset tokens placed in an internal and "
         "in an external subset, XSD component tokens inside xs:schema), a catalogue of single-constraint violations, every single-character deletion and duplication of 15 well-formed markup declarations (dtdmut: the error-recovery "
         "branches of DTDScanner) in the internal and in the external subset, the DTD-rich structured space and "
         "every proper byte prefix of its documents; a UTF-16 refill ladder (40 constructs - supplementary characters inside element / attribute / prefix / PI-target / entity names, "
         "comments, CDATA, values, lone surrogates, ... - slid unit by unit across the 16384-unit char-buffer refills and the end of the first raw-buffer fill, in UTF-16LE and BE, "
         "namespaces off/on, 3 pad characters; in UTF-16 a surrogate pair can straddle a refill, which UTF-8 input can never produce). Each document is parsed under a *listed* configuration set: the full product "
         "{SAX1,SAX2,DOM,DOMLS,progressive} x 4 scanners x 3 validation schemes x 2^7 features (7680 configurations) for k<=1, and the 60 cores x a "
         "16-row strength-2 covering array of the 7 features (960 configurations) or a 48-configuration subset otherwise. Oracle: process survives, no "
         "ASan/UBSan report (-fno-sanitize-recover), only documented exception types, per-case watchdog (re-run alone at 20x before being called a hang), "
         "with SecurityManager(limit 5) at most limit+1 entity expansions are started. Cases are distinct by construction; non-trivial = documents whose outcome "
         "class (clean / validity errors / fatal / exception) differs between configurations.",
    trusted_base=["clang 14 ASan+UBSan (-fno-sanitize-recover=undefined)", "expat 2.5.0 (prefix sub-space verdicts)"],
    assumptions=["bytes/tokens outside the listed alphabets and inputs longer than the ladders are not covered", "allocation failure is not injected"],
    coverage=lambda rs: {"distinct_nontrivial": _sum(rs, "nontrivial") + _sum(rs, "ref_malformed") + _sum(rs, "ref_wellformed"), "parses": _sum(rs, "parses")},
    runs=dict(
        quick=[_px("doc-words-k1-full-product", "--space", "c01", "--docs", "s1", "--k", 1, "--cfgset", "full"),
               _px("doc-words-k2-48cfg", "--space", "c01", "--docs", "s1", "--k", 2, "--cfgset", "small"),
               _px("catalogue-960cfg", "--space", "c01", "--docs", "s3", "--cfgset", "array"),
               _px("dtd-words-k1-960cfg", "--space", "c01", "--docs", "dtd", "--k", 1, "--cfgset", "array"),
               _px("xsd-words-k1-960cfg", "--space", "c01", "--docs", "xsd", "--k", 1, "--cfgset", "array"),
               _px("dtd-declaration-damage-960cfg", "--space", "c01", "--docs", "dtdmut", "--cfgset", "array"),
               _px("prefixes", "--space", "prefix", "--rootattrs", 1, "--content", 0),
               dict(name="utf16-surrogate-refill-ladder", driver="chunkx", args=["--space", "slide16", "--slide", 1, "--max-viol", 400])],
        thorough=[_px("doc-words-k1-full-product", "--space", "c01", "--docs", "s1", "--k", 1, "--cfgset", "full"),
                  _px("doc-words-k2-960cfg", "--space", "c01", "--docs", "s1", "--k", 2, "--cfgset", "array"),
                  _px("doc-words-k3-48cfg", "--space", "c01", "--docs", "s1", "--k", 3, "--cfgset", "small"),
                  _px("catalogue-full-product", "--space", "c01", "--docs", "s3", "--cfgset", "full"),
                  _px("dtd-words-k2-48cfg", "--space", "c01", "--docs", "dtd", "--k", 2, "--cfgset", "small"),
                  _px("dtd-words-k1-full", "--space", "c01", "--docs", "dtd", "--k", 1, "--cfgset", "full"),
                  _px("xsd-words-k2-48cfg", "--space", "c01", "--docs", "xsd", "--k", 2, "--cfgset", "small"),
                  _px("dtd-declaration-damage-full", "--space", "c01", "--docs", "dtdmut", "--cfgset", "full"),
                  _px("dtd-rich-k1-960cfg", "--space", "c01", "--docs", "s4", "--k", 1, "--cfgset", "array"),
                  _px("prefixes", "--space", "prefix", "--rootattrs", 2, "--content", 0),
                  dict(name="utf16-surrogate-refill-ladder", driver="chunkx", args=["--space", "slide16", "--slide", 4, "--max-viol", 400])],
    ),
    manifest=dict(technique="bounded-exhaustive enumeration of byte/token words x listed configuration product on the real parser under ASan+UBSan with crash pinning and watchdog"),
)

# ------------------------------------------------------------------------------------------------ C02
CHECKS["C02"] = dict(
    level="exploration",
    rule="Cases (distinct by construction): (s1) every word of length <= k over the 52-token document alphabet; (s3) a catalogue of ~160 documents each "
         "violating exactly one well-formedness/encoding constraint or being a tricky well-formed one, labelled by construction *and* judged by expat "
         "(label/reference disagreement is a harness error); (s4) the DTD-rich structured space prolog x root attributes x content words; (s11) XML 1.0/1.1 "
         "line-end / control-character items with by-construction verdict (expat cannot speak 1.1); (prefix) every proper byte prefix of the s4 core "
         "documents. Each case is parsed by {SAX2,SAX1,progressive,DOM,DOMLS} x {IG,WF,DG,SG} x namespaces {off,on}; fatal/no-fatal verdict compared "
         "with expat 2.5 in the matching namespace mode. Non-trivial = (document, namespace mode) pairs classified by the reference and compared.",
    trusted_base=["expat 2.5.0 as reference well-formedness oracle", "clang 14 ASan/UBSan"],
    assumptions=["DOCTYPE-bearing documents are not claimed for WFXMLScanner/SGXMLScanner (documented to skip the DOCTYPE)",
                 "SGXMLScanner is only run with namespaces on (the schema scanner always performs namespace processing)",
                 "version='2.0' / version='' declarations are judged by construction only (expat accepts any VersionNum)",
                 "an encoding declaration that contradicts the auto-sensed family while the bytes decode identically (ASCII document declared UTF-16 "
                 "but stored as UTF-8) is reported by Xerces as a warning and not claimed here (belongs to C05's 'is reported' clause)"],
    coverage=lambda rs: {"distinct_nontrivial": _sum(rs, "ref_wellformed") + _sum(rs, "ref_malformed"), "parses": _sum(rs, "parses")},
    runs=dict(
        quick=[_px("s1-words-k3", "--space", "s1", "--k", 3, "--content", 0),
               _px("s3-catalogue", "--space", "s3", "--content", 0),
               _px("s11-xml11-k2", "--space", "s11", "--k", 2),
               _px("s4-dtd-rich-k1", "--space", "s4", "--k", 1, "--content", 0),
               _px("prefixes", "--space", "prefix", "--rootattrs", 1, "--content", 0)],
        thorough=[_px("s1-words-k3", "--space", "s1", "--k", 3, "--content", 0),
                  _px("s1-words-k4-26tok", "--space", "s1", "--k", 4, "--tokens", "small", "--content", 0, "--apis", 6),
                  _px("s3-catalogue", "--space", "s3", "--content", 0),
                  _px("s11-xml11-k3", "--space", "s11", "--k", 3),
                  _px("s4-dtd-rich-k2", "--space", "s4", "--k", 2, "--content", 0),
                  _px("prefixes", "--space", "prefix", "--rootattrs", 5, "--content", 0)],
    ),
    manifest=dict(technique="bounded-exhaustive enumeration of token words / catalogue / byte prefixes, verdict differential against expat and by-construction labels"),
)

# ------------------------------------------------------------------------------------------------ C03
CHECKS["C03"] = dict(
    level="exploration",
    rule="Same enumerations as C02 restricted to what the reference accepts; for every such document the complete event stream (elements, attributes "
         "after normalisation/defaulting with specified flags, text, CDATA sections, comments, PIs, DOCTYPE, entity/notation declarations, element line "
         "numbers derived independently from the raw bytes) of SAX2 is compared with expat's, SAX1/progressive/DOM/DOMLS/DOM-with-entity-reference-nodes "
         "pairwise with SAX2, DOM additionally with expat directly, all four scanners with IGXMLScanner; XML 1.1 documents against the by-construction "
         "infoset. Ladder: 25 constructs (multi-byte characters, CR LF, CDATA end, references, tags, ...) x 4 pad widths placed at every offset -s..+s around the "
         "16384-character refill, the 49152-byte raw refill and the low-water mark of 50-100 KB documents, content compared with expat. Non-trivial = well-formed (document, namespace mode) pairs whose content was compared.",
    trusted_base=["expat 2.5.0 as reference infoset oracle", "clang 14 ASan/UBSan"],
    assumptions=["SAX2 startDTD/endDTD are compared only when the DOCTYPE has an internal or external subset (documented 'DTD declarations, if any')",
                 "PIs inside the DTD are not forwarded by SAX/SAX2 by design (doctypePI unused) and comments inside the DTD have no DOM node: both are projected away",
                 "absent public/system identifiers are null in some APIs and empty strings in others: treated as the same information",
                 "column numbers are compared between Xerces APIs only (expat counts bytes)"],
    coverage=lambda rs: {"distinct_nontrivial": _sum(rs, "ref_wellformed"), "content_comparisons": _sum(rs, "content_compared"), "parses": _sum(rs, "parses")},
    runs=dict(
        quick=[_px("s1-words-k2", "--space", "s1", "--k", 2),
               _px("s3-catalogue", "--space", "s3"),
               _px("s11-xml11-k2", "--space", "s11", "--k", 2),
               _px("s4-dtd-rich-k2", "--space", "s4", "--k", 2, "--rootattrs", 2),
               dict(name="ladder-buffer-boundaries", driver="chunkx", args=["--space", "slide", "--slide", 1, "--max-viol", 400])],
        thorough=[_px("s1-words-k3", "--space", "s1", "--k", 3),
                  _px("s3-catalogue", "--space", "s3"),
                  _px("s11-xml11-k3", "--space", "s11", "--k", 3),
                  _px("s4-dtd-rich-k2", "--space", "s4", "--k", 2, "--rootattrs", 5),
                  _px("s4-dtd-rich-k3", "--space", "s4", "--k", 3, "--rootattrs", 1, "--apis", 6),
                  dict(name="ladder-buffer-boundaries", driver="chunkx", args=["--space", "slide", "--slide", 8, "--max-viol", 400])],
    ),
    manifest=dict(technique="bounded-exhaustive enumeration of token words, event-stream differential against expat and pairwise between APIs/scanners"),
)


# ------------------------------------------------------------------------------------------------ C04
def _cx(name, *args, **kw):
    return dict(name=name, driver="chunkx", args=list(args), **kw)


def _c04_cov(rs):
    plans = sum(v for r in rs for k, v in r.get("counters", {}).items() if k.startswith("plans:"))
    slide = sum(r.get("counters", {}).get("evaluations", 0) for r in rs if r.get("space") in ("slide", "slide16"))
    docs = sum(r.get("corpus", 0) for r in rs if r.get("space") == "cuts")
    return {"states": docs + sum(r.get("constructs", 0) for r in rs), "transitions": plans + slide, "traces_validated_against_impl": _sum(rs, "parses"),
            "distinct_nontrivial": _sum(rs, "cut_inside_multibyte") + _sum(rs, "cut_inside_crlf") + _sum(rs, "cut_inside_delimiter"),
            "nonvacuity": {k: _sum(rs, k) for k in ("cut_inside_multibyte", "cut_inside_crlf", "cut_inside_delimiter", "wellformed", "malformed")},
            "explanation": "states = corpus entities (+ sliding constructs); transitions = read plans / boundary placements explored; every plan is executed on the real parser "
                           "(SAX2 and DOM) and compared with the undisturbed execution, so traces validated = parses"}


CHECKS["C04"] = dict(
    level="model_checking",
    rule="Environment-answer exploration with iterated deviation bound: the environment answer is the size returned by each readBytes(); a deviation is a cut. "
         "For each of 89 corpus entities (construct-dense documents <= 250 bytes in the roles document / external general entity / external subset / external "
         "parameter entity, UTF-8, UTF-16 LE/BE with and without BOM, UCS-4, EBCDIC, Latin-1, Windows-1252, well-formed and malformed) ALL plans with 0 and 1 "
         "cuts (2 cuts on every 5th entity in quick, on all in thorough), the uniform plans 'every read returns c bytes' c=1..8 and ALL 2^(n-1) partitions of "
         "entities <= 14 bytes are executed, both unpadded (exercises the initial load: encoding probe, BOM, declaration) and behind a 49152-byte comment pad "
         "(so that the cuts steer steady-state raw/character-buffer refills through the constructs). Sliding: 25 constructs x 4 pad widths x 3 real boundaries "
         "(16384-char refill, 49152-byte refill, low-water mark) x offsets -s..+s, compared between one-shot, 977-byte and 4093-byte reads and with expat. "
         "Sources: the same bytes through MemBuf, application InputSource, LocalFile (VFS), StdIn (VFS), relative LocalFile, Wrapper4DOMLSInput. Oracle: canonical dump incl. errors "
         "with line/column equal to the undisturbed parse.",
    trusted_base=["expat 2.5.0 (sliding sub-space content)", "clang 14 ASan/UBSan"],
    assumptions=["real files, pipes and sockets are replaced by the VFS seam (XMLPlatformUtils::fgFileMgr)"],
    coverage=_c04_cov,
    runs=dict(
        quick=[_cx("cuts-initial-load", "--space", "cuts", "--bound", 1, "--bound2-some", 1, "--max-viol", 400),
               _cx("cuts-steady-state-padded", "--space", "cuts", "--bound", 1, "--pad", 1, "--partitions", 0, "--max-viol", 400),
               _cx("slide-real-boundaries", "--space", "slide", "--slide", 1, "--max-viol", 400),
               _cx("slide-real-boundaries-utf16", "--space", "slide16", "--slide", 1, "--max-viol", 400),
               _cx("source-kinds", "--space", "sources")],
        thorough=[_cx("cuts-initial-load", "--space", "cuts", "--bound", 2, "--max-viol", 400),
                  _cx("cuts-steady-state-padded", "--space", "cuts", "--bound", 1, "--bound2-some", 1, "--pad", 1, "--max-viol", 400),
                  _cx("slide-real-boundaries", "--space", "slide", "--slide", 8, "--max-viol", 400),
                  _cx("slide-real-boundaries-utf16", "--space", "slide16", "--slide", 4, "--max-viol", 400),
                  _cx("source-kinds", "--space", "sources")],
    ),
    manifest=dict(technique="exhaustive exploration of stream read partitions (deviation-bounded cuts, uniform reads, all partitions of tiny inputs) and buffer-boundary placements on the real parser, compared with the undisturbed execution",
                  text="Every read plan within the stated deviation bound is executed on the real parser and must reproduce the undisturbed result exactly (content, errors, positions)."),
)


# ------------------------------------------------------------------------------------------------ C15
def _hx(name, *args, **kw):
    return dict(name=name, driver="histx", args=list(args), **kw)


def _c15_cov(rs):
    hist = sum(r.get("counters", {}).get("evaluations", 0) for r in rs)
    return {"states": max(1, _sum(rs, "distinct_signatures")), "transitions": _sum(rs, "parses"), "traces_validated_against_impl": hist,
            "distinct_nontrivial": _sum(rs, "final_rejected") + _sum(rs, "final_with_validity_errors") + _sum(rs, "instances_invalid") + _sum(rs, "handler_exceptions_thrown"),
            "nonvacuity": {k: _sum(rs, k) for k in ("final_accepted", "final_rejected", "final_with_validity_errors", "handler_exceptions_thrown", "documents_adopted",
                                                     "adopted_documents_rechecked", "instances_valid", "instances_invalid", "locked_pool_checks", "growth_histories", "schema_reuse_histories", "cache_switch_histories", "expansion_limit_histories")},
            "explanation": "states = distinct abstract reference-model states (final configuration x API) reached; transitions = operations executed on real parser objects; "
                           "traces = complete histories, each executed on a long-lived parser and compared with a freshly constructed one"}


CHECKS["C15"] = dict(
    level="model_checking",
    rule="Stateless enumeration of ALL operation histories of depth <= d over the alphabet {parse(doc), parseFirst(doc)+j parseNext then parseReset (abandoned), "
         "parse(doc) with an exception thrown from the k-th handler callback, toggle namespaces / validation scheme / schema / scanner / exit-on-first-fatal / "
         "entity-reference nodes, resetDocumentPool, adoptDocument, loadGrammar without caching} x 19 colliding documents (same IDs, entity names, system ids, "
         "prefixes; valid / invalid / malformed at start, middle, end; XML 1.1; standalone; missing external entity) x 3 start configurations x "
         "{SAXParser, SAX2XMLReader, XercesDOMParser}; the final parse(doc) on the used parser must equal the same parse on a freshly constructed parser with the "
         "same configuration; adopted documents are re-dumped at the end. Cache space: every (API x document-with-grammar x way of caching {loadGrammar, "
         "cacheGrammarFromParse on a sibling document, all grammars} x disturbance {none, failed parse, abandoned progressive parse, pool reset+reload}) "
         "compared (verdict, errors, element/attribute/text events with defaults) with validating against the grammar inline; a locked pool must keep its key set. "
         "Table-growth space: every sequence of <= 2 (thorough 3) parses, on one parser, of 9 documents that push the per-parser tables past their initial capacity (70 distinct "
         "declared attributes specified on one element - the attribute-bookkeeping pool has rows of 64 -, 40 nested elements, 40 namespace declarations, 120 attributes on one "
         "element, 70 IDs) and of small documents over the same DTD, x {no caching, cacheGrammarFromParse+useCachedGrammarInParse, preloaded grammar} x 3 APIs; the final parse "
         "of every document must equal the parse by a fresh parser. Schema-reuse space: the same for 23 schema-validated documents over one schema (70-attribute complex type, "
         "unique/key/keyref incl. 90 keys in a nested scope, xsi:nil, xsi:type, substitution group, lax wildcard into a known / unknown namespace, defaults, lists, 70 IDs, 40 levels, "
         "an undeclared element, and three documents that end - parse abandoned - inside a nilled element, inside a key scope, inside a 65-attribute start tag) x {IGXMLScanner, SGXMLScanner} x "
         "3 cache regimes; quick: every history of <= 1 prior parse (API rotating with the history index), thorough: <= 1 under all 3 APIs and <= 2 with cacheGrammarFromParse. "
         "Cache-switch space: every sequence of <= 3 (thorough 4) operations over {cacheGrammarFromParse on/off, useCachedGrammarInParse on/off, resetCachedGrammarPool, loadGrammar(s1, toCache), "
         "parse(D1 naming s1.xsd), parse(D2 naming s2.xsd - another schema document for the SAME namespace), parse(plain)} x 3 APIs x {IG, SG}, followed by parse(D1|D2); a small reference "
         "model of the documented lookup order says which grammar is in force, and the outcome must equal that of a fresh parser given exactly that grammar. "
         "Expansion-limit space: a SecurityManager (limit 4) installed once; every sequence of <= 2 (thorough 3) parses of 8 documents with 0..5 entity expansions (content, nested, attribute value, "
         "predefined only, abandoned) x 4 scanners x 3 APIs, then a final parse: expansions are counted per parse, so the outcome must equal a fresh parser's.",
    trusted_base=["clang 14 ASan/UBSan"],
    assumptions=["when a cached DTD grammar is used, declaration events and the DOM doctype's entity map are not replayed by design; they are projected away (the property names verdicts, defaults and type information)"],
    coverage=_c15_cov,
    runs=dict(
        quick=[_hx("histories-depth1", "--space", "hist", "--depth", 1),
               _hx("histories-depth2-6docs", "--space", "hist", "--depth", 2, "--opdocs", 6),
               _hx("cache-transparency", "--space", "cache"),
               _hx("table-growth-histories-depth2", "--space", "growth", "--depth", 2),
               _hx("schema-reuse-histories-depth1", "--space", "schema", "--depth", 1, "--rotate", 1),
               _hx("grammar-cache-switch-histories-depth3", "--space", "toggle", "--depth", 3),
               _hx("expansion-limit-histories-depth2", "--space", "explimit", "--depth", 2)],
        thorough=[_hx("histories-depth2", "--space", "hist", "--depth", 2),
                  _hx("histories-depth3-3docs", "--space", "hist", "--depth", 3, "--opdocs", 3),
                  _hx("cache-transparency", "--space", "cache"),
                  _hx("table-growth-histories-depth3", "--space", "growth", "--depth", 3),
                  _hx("schema-reuse-histories-depth1-all-apis", "--space", "schema", "--depth", 1),
                  _hx("schema-reuse-histories-depth2-cached", "--space", "schema", "--depth", 2, "--rotate", 1, "--caches", "1"),
                  _hx("grammar-cache-switch-histories-depth4", "--space", "toggle", "--depth", 4),
                  _hx("expansion-limit-histories-depth3", "--space", "explimit", "--depth", 3)],
    ),
    manifest=dict(technique="exhaustive enumeration of operation histories up to a depth on long-lived real parser objects, each compared with a fresh parser (reference model = configuration tracking)",
                  text="All histories within the depth bound are executed on the real parser; hidden state is exactly what is under test, so no state merging is done on the implementation side."),
)


# ------------------------------------------------------------------------------------------------ C17
def _sx(name, flavor, *args, **kw):
    return dict(name=name, driver="schedx", flavor=flavor, plain_c=["sched_core.c"], args=list(args), **kw)


def _c17_cov(rs):
    scen = {}
    for r in rs:
        for k, v in r.get("scenarios", {}).items():
            scen[r["_run"]["name"] + "/" + k] = v
    return {"states": max(1, _sum(rs, "distinct_schedule_signatures")), "transitions": max(1, _sum(rs, "scheduling_points")),
            "traces_validated_against_impl": _sum(rs, "schedules"), "distinct_nontrivial": _sum(rs, "contended_schedules"),
            "scenarios": scen, "distinct_outcomes": _sum(rs, "distinct_outcomes"),
            "explanation": "states = distinct complete schedules (signature of the thread chosen at every scheduling point); transitions = scheduling points executed; every schedule is "
                           "an execution of the real library with real threads under the serialising scheduler; distinct_nontrivial = schedules on which a thread blocked on a library mutex"}


CHECKS["C17"] = dict(
    level="model_checking",
    rule="Stateless exploration of thread schedules with iterated preemption bound (CHESS style) over 20 scenarios of 2-3 real threads forced to collide on lazily "
         "initialised or shared library state (first use of regex categories; parsers sharing one locked grammar pool validating the same type / DTD element for the "
         "first time, and - with PSVI handlers and a walk over the pool's XSModel - against identity constraints, substitution groups, union / list types and xsi:type; named transcoders; private schema builds; case-insensitive and complement-of-block regex atoms; owner-less DOMDocumentType; DOMImplementationRegistry; local-code-page transcoding; parser construction and progressive scan tokens; message "
         "loading; private DOM build/serialise). Scheduling points: thread start/end and before-lock / inside-critical-section / after-unlock of every library mutex "
         "(through the XMLPlatformUtils::fgMutexMgr seam). Exactly one thread runs at a time; all schedules with <= b preemptions are enumerated breadth-first by "
         "preemption count (b=1 quick, b=2 thorough). Each schedule starts from a freshly initialised library. Oracle per schedule: no ThreadSanitizer report (the "
         "scheduler is uninstrumented and hands off with raw futexes, so TSan's happens-before contains only the library's own synchronisation), no deadlock, no "
         "crash, and every thread's result equals its result when run alone. The system ICU is not instrumented; the driver therefore interposes ucnv_fromUChars / toUChars / fromUnicode / toUnicode / reset / close and writes to a per-converter shadow cell before forwarding, so that two uses of one UConverter not ordered by the library's own locks are reported by TSan as well (the driver runs in a UTF-8 locale so that local-code-page transcoding of non-ASCII strings takes its retry path). The thorough tier repeats bound 1 under ASan+UBSan.",
    trusted_base=["clang 14 ThreadSanitizer (happens-before race detection, sequentially consistent model)", "clang 14 ASan/UBSan"],
    assumptions=["more than 3 threads / 2 preemptions and weak-memory reorderings beyond TSan's model are not covered", "ICU's and libstdc++'s internal synchronisation is trusted"],
    coverage=_c17_cov,
    runs=dict(
        quick=[_sx("schedules-tsan-bound1-2threads", "tsan", "--bound", 1, "--budget", 1500, "--max-threads", 2)],
        thorough=[_sx("schedules-tsan-bound2", "tsan", "--bound", 2, "--budget", 2500),
                  _sx("schedules-asan-bound1", "asan", "--bound", 1, "--budget", 1500)],
    ),
    manifest=dict(technique="stateless model checking: preemption-bounded exhaustive schedule enumeration of real threads under a cooperative scheduler at hooked mutex operations, ThreadSanitizer as race oracle on every schedule",
                  text="All schedules within the preemption bound are executed on the real library; races are decided by TSan on each schedule, result equality against single-threaded runs."),
)


# ------------------------------------------------------------------------------------------------ C18
def _mx(name, *args, **kw):
    return dict(name=name, driver="memx", args=list(args), **kw)


def _c18_cov(rs):
    scen = sum(r.get("counters", {}).get("evaluations", 0) for r in rs if r.get("space") == "parse") + _sum(rs, "sequences_balanced") + _sum(rs, "pool_histories")
    return {"states": max(1, scen), "transitions": max(1, _sum(rs, "endings") + _sum(rs, "work_items") + _sum(rs, "terminate_with_custom_manager_checked") + _sum(rs, "pool_histories")),
            "traces_validated_against_impl": _sum(rs, "endings") + _sum(rs, "sequences_balanced") + _sum(rs, "pool_histories"),
            "distinct_nontrivial": _sum(rs, "ended_by_handler_exception") + _sum(rs, "ended_by_fatal_error") + _sum(rs, "terminate_with_custom_manager_checked") + _sum(rs, "pool_histories"),
            "nonvacuity": {k: _sum(rs, k) for k in ("ended_normally", "ended_by_fatal_error", "ended_by_handler_exception", "ended_by_library_exception", "allocations_through_ledger",
                                                     "global_growth_checks", "sequences_balanced", "terminate_with_custom_manager_checked", "work_items", "pool_histories",
                                                     "known_defect:parser-created-on-locked-pool-used-after-unlock")},
            "explanation": "states = (document, API, object lifetime) scenarios and balanced Initialize/Terminate sequences; transitions/traces = every way each scenario can end "
                           "(completion, fatal error, exception from the k-th callback for every k, progressive parse abandoned after every parseNext), each executed on the "
                           "real library with ledger MemoryManagers"}


CHECKS["C18"] = dict(
    level="model_checking",
    rule="Ledger MemoryManagers (allocate/deallocate log keyed by pointer with owner; foreign, cross-manager and double releases detected at the call; outstanding blocks "
         "counted when the owning object is gone) are given to SAXParser / SAX2XMLReader / XercesDOMParser / DOMLSParser and, as global manager, to Initialize. For every "
         "document (all words <= k over a 14-token alphabet incl. malformed and DTD-bearing ones, plus DTD/schema valid/invalid, missing external entities) x API x "
         "lifetime {destroy parser; reuse parser then destroy; adoptDocument, destroy parser, use and release the document; adopt+release, reuse, destroy}: EVERY way the "
         "parse can end is enumerated - completion, fatal error, an exception thrown from the k-th handler callback for every k up to the number of callbacks of the "
         "undisturbed run, a progressive parse abandoned after every parseNext. After each: ledger empty, no fault, and a repeat of the scenario does not grow the global "
         "manager. Initialize/Terminate: ALL sequences of length <= d over {Init(default), Init(custom manager), Terminate, parse, regex, transcode/registry} that are "
         "balanced are executed back to back in one process; after the last Terminate the custom manager's ledger is empty and every work item gives the first-time result. "
         "DOM arena arguments: the parse-ending space is repeated with Initialize(initialDOMHeapAllocSize, maxDOMHeapAllocSize, maxDOMSubAllocationSize, ...) = (0x10000, 0x80000, 0x1000), "
         "(0x200, 0x400, 0x20) and (0x4000, 0x4000, 0x4000), the documents including text nodes and attribute values of 3000-5000 characters that keep growing by entity replacement text "
         "(blocks of their own in the arena, released one by one while parsing); the Initialize/Terminate sequences are repeated with those arguments and a DOM work item. "
         "Each parse-ending run exists twice: with namespaces, schema processing and validation=auto switched on, and with the parsers' defaults (no namespaces, no validation, entity "
         "reference nodes off) - what is allocated in a document's arena before its first long string depends on it. "
         "Grammar pool histories: one ledger manager is given to an XMLGrammarPoolImpl and to the parser(s) created on it; EVERY sequence of <= 3 (thorough 4) operations over "
         "{loadGrammar(DTD | schema A | another schema document of the same namespace | broken schema) with and without caching, parse with useCachedGrammarInParse / "
         "cacheGrammarFromParse, parse of a malformed document, lockPool, unlockPool, resetCachedGrammarPool, switch to a second parser on the same pool} x {SAX2XMLReader, "
         "XercesDOMParser} x {IGXMLScanner, DGXMLScanner, SGXMLScanner} is executed, then the parsers and finally the pool are destroyed: ledger empty, no foreign or double release.",
    trusted_base=["clang 14 ASan/UBSan (use-after-free on released blocks)"],
    assumptions=["grammar-pool histories stop (counted as known_defect:parser-created-on-locked-pool-used-after-unlock) where a parser that was constructed while the pool was locked is used "
                 "after unlockPool(): the listed defect c18-parser-created-on-locked-pool-used-after-unlock; the run grammar-pool-stale-parser-witness executes the minimal such history strictly",
                 "allocation failure is not injected", "blocks the library takes from operator new directly (not through a MemoryManager) are only covered by ASan, not by the ledger"],
    coverage=_c18_cov,
    runs=dict(
        quick=[_mx("parse-endings-k1", "--space", "parse", "--k", 1), _mx("init-term-depth5", "--space", "initterm", "--depth", 5),
               _mx("parse-endings-k1-dom-arena-sublimit-4096", "--space", "parse", "--k", 1, "--domheap", 1), _mx("parse-endings-k1-dom-arena-sublimit-32", "--space", "parse", "--k", 1, "--domheap", 2),
               _mx("parse-endings-k1-dom-arena-sublimit-eq-block", "--space", "parse", "--k", 1, "--domheap", 3), _mx("init-term-depth5-dom-arena-arguments", "--space", "initterm", "--depth", 5, "--domheap", 1),
               _mx("parse-endings-k1-parser-defaults", "--space", "parse", "--k", 1, "--plain", 1), _mx("parse-endings-k1-parser-defaults-dom-arena-sublimit-4096", "--space", "parse", "--k", 1, "--plain", 1, "--domheap", 1),
               _mx("parse-endings-k1-parser-defaults-dom-arena-sublimit-32", "--space", "parse", "--k", 1, "--plain", 1, "--domheap", 2), _mx("parse-endings-k1-parser-defaults-dom-arena-sublimit-eq-block", "--space", "parse", "--k", 1, "--plain", 1, "--domheap", 3),
               _mx("grammar-pool-histories-depth3", "--space", "pool", "--depth", 3), _mx("grammar-pool-stale-parser-witness", "--space", "poolwitness")],
        thorough=[_mx("parse-endings-k2", "--space", "parse", "--k", 2), _mx("init-term-depth7", "--space", "initterm", "--depth", 7),
                  _mx("parse-endings-k2-dom-arena-sublimit-4096", "--space", "parse", "--k", 2, "--domheap", 1), _mx("parse-endings-k2-dom-arena-sublimit-32", "--space", "parse", "--k", 2, "--domheap", 2),
                  _mx("parse-endings-k1-dom-arena-sublimit-eq-block", "--space", "parse", "--k", 1, "--domheap", 3), _mx("init-term-depth7-dom-arena-arguments", "--space", "initterm", "--depth", 7, "--domheap", 1),
                  _mx("parse-endings-k2-parser-defaults", "--space", "parse", "--k", 2, "--plain", 1), _mx("parse-endings-k2-parser-defaults-dom-arena-sublimit-4096", "--space", "parse", "--k", 2, "--plain", 1, "--domheap", 1),
                  _mx("parse-endings-k2-parser-defaults-dom-arena-sublimit-32", "--space", "parse", "--k", 2, "--plain", 1, "--domheap", 2), _mx("parse-endings-k1-parser-defaults-dom-arena-sublimit-eq-block", "--space", "parse", "--k", 1, "--plain", 1, "--domheap", 3),
                  _mx("grammar-pool-histories-depth4", "--space", "pool", "--depth", 4), _mx("grammar-pool-stale-parser-witness", "--space", "poolwitness")],
    ),
    manifest=dict(technique="exhaustive enumeration of parse endings (every callback index, every parseNext count) and of balanced Initialize/Terminate sequences on the real library with ledger memory managers",
                  text="Every ending within the stated bounds is executed; the ledger invariant is evaluated after each."),
)


# ------------------------------------------------------------------------------------------------ auto-registered specs
# Every module xv/cNN.py (or xv/cNN_*.py) exposing SPEC (and optionally PROPERTY) is registered under its property id.
def _autoload():
    import importlib, os, re
    here = os.path.dirname(os.path.abspath(__file__))
    for f in sorted(os.listdir(here)):
        m = re.match(r"^(c\d\d)(_\w+)?\.py$", f)
        if not m:
            continue
        mod = importlib.import_module("xv." + f[:-3])
        if hasattr(mod, "SPEC"):
            CHECKS[getattr(mod, "PROPERTY", m.group(1).upper())] = mod.SPEC
        if hasattr(mod, "NOT_APPLICABLE_REASON"):
            NOT_APPLICABLE[m.group(1).upper()] = mod.NOT_APPLICABLE_REASON


_autoload()
