"""Registry of property checks: which driver runs (sub-spaces) make up the quick and thorough tier of each property."""


def _sum(results, key):
    return sum(r.get("counters", {}).get(key, 0) for r in results)


CHECKS = {}
NOT_APPLICABLE = {}  # property -> reason, for properties deliberately not claimed

# ------------------------------------------------------------------------------------------------ C02
CHECKS["C02"] = dict(
    level="exploration",
    rule="Every word of length <= k over the listed document-token alphabet is one case (distinct by construction); each case is parsed by "
         "{SAX2,SAX1,progressive,DOM,DOMLS} x {IG,WF,DG,SG} x namespaces {off,on} and the fatal/no-fatal verdict is compared with expat 2.5 run on the "
         "same bytes in the matching namespace mode. Non-trivial = (document, namespace mode) pairs the reference classifies (well-formed or malformed) "
         "for which at least one Xerces configuration was compared; counted as ref_wellformed + ref_malformed.",
    trusted_base=["expat 2.5.0 as reference well-formedness oracle", "clang 14 ASan/UBSan"],
    assumptions=["DOCTYPE-bearing words are not claimed for WFXMLScanner/SGXMLScanner (documented to skip the DOCTYPE)",
                 "SGXMLScanner is only run with namespaces on (the schema scanner always performs namespace processing)",
                 "version='2.0' style declarations are not in the expat-compared alphabet (expat accepts any VersionNum)"],
    coverage=lambda rs: {"distinct_nontrivial": _sum(rs, "ref_wellformed") + _sum(rs, "ref_malformed"),
                         "parses": _sum(rs, "parses")},
    runs=dict(
        quick=[dict(name="s1-words-k3", driver="parsex", args=["--space", "s1", "--k", 3, "--content", 0])],
        thorough=[dict(name="s1-words-k3", driver="parsex", args=["--space", "s1", "--k", 3, "--content", 0]),
                  dict(name="s1-words-k4-small", driver="parsex", args=["--space", "s1", "--k", 4, "--tokens", "small", "--content", 0, "--apis", 6])],
    ),
)

# ------------------------------------------------------------------------------------------------ C03
CHECKS["C03"] = dict(
    level="exploration",
    rule="Same enumeration as C02; for every word the reference accepts, the complete event stream (elements, attributes, text, CDATA, comments, "
         "PIs, DOCTYPE, declarations, element line numbers) of every API/scanner is compared with expat's and pairwise between APIs. "
         "Non-trivial = well-formed (document, namespace mode) pairs whose content was compared (ref_wellformed).",
    trusted_base=["expat 2.5.0 as reference infoset oracle", "clang 14 ASan/UBSan"],
    assumptions=["SAX2 startDTD/endDTD are compared only when the DOCTYPE has an internal or external subset (documented 'DTD declarations, if any')",
                 "PIs/comments inside the DTD are not compared for SAX/SAX2 (not forwarded by design)"],
    coverage=lambda rs: {"distinct_nontrivial": _sum(rs, "ref_wellformed"), "content_comparisons": _sum(rs, "content_compared"),
                         "parses": _sum(rs, "parses")},
    runs=dict(
        quick=[dict(name="s1-words-k3", driver="parsex", args=["--space", "s1", "--k", 3])],
        thorough=[dict(name="s1-words-k3", driver="parsex", args=["--space", "s1", "--k", 3]),
                  dict(name="s1-words-k4-small", driver="parsex", args=["--space", "s1", "--k", 4, "--tokens", "small", "--apis", 6])],
    ),
)


# ------------------------------------------------------------------------------------------------ auto-registered specs
# Every module xv/cNN.py (or xv/cNN_*.py) exposing SPEC (and optionally PROPERTY) is registered under its property id.
def _autoload():
    import importlib, os, re
    here = os.path.dirname(os.path.abspath(__file__))
    for f in sorted(os.listdir(here)):
        m = re.match(r"^(c\d\d)(_\w+)?\.py$", f)
        if not m:
            continue
        mod = importlib.import_module("xv." + f[:-3])
        if hasattr(mod, "SPEC"):
            CHECKS[getattr(mod, "PROPERTY", m.group(1).upper())] = mod.SPEC
        if hasattr(mod, "NOT_APPLICABLE_REASON"):
            NOT_APPLICABLE[m.group(1).upper()] = mod.NOT_APPLICABLE_REASON


_autoload()
