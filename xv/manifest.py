"""Generates /verif/MANIFEST.json from the check registry (xv manifest)."""
import json, os
from .build import VERIF
from .checks import CHECKS, REVIEWED

ALL = ["C%02d" % i for i in range(1, 21)]

def generate():
    props = {}
    for l in open(os.path.join(VERIF, "properties.jsonl")):
        p = json.loads(l); props[p["id"]] = p
    checks = []
    for pid in ALL:
        if pid not in CHECKS or pid not in REVIEWED:
            continue
        s = CHECKS[pid]
        m = s.get("manifest", {})
        checks.append({
            "property_id": pid,
            "quick_cmd": "bin/xv check %s quick" % pid,
            "thorough_cmd": "bin/xv check %s thorough" % pid,
            "evidence_file": "/verif/evidence/%s.json" % pid,
            "replay_cmd_template": "bin/xv replay {path}",
            "engine": ",".join(sorted(set(r.get("driver", r.get("python", "?")) for t in s["runs"].values() for r in t))),
            "level_claimed": {"category": s["level"], "text": m.get("text", s["rule"]), "design_ref": m.get("design_ref", "DESIGN.md section 4, " + pid)},
            "level_note": m.get("note", "; ".join(s.get("trusted_base", []) + s.get("assumptions", []))),
            "technique": m.get("technique", "bounded-exhaustive enumeration of the stated input space executed on the real library under ASan/UBSan, compared with an independent reference"),
        })
    na = []
    from .checks import NOT_APPLICABLE
    for pid in ALL:
        if pid not in CHECKS or pid not in REVIEWED:
            na.append({"property_id": pid, "reason": NOT_APPLICABLE.get(pid, "check not built yet in this round (designed in DESIGN.md section 4; not claimed)")})
    man = {
        "version": 1,
        "setup_cmd": "bin/xv setup",
        "hooks": {
            "guard": "XERCES_VERIF_HOOKS",
            "enable": "checks configure /repo with cmake -DCMAKE_CXX_FLAGS='... -DXERCES_VERIF_HOOKS' into /verif/build/<flavor> (xv/build.py); all seams used so far are existing public statics (fgFileMgr, fgNetAccessor, fgMutexMgr, fgMemoryManager), so no source hook commit exists",
            "baseline_off_cmd": "cmake -G Ninja -S /repo -B /repo/_build && cmake --build /repo/_build && ctest --test-dir /repo/_build -j8 --timeout 900",
            "source_commits": [],
            "add_only": True,
        },
        "engines": [
            {"name": "xv_run", "path": "drv/xv_run.hpp", "kind_free_text": "sharded fork-isolated bounded-exhaustive case runner with crash pinning, watchdog, replay-twice confirmation"},
            {"name": "xv_xml", "path": "drv/xv_xml.hpp", "kind_free_text": "Xerces drivers for all APIs with canonical event dump, expat reference, VFS/net seam, plan streams"},
        ],
        "checks": checks,
        "not_applicable": na,
        "notes": "All checks rebuild the sanitizer flavors of the library incrementally from /repo's working tree (ninja) before running. Known findings: /verif/known_findings.json.",
    }
    json.dump(man, open(os.path.join(VERIF, "MANIFEST.json"), "w"), indent=1)
    return man
