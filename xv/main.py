"""Orchestration: run the registered sub-space runs of a property check, merge, apply known findings,
write evidence, emit VIOLATION / KNOWN-FINDING lines."""
import hashlib, json, os, re, subprocess, sys, time

from . import build
from .build import VERIF

# evidence/ and replays/ describe /repo's current tree; runs against another tree (VERIF_REPO=...) or with XV_SCRATCH=1 (a seeded change
# temporarily applied to /repo, a candidate fix) write theirs under build/alt/<key>/ instead
_ALT = None
if os.environ.get("XV_SCRATCH") or os.path.realpath(os.environ.get("VERIF_REPO", "/repo")) != "/repo":
    _ALT = os.path.join(VERIF, "build", "alt", os.environ.get("XV_SCRATCH") or hashlib.sha1(os.environ["VERIF_REPO"].encode()).hexdigest()[:8])
EVID = os.path.join(_ALT or VERIF, "evidence")
REPLAYS = os.path.join(_ALT or VERIF, "replays")
KF_FILE = os.path.join(VERIF, "known_findings.json")


def load_checks():
    from . import checks
    return checks.CHECKS


def load_kf():
    if not os.path.exists(KF_FILE):
        return []
    return json.load(open(KF_FILE))["findings"]


def kf_match(entry, prop, viol):
    """entry['match'] = {'kind': str (optional), 'fields': {name: substring,...} (optional), 'space': str (optional)}"""
    if entry.get("property") != prop or entry.get("status") != "known":
        return False
    m = entry.get("match", {})
    if "kind" in m and viol.get("kind") != m["kind"]:
        return False
    if "space" in m and viol.get("_space") != m["space"]:
        return False
    for k, sub in m.get("fields", {}).items():
        if sub not in json.dumps(viol.get(k, ""), ensure_ascii=True):
            return False
    return True


# Drivers count, instead of reporting, the cases that fall under the narrow predicate of a listed library defect ("known_defect:<id>" and the like),
# so that the rest of a space is explored.  Such a guard is only legitimate while the ledger lists the defect as known: once it is recorded as fixed
# (or is not listed at all) a hit means that the defect has returned - or that something else now matches its predicate - and must be reported.
GUARD_RE = re.compile(r"^(?:py_|proc:)?(?:known_defect(?:_hits|_skipped)?|skipped_known_defect):(.+)$")
GUARD_ALIASES = {("C07", "duplicate-notation-is-warning"): "duplicate-notation-declaration-only-warns"}


def _norm_defect_id(s):
    s = s.lower()
    s = re.sub(r"^c\d\d-", "", s)
    s = re.sub(r"^kd\d+-", "", s)
    return s


def guard_is_listed_known(prop, did, kfs):
    d = _norm_defect_id(did)
    d = GUARD_ALIASES.get((prop, d), d)
    for e in kfs:
        if e.get("status") == "known" and e.get("property") == prop and _norm_defect_id(e.get("id", "")) == d:
            return True
    return False


def run_driver(run, tier, seed, tmpdir):
    """run = dict(driver, flavor, args, name[, python]) -> result dict (driver JSON)"""
    flavor = run.get("flavor", "asan")
    env = dict(os.environ)
    env.update(build.SAN_ENV)
    env["VERIF_SEED"] = str(seed)
    env["VERIF_TIER"] = tier
    out = os.path.join(tmpdir, run["name"] + ".json")
    if os.path.exists(out):
        os.unlink(out)
    if "python" in run:  # python-side engine: module.function(run, tier, out) -> writes same JSON format
        mod, fn = run["python"].rsplit(".", 1)
        m = __import__("xv." + mod, fromlist=[fn])
        getattr(m, fn)(run, tier, out, env)
    else:
        exe = build.ensure_driver(run["driver"], flavor, run.get("extra_flags"), run.get("extra_srcs"), run.get("plain_c"))
        cmd = [exe] + [str(a) for a in run["args"]] + ["--out", out]
        if "workers" not in " ".join(cmd):
            cmd += ["--workers", str(run.get("workers", int(os.environ.get("XV_WORKERS", "10"))))]
        rc = subprocess.call(cmd, env=env, stdout=subprocess.DEVNULL if not os.environ.get("XV_VERBOSE") else None)
        if rc not in (0, 1):
            raise RuntimeError("driver %s exited with %d (harness error) cmd=%s" % (run["driver"], rc, " ".join(cmd)))
    res = json.load(open(out))
    res["_run"] = run
    return res


def write_replay(prop, run, viol):
    os.makedirs(os.path.join(REPLAYS, prop), exist_ok=True)
    body = {"property": prop, "driver": run.get("driver"), "flavor": run.get("flavor", "asan"), "args": [str(a) for a in run.get("args", [])],
            "python": run.get("python"), "space": run["name"], "extra_flags": run.get("extra_flags"), "extra_srcs": run.get("extra_srcs"), "plain_c": run.get("plain_c"), "case": viol.get("case"), "violation": viol}
    h = hashlib.sha1(json.dumps(body, sort_keys=True).encode()).hexdigest()[:16]
    path = os.path.join(REPLAYS, prop, h + ".json")
    json.dump(body, open(path, "w"), indent=1)
    return path


def check(prop, tier):
    checks = load_checks()
    if prop not in checks:
        print("unknown property", prop)
        return 2
    spec = checks[prop]
    seed = int(os.environ.get("VERIF_SEED", "0") or 0)
    t0 = time.time()
    os.makedirs(EVID, exist_ok=True)
    evid_path = os.path.join(EVID, prop + ".json")
    if os.path.exists(evid_path):
        os.unlink(evid_path)
    flavors = sorted(set(r.get("flavor", "asan") for r in spec["runs"][tier] if "driver" in r or r.get("needs_lib")))
    for fl in flavors:
        build.ensure_lib(fl)
    tmpdir = os.path.join(build.BUILD, "run", "%s-%s-%d" % (prop, tier, os.getpid()))
    os.makedirs(tmpdir, exist_ok=True)
    kfs = load_kf()
    results = []
    unmatched = []
    known_hits = {}
    deadline_hit = False
    for run in spec["runs"][tier]:
        res = run_driver(run, tier, seed, tmpdir)
        results.append(res)
        cnt = res.get("counters", {})
        listed = res.get("violations", [])
        total_v = cnt.get("violations", 0)
        n_known = 0
        for v in listed:
            v["_space"] = run["name"]
            hit = None
            for e in kfs:
                if kf_match(e, prop, v):
                    hit = e
                    break
            if hit:
                known_hits.setdefault(hit["id"], [hit, 0])[1] += 1
                n_known += 1
            else:
                unmatched.append((run, v))
        # Violations counted but not listed (the runner lists one record per (case, kind) and caps the list). The drivers count
        # violations per kind ("violations:<kind>"); a kind whose listed records are ALL known findings (and at least one is listed)
        # is a fully classified kind and its unlisted repetitions are attributed to the same findings. Any other remainder is of
        # unknown classification and is reported.
        extra = total_v - len(listed)
        if extra > 0 and len(listed) == n_known:
            per_kind_listed, per_kind_known = {}, {}
            for v in listed:
                k = v.get("kind")
                per_kind_listed[k] = per_kind_listed.get(k, 0) + 1
                if any(kf_match(e, prop, v) for e in kfs):
                    per_kind_known[k] = per_kind_known.get(k, 0) + 1
            unexplained = 0
            kinds_counted = {k[len("violations:"):]: n for k, n in cnt.items() if k.startswith("violations:")}
            if kinds_counted:
                for k, n in kinds_counted.items():
                    if n > per_kind_listed.get(k, 0) and not (per_kind_listed.get(k, 0) > 0 and per_kind_known.get(k, 0) == per_kind_listed.get(k, 0)):
                        unexplained += n - per_kind_listed.get(k, 0)
            elif len(listed) >= 40:
                unexplained = extra
            if unexplained > 0:
                unmatched.append((run, {"case": None, "kind": "unlisted-violations", "count": unexplained, "_space": run["name"]}))
        for key, n in sorted(cnt.items()):
            gm = GUARD_RE.match(key)
            if gm and n and not guard_is_listed_known(prop, gm.group(1), kfs):
                unmatched.append((run, {"case": None, "kind": "guard-of-repaired-defect-hit", "defect": gm.group(1), "count": n, "_space": run["name"],
                                        "explanation": "cases were skipped under the guard of a defect that known_findings.json does not list as known (repaired or never listed): "
                                                       "the defect has returned or something else matches its predicate; run the driver with its strict / witness option to see the cases"}))
        if cnt.get("deadline_skipped", 0):
            deadline_hit = True
    wall = time.time() - t0
    # ---- evidence
    cov = spec["coverage"](results) if "coverage" in spec else {}
    evaluations = sum(r.get("counters", {}).get("evaluations", 0) for r in results)
    samples = []
    for r in results:
        for s in r.get("samples", [])[:3]:
            samples.append({"space": r["_run"]["name"], "case": s})
    level = spec["level"]
    coverage = {"evaluations": evaluations, "rule": spec["rule"], "samples": samples[:12] or [{"note": "no samples emitted"}],
                "exhaustive": not deadline_hit,
                "subspaces": {r["_run"]["name"]: {"total": r.get("total"), "wall_s": r.get("wall_s"), "counters": r.get("counters"),
                                                   **{k: v for k, v in r.items() if k in ("alphabet", "k", "bounds", "depth", "nonvacuity", "configs")}}
                              for r in results},
                "deadline_hit": deadline_hit, "known_findings_matched": {k: v[1] for k, v in known_hits.items()},
                "trusted_base": spec.get("trusted_base", [])}
    coverage.update(cov)
    if "distinct_nontrivial" not in coverage:
        coverage["distinct_nontrivial"] = sum(r.get("counters", {}).get(spec.get("nontrivial_counter", "nontrivial"), 0) for r in results)
    evidence = {"property_id": prop, "tier": tier, "seed": seed, "level": level, "coverage": coverage,
                "assumptions": spec.get("assumptions", []), "wall_s": round(wall, 2), "violations": len(unmatched)}
    json.dump(evidence, open(evid_path, "w"), indent=1)
    # ---- verdict
    for kid, (e, n) in sorted(known_hits.items()):
        print("KNOWN-FINDING: property=%s %s (%s; %d matching cases this run)" % (prop, e["what"], kid, n))
    if unmatched:
        seen = 0
        for run, v in unmatched[:8]:
            path = write_replay(prop, run, v)
            print("VIOLATION property=%s replay=%s" % (prop, path))
            print("  detail: %s" % json.dumps(v)[:600])
            seen += 1
        if len(unmatched) > seen:
            print("  ... %d further violations (see driver output)" % (len(unmatched) - seen))
        return 1
    print("[xv] %s %s: OK  evaluations=%d distinct_nontrivial=%s wall=%.1fs exhaustive=%s" %
          (prop, tier, evaluations, coverage.get("distinct_nontrivial"), wall, not deadline_hit))
    return 0


def replay(path):
    body = json.load(open(path))
    if body.get("python"):
        mod, fn = body["python"].rsplit(".", 1)
        m = __import__("xv." + mod, fromlist=[fn])
        return getattr(m, "replay")(body)
    exe = build.ensure_driver(body["driver"], body.get("flavor", "asan"), body.get("extra_flags"), body.get("extra_srcs"), body.get("plain_c"))
    env = dict(os.environ)
    env.update(build.SAN_ENV)
    # a record without a case index (unlisted repetitions, guard-of-repaired-defect-hit) is replayed by running its whole sub-space again
    cmd = [exe] + body["args"] + (["--only", str(body["case"])] if body.get("case") is not None else [])
    print("$", " ".join(cmd))
    print("recorded:", json.dumps(body["violation"])[:1500])
    return subprocess.call(cmd, env=env)


def setup():
    checks = load_checks()
    flavors = set()
    drivers = set()
    from .checks import REVIEWED
    for pid, spec in checks.items():
        if pid not in REVIEWED:
            continue
        for tier in spec["runs"]:
            for r in spec["runs"][tier]:
                if "driver" in r:
                    flavors.add(r.get("flavor", "asan"))
                    drivers.add((r["driver"], r.get("flavor", "asan"), tuple(r.get("extra_flags") or ()), tuple(r.get("extra_srcs") or ()), tuple(r.get("plain_c") or ())))
    for fl in sorted(flavors):
        build.ensure_lib(fl)
    for d, fl, ef, es, pc in sorted(drivers):
        build.ensure_driver(d, fl, list(ef), list(es), list(pc))
        print("[xv] driver %s (%s) ready" % (d, fl), flush=True)
    return 0


def main(argv):
    if not argv:
        print(__doc__)
        return 2
    cmd = argv[0]
    if cmd == "setup":
        return setup()
    if cmd == "build":
        build.ensure_lib(argv[1] if len(argv) > 1 else "asan")
        return 0
    if cmd == "check":
        tier = argv[2] if len(argv) > 2 else os.environ.get("VERIF_TIER", "quick")
        return check(argv[1], tier)
    if cmd == "replay":
        return replay(argv[1])
    if cmd == "manifest":
        from . import manifest
        m = manifest.generate()
        print("MANIFEST.json written: %d checks, %d not_applicable" % (len(m["checks"]), len(m["not_applicable"])))
        return 0
    if cmd == "list":
        for k, v in sorted(load_checks().items()):
            print(k, v["level"], [r["name"] for r in v["runs"]["quick"]])
        return 0
    print("unknown command", cmd)
    return 2
