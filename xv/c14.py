"""C14 - live NodeLists / NamedNodeMaps / getElementsByTagName / getElementById / NodeIterator / TreeWalker / XPath snapshots /
Range stay consistent under mutation.  Explicit-state exploration (drv/c14_viewx.cpp) in lock-step with an independent reference
implementation of DOM Level 2 Traversal and Range (drv/c14_ref.hpp, drv/c14_apply.hpp)."""
from .checks import _sum

_FLAGS = ["-fno-access-control"]


def _explore(name, views, depth, alphabet="full"):
    return dict(name=name, driver="c14_viewx", extra_flags=_FLAGS,
                args=["--space", "explore", "--views", views, "--depth", depth, "--alphabet", alphabet])


_LONGTEXT = dict(name="range-content-ops-long-text", driver="c14_viewx", extra_flags=_FLAGS, args=["--space", "longtext"])
_IDTABLE4 = dict(name="id-table-forced-collisions-depth4", driver="c14_viewx", extra_flags=_FLAGS, args=["--space", "idtable", "--depth", 4])
_IDTABLE5 = dict(name="id-table-forced-collisions-depth5", driver="c14_viewx", extra_flags=_FLAGS, args=["--space", "idtable", "--depth", 5])
_WITNESSES = dict(name="known-defect-witnesses", driver="c14_viewx", extra_flags=_FLAGS, args=["--space", "witnesses"])


def _coverage(rs):
    ex = [r for r in rs if r.get("space", "").startswith("explore")]
    guarded = {}
    for r in rs:
        for k, v in r.get("counters", {}).items():
            if k.startswith("guarded:"):
                guarded[k[8:]] = guarded.get(k[8:], 0) + v
    return {
        # model_checking evidence
        "states": _sum(ex, "states"),
        "transitions": _sum(ex, "transitions"),
        "traces_validated_against_impl": _sum(ex, "transitions"),  # every explored transition is an execution of the library with the reference in lock-step
        "states_expanded": _sum(ex, "states_expanded"),
        # distinct, non-trivial = distinct explored states (canonical key) in which at least one view is live
        "distinct_nontrivial": _sum(ex, "states_with_live_view"),
        "nonvacuity": {
            "range_positions_compared_exactly": _sum(ex, "range_exact_checked"),
            "range_positions_adopted_(unspecified_cases)": _sum(ex, "range_adopted"),
            "range_invariant_checks": _sum(ex, "range_invariant_checked"),
            "range_moved_by_tree_or_text_mutation": _sum(ex, "range_moved_by_mutation"),
            "iterator_reference_node_fixups": _sum(ex, "iterator_fixups"),
            "transitions_with_node_removal": _sum(ex, "ops_with_removal"),
            "content_fragments_compared": _sum(ex, "fragments_compared"),
            "content_fragments_nonempty": _sum(ex, "fragments_nonempty"),
            "iterator_probes": _sum(ex, "probe_iter"), "walker_probes": _sum(ex, "probe_walker"),
            "walker_probe_moves": _sum(ex, "probe_walker_moved"), "walker_results_not_compared": _sum(ex, "walker_adopted") + _sum(ex, "probe_walker_outside_root"),
            "taglist_probes_nonempty": _sum(ex, "probe_taglist_nonempty"), "childnodes_probes": _sum(ex, "probe_childNodes"),
            "attrmap_probes_nonempty": _sum(ex, "probe_attrmap_nonempty"), "id_lookup_hits": _sum(ex, "id_lookup_hit"),
            "id_lookup_null": _sum(ex, "id_lookup_null"), "id_table_collision_histories": _sum(rs, "idtable_histories"), "id_table_lookups": _sum(rs, "id_lookups"), "xpath_snapshot_probes": _sum(ex, "probe_xpath"),
            "range_probes": _sum(ex, "probe_range"), "self_loops": _sum(ex, "transitions_selfloop"),
            "exception_outcomes": {k[4:]: sum(r.get("counters", {}).get(k, 0) for r in ex)
                                   for k in sorted(set(k for r in ex for k in r.get("counters", {}) if k.startswith("exc:")))},
        },
        "known_defect_guards": {"transitions_not_executed": guarded,
                                "active": {r["_run"]["name"]: r.get("bounds", {}).get("known_defects_guarded") for r in ex}},
    }


SPEC = dict(
    level="model_checking",
    rule="Breadth-first search by depth over operation histories on the universe doc -> r -> [a -> ['abcd'], 'xy', b] plus the detached tree "
         "a' -> ['z'] (a' has tag 'a').  A state is a history replayed from scratch on a fresh DOMDocument together with the live views the history "
         "created; states are merged on a canonical key = tree dump by node identity (document tree and every detached root, attribute values and ID flags) "
         "+ per view its configuration and its hidden state read with -fno-access-control (iterator fCurrentNode/fForward/fDetached, walker current node, "
         "deep node list cache fCurrentNode/fCurrentIndexPlus1/staleness, range boundary points and detached flag, XPath snapshot).  From every state ALL "
         "enabled operations are executed on the library and on the reference model in lock-step (one transition = one validated trace).  After every "
         "transition every live view is observed completely (iterator: full forward and backward enumeration; walker: all seven moves; lists: length, "
         "every item in both directions, one index past the end; attribute map as a set; getElementById for both values; XPath snapshot; range: toString, "
         "cloneContents, collapsed, commonAncestorContainer) with the hidden view state saved and restored, so observation is not a step.  "
         "Alphabet (full): creation of NodeIterator/TreeWalker(root in {doc,r} x whatToShow in {ALL,ELEMENT,TEXT} x filter in {none, reject 'a', skip 'a'}), "
         "getElementsByTagName('a'|'*'), r.childNodes, a.attributes, getElementById, XPath snapshot('.//a'|'*' on r), Range with 9 preset boundary pairs; "
         "appendChild/insertBefore/removeChild/replaceChild over every structurally legal (parent, child, ref) triple of live nodes incl. fragments, "
         "normalize; insertData/deleteData/replaceData/splitText/setNodeValue with an operand ladder on the first text node and a reduced one on the "
         "others; setAttribute/removeAttribute/setIdAttribute (only while an attribute map or id lookup is live); createElement/createTextNode (one per history); "
         "nextNode/previousNode/detach; walker parentNode/firstChild/lastChild/nextSibling/previousSibling/nextNode/previousNode/setCurrentNode(every node); "
         "getLength/item(0..2); Range setStart/setEnd over ALL boundary points of all live nodes (+ one offset past the end), collapse, selectNode, "
         "selectNodeContents, compareBoundaryPoints (4 modes, every pair of ranges), deleteContents, extractContents, cloneContents, insertNode, "
         "surroundContents, toString, cloneRange, detach.  Bounds: quick = all histories of depth <= 3 with at most one view (full alphabet); thorough = "
         "that plus depth <= 3 with at most two simultaneously live views (full alphabet) plus depth <= 4 with one view over the 'medium' alphabet (complete "
         "view alphabet, mutation operands reduced to the fixed list keep_reduced() in drv/c14_apply.hpp).  Both tiers add the deep, narrow 'traversal' alphabet "
         "(keep_traversal(): every NodeIterator/TreeWalker configuration, nextNode/previousNode and the seven walker moves, every removeChild, four "
         "re-insertions) to depth 6 (quick) / 8 (thorough): positions such as 'last movement was previousNode() and the reference node is the tail of the "
         "iteration' need creation + n x nextNode + previousNode + removal and are out of reach of depth 3/4.  distinct_nontrivial = distinct states (by key) "
         "with at least one live view.  The space 'id-table-forced-collisions' runs every history of <= 4 (thorough 5) operations {give element i its ID attribute, remove it, re-value it} over five "
         "elements whose ID strings are chosen with the public XMLString::hash so that they are FORCED to collide in the document's 997-slot double-hashing ID table (two on one "
         "probe sequence, one on their second probe, one on the third, one unrelated, one spare), with getElementById of every string compared after every step.  The space "
         "'range-content-ops-long-text' runs cloneContents / extractContents / deleteContents on ranges that start or end inside one Text node of "
         "length 10..12000 at every offset within 2 of 0, the middle, the end and of 3997..4002 from either end (the 4000-character internal buffers of "
         "DOMRangeImpl::traverseTextNode), expected strings by substring arithmetic.  The space 'known-defect-witnesses' executes the fixed witness history of each KNOWN_DEFECTS entry without guards.",
    trusted_base=["reference DOM L2 Traversal/Range model drv/c14_ref.hpp + drv/c14_apply.hpp (written from the recommendation text restated in DOMRange.hpp, "
                  "DOMNodeIterator.hpp, DOMTreeWalker.hpp; shares no code with Xerces)", "clang 14 ASan/UBSan"],
    assumptions=[
        "exact range positions are compared for child insertion/removal, removal of an ancestor of a container, insertData/deleteData/replaceData/splitText, "
        "and for the range's own setters and content operations; they are NOT compared (invariants only, reference adopts the observed position) after "
        "setNodeValue on a boundary container, after normalize, after selectNode of a character-data or parentless node, and for a boundary point that sits "
        "exactly between a Text node and its next sibling when that Text node is split (DOM L2 leaves it in front of the new node, later editions move it behind)",
        "TreeWalker results are compared only while the current node lies inside the root's subtree and not below a REJECTed ancestor (other positions are "
        "reachable only through setCurrentNode and the recommendation does not define navigation from them)",
        "content operations (delete/extract/surroundContents) are not executed on a Range that setStart/selectNode placed inside a parentless element "
        "subtree, and splitText is not executed on a parentless Text node holding a boundary point (DOM Range 2.2: the root container is a Document, "
        "DocumentFragment or Attr); surroundContents(document) is not executed (order of INVALID_NODE_TYPE_ERR / WRONG_DOCUMENT_ERR unspecified); operations the "
        "reference predicts to raise a hierarchy error after a partial mutation are not executed",
        "compareBoundaryPoints between ranges with different root containers is executed but its result is not compared",
        "NamedNodeMap order is not specified: the attribute map is compared as a set; getElementById may return any element carrying a matching ID "
        "attribute and must not return null while such an element is in the document",
        "structurally illegal tree operations (cycles, wrong child types, NOT_FOUND) are C13's subject and are not in this alphabet",
        "KNOWN_DEFECTS: while the witness of a listed genuine defect still fails, transitions that would trigger it (predicate on the reference model) are "
        "not executed and counted in known_defect_guards; the witnesses space keeps reporting those defects; when the library is fixed the guard disables itself",
    ],
    coverage=_coverage,
    runs=dict(
        quick=[_WITNESSES, _LONGTEXT, _IDTABLE4, _explore("one-view-depth3", 1, 3), _explore("traversal-depth6", 1, 6, "traversal")],
        thorough=[_WITNESSES, _LONGTEXT, _IDTABLE5, _explore("one-view-depth3", 1, 3), _explore("two-views-depth3", 2, 3), _explore("one-view-depth4-medium", 1, 4, "medium"),
                  _explore("traversal-depth8", 1, 8, "traversal")],
    ),
    manifest=dict(
        text="model checking: complete breadth-first exploration, with state merging, of all operation histories up to the stated depth that interleave tree/text "
             "mutations with creation, stepping and querying of live DOM views; every transition executed on the real library under ASan/UBSan and compared with an "
             "independent reference implementation of DOM L2 Traversal/Range (range invariants always, exact positions in the unambiguous cases, content operations "
             "node for node, live lists and iterators by complete enumeration in every state)",
        note="trusted base: the reference model in drv/c14_ref.hpp; oracle narrowings listed under assumptions; genuine defects are listed in KNOWN_DEFECTS "
             "(drv/c14_world.hpp) and reported by the witnesses space",
        technique="explicit-state BFS over operation histories with canonical-key deduplication, lock-step reference model, exhaustive per-state observation of all views"),
)
