"""C12 - DOMLSSerializer round trip / XMLFormatter escaping.  Driver: drv/c12_ser.cpp (+ drv/c12_model.hpp), notes: docs/c12.md."""
from .checks import _sum


def _sum_prefix(results, prefix):
    t = 0
    for r in results:
        for k, v in r.get("counters", {}).items():
            if k.startswith(prefix):
                t += v
    return t


def _coverage(rs):
    refused = _sum_prefix(rs, "refused_as_required:")
    fmt_nontrivial = _sum(rs, "escaped") + _sum(rs, "charref_for_unrepresentable") + _sum(rs, "replaced") + _sum(rs, "unrep_fail_thrown")
    return {
        # distinct (tree, output bytes) pairs that passed expat + Xerces re-parse + normalising comparison, plus (tree, configuration) pairs
        # whose inexpressible content was refused as required, plus formatter calls whose expected output is not the input itself
        "distinct_nontrivial": _sum(rs, "roundtrip_equal") + refused + fmt_nontrivial,
        "trees": _sum(rs, "trees"),
        "serializations": _sum(rs, "serializations"),
        "configs_fully_checked": _sum(rs, "configs_fully_checked"),
        "roundtrip_equal_distinct_outputs": _sum(rs, "roundtrip_equal"),
        "roundtrip_equal_modulo_cdata_split": _sum(rs, "roundtrip_equal_modulo_cdata_split"),
        "second_serialization_identical": _sum(rs, "second_serialization_identical"),
        "expat_checked": _sum(rs, "expat_checked"),
        "expat_content_compared": _sum(rs, "expat_content_compared"),
        "refused_as_required": refused,
        "outputs_with_charref": _sum(rs, "outputs_with_charref"),
        "unrepresentable_data_serialized": _sum(rs, "unrepresentable_data_serialized"),
        "bom_written": _sum(rs, "bom_written"),
        "warnings_reported": _sum(rs, "warnings_reported"),
        "formatter_calls": _sum(rs, "formatter_calls"),
        "known_defect_occurrences_skipped": _sum_prefix(rs, "known_defect:"),
        "narrowed_cases": _sum_prefix(rs, "narrowed:"),
    }


_K = ["--known", 1]
_T = ["--case-timeout", 120]   # a tree with 288 configurations takes ~0.1 s; the default 20 s watchdog fires spuriously at load averages > 100

SPEC = dict(
    level="exploration",
    rule="Trees: (parsed) every DOM obtained by parsing, with namespaces on and entity-reference nodes off/on, each well-formed word of length <= 3 over a "
         "51-token document alphabet (quick: k<=2 under all 288 configurations and k<=3 under the 90 core configurations; thorough: k<=3 under all 288) (elements, namespace declarations incl. xmlns='', attributes with escapes/char refs/non-ASCII, text tokens, CDATA, comments, "
         "PIs, XML declarations 1.0/1.1/standalone, four DOCTYPEs incl. internal subsets with entities, notations and a default attribute, entity references); "
         "(built) every tree built on an empty document or on a parsed DTD-bearing base document by <= n construction steps over {4 doctype forms, 6 element names "
         "(a, p:a bound, q:a unbound, default-ns a{ud}, U+00E9, p:b), UP, 4 attribute names (x, p:x, q:x, q:y in another namespace) x data, Text/CDATA/Comment/PI x data, "
         "EntityReference e} with a 4-string data list (n<=2: all 288 configurations; n<=3 over a 22-step 'mini' alphabet: 90 'core' configurations; "
         "thorough adds n<=3 over the full 46-step alphabet and n<=4 over the mini alphabet, both under the 18 default-feature configurations); (nsnest) every chain of depth <= 3 (thorough 4) of API-built elements {a, a{urn:a}, a{urn:b}, p:a{urn:a}, "
         "p:a{urn:b}} x attribute {none, p:x{urn:a}, p:x{urn:b}} without any xmlns attribute (90 core configurations): every declaration in the output comes from namespace fix-up, "
         "and a prefix / the default namespace is bound, re-bound further down and needed with the first binding again; (ladder; thorough all 600 trees, quick the 40 with N=16384, U+10000 or '&', Text or attribute value) <a> with one Text / attribute value / CDATA / Comment = filler^(N+off) + special + 'tail', N in {8192,16384,32768}, off in -3..+1, filler 'x' or U+00E9, special in "
         "{U+10000, U+20AC, '&', CR, ']]>'}: the interesting character at, before and behind the 16384-unit / 16384-byte block edges of XMLFormatter (600 trees x 18 default-feature configurations); "
         "(data) <a> holding one Text / CDATA / Comment / PI / attribute value / "
         "Text+CDATA+Text with every string of <= k symbols (k=2: 343 strings under all 288 configurations; thorough adds k=3: 6175 strings under the 90 core configurations) over {x < & > \" ' CR LF TAB ]]> ]] -- ?> U+00E9 U+20AC U+10000 U+0085 U+0001}. "
         "Configurations: 8 encodings {UTF-8, UTF-16, UTF-16BE, ISO-8859-1, US-ASCII, Windows-1252, IBM1140, ISO-8859-15} x {xml-declaration, split-cdata-sections, "
         "discard-default-content, byte-order-mark} on/off x XML 1.0/1.1 (setXmlVersion) for write() to a MemBufFormatTarget, and the 32 feature/version combinations for "
         "writeToString = 288. (params) each documented parameter name/value of DOMLSSerializer.hpp is accepted. (fmt) XMLFormatter directly: 8 encodings x 2 versions x 4 EscapeFlags x 3 UnRepFlags x 299 characters x 3 contexts. "
         "One case = one tree (all configurations inside) resp. one formatter configuration. Non-trivial = distinct (tree, output) pairs that passed all re-parse oracles + "
         "(tree, configuration) pairs refused as the reference requires + formatter calls with a non-identity expected output.",
    trusted_base=["expat 2.5.0 (well-formedness and content of the serializer output, for UTF-8/UTF-16/UTF-16BE/ISO-8859-1/US-ASCII)",
                  "ICU 72 converters (which characters an encoding can represent; decoding of the output)",
                  "XML 1.0 5th ed. / XML 1.1 2nd ed. productions [2] Char, RestrictedChar, 2.11 end-of-line handling (drv/c12_model.hpp)",
                  "Xerces-C XercesDOMParser for the re-parse (oracle 2 is a round trip through the library's own parser)",
                  "clang 14 ASan/UBSan"],
    assumptions=[
        "The serializer has no 'namespaces' parameter (canSetParameter/getParameterNames do not know it; fix-up is always on), so it is not a configuration dimension.",
        "Trees that needed namespace fix-up are compared modulo namespace-declaration attributes (namespace URI, local name and prefix of every element/attribute are compared); parsed trees are compared with them.",
        "Adjacent Text nodes and empty Text nodes cannot be expressed in XML: compared after merging/dropping; CDATA runs are compared by concatenated data only where the section had to be split.",
        "Literal CR (and NEL/LSEP in XML 1.1) inside comments, PIs and CDATA sections, and leading white space of PI data, cannot be expressed: compared after the parser's end-of-line normalisation; "
        "oracle 3 (byte-identical second serialisation) is not claimed for trees holding such detail.",
        "EntityReference nodes: only the reference is compared, not its children (documented: the expansion is ignored); a reference to an entity the document does not declare is documented to be "
        "written as &name; anyway - such trees are excluded from the re-parse oracles; expat content comparison is skipped for trees with EntityReference nodes.",
        "standalone travels in the XML declaration: compared only when xml-declaration is on; with xml-declaration off the encoding (and, for XML 1.1 documents holding C0/C1/NEL characters, the version) "
        "is external information: the encoding is supplied to the re-parse, the 1.1-specific cases are skipped.",
        "DOCTYPE public/system identifiers and internal subset: absent and empty are identified.",
        "expat is used for the five encodings it implements and not for XML 1.1 documents holding characters whose treatment differs from 1.0.",
        "XMLFormatter: the escape tables of AttrEscapes/CharEscapes in XMLFormatter.hpp are defective as documentation ('>' listed where '<' is meant, '<' omitted); the reference is what XML 1.0 2.3/2.4/3.3.3 "
        "requires of attribute values and character data. UnRep_Replace: any of SUB, '?', U+FFFD, once or twice for a surrogate pair.",
        "KNOWN_DEFECTS (drv/c12_ser.cpp): twelve genuine library defects found by this check are reported once each at a minimal witness (kind defect:<id>) and counted elsewhere, so that the rest of the "
        "space is explored; --known 0 reports every occurrence.",
    ],
    coverage=_coverage,
    runs=dict(
        # --deadline values only bound the wall time on an overloaded box (then exhaustive:false); on ~8 free cores every run completes well inside them.
        # --witness 0: known-defect witnesses of that run are already reported by another run of the same tier.
        quick=[
            dict(name="params", driver="c12_ser", args=["--space", "params"] + _K),
            dict(name="fmt", driver="c12_ser", args=["--space", "fmt"] + _K),
            dict(name="data-k2", driver="c12_ser", args=["--space", "data", "--k", 2, "--deadline", 45] + _T + _K),
            dict(name="parsed-k2-full", driver="c12_ser", args=["--space", "parsed", "--k", 2, "--deadline", 30] + _T + _K),
            dict(name="parsed-k3-core", driver="c12_ser", args=["--space", "parsed", "--k", 3, "--configs", "core", "--witness", 0, "--deadline", 75] + _T + _K),
            dict(name="built-n2-full", driver="c12_ser", args=["--space", "built", "--steps", 2, "--deadline", 45] + _T + _K),
            dict(name="built-n3-mini-core", driver="c12_ser", args=["--space", "built", "--steps", 3, "--dataset", "mini", "--configs", "core", "--witness", 0, "--deadline", 75] + _T + _K),
            dict(name="nsnest-d3-core", driver="c12_ser", args=["--space", "nsnest", "--steps", 3, "--configs", "core", "--witness", 0, "--deadline", 60] + _T + _K),
            dict(name="formatter-block-edge-ladder-subset", driver="c12_ser", args=["--space", "ladder", "--ladder", "quick", "--configs", "defaults", "--witness", 0, "--deadline", 120] + _T + _K),
        ],
        thorough=[
            dict(name="formatter-block-edge-ladder", driver="c12_ser", args=["--space", "ladder", "--configs", "defaults", "--witness", 0, "--deadline", 1500] + _T + _K),
            dict(name="nsnest-d4-core", driver="c12_ser", args=["--space", "nsnest", "--steps", 4, "--configs", "core", "--witness", 0, "--deadline", 600] + _T + _K),
            dict(name="params", driver="c12_ser", args=["--space", "params"] + _K),
            dict(name="fmt", driver="c12_ser", args=["--space", "fmt"] + _K),
            dict(name="data-k2", driver="c12_ser", args=["--space", "data", "--k", 2, "--deadline", 120] + _T + _K),
            dict(name="data-k3-core", driver="c12_ser", args=["--space", "data", "--k", 3, "--configs", "core", "--witness", 0, "--deadline", 240] + _T + _K),
            dict(name="parsed-k3", driver="c12_ser", args=["--space", "parsed", "--k", 3, "--deadline", 330] + _T + _K),
            dict(name="built-n2-full", driver="c12_ser", args=["--space", "built", "--steps", 2, "--deadline", 120] + _T + _K),
            dict(name="built-n3-mini-core", driver="c12_ser", args=["--space", "built", "--steps", 3, "--dataset", "mini", "--configs", "core", "--witness", 0, "--deadline", 120] + _T + _K),
            dict(name="built-n3-defaults", driver="c12_ser", args=["--space", "built", "--steps", 3, "--configs", "defaults", "--witness", 0, "--deadline", 240] + _T + _K),
            dict(name="built-n4-mini-defaults", driver="c12_ser", args=["--space", "built", "--steps", 4, "--dataset", "mini", "--configs", "defaults", "--witness", 0, "--deadline", 180] + _T + _K),
        ],
    ),
    manifest=dict(
        text="Bounded-exhaustive serializer round trip: every tree of the listed parsed/built/data spaces under every listed serializer configuration is serialized on the real library "
             "(ASan+UBSan); the output must be well-formed for expat with the same content, re-parse with Xerces to an equal tree under a documented normalising comparison, serialize again "
             "to the same bytes, carry unrepresentable characters as references, and inexpressible content must be refused with a report. XMLFormatter is checked character by character "
             "against the XML-required escapes per mode.",
        note="Trusted: expat 2.5, ICU 72 converter tables, the XML 1.0/1.1 character productions, Xerces' own parser for the re-parse. Twelve library defects are pinned as KNOWN_DEFECTS witnesses.",
        technique="bounded-exhaustive enumeration of DOM trees x serializer configurations against an expat/ICU/XML-production reference and metamorphic round trip"),
)
