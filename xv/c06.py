"""C06 - namespace processing: every name is bound to the namespace the declarations in scope imply.

Driver: drv/c06_ns.cpp (+ drv/c06_model.hpp: the independent scoping stack and the DOM L3 Appendix B lookup algorithms).
Notes: docs/c06.md."""
from .checks import _sum, _px


def _ns(name, *args, **kw):
    return dict(name=name, driver="c06_ns", args=list(args), **kw)


def _prefixed(results, prefix):
    out = {}
    for r in results:
        for k, v in r.get("counters", {}).items():
            if k.startswith(prefix):
                out[k[len(prefix):]] = out.get(k[len(prefix):], 0) + v
    return out


def _coverage(rs):
    docs = _sum(rs, "model_ok") + _sum(rs, "model_error")
    return {
        # every (document, XML version) pair is distinct by construction and classified by the model (and by expat for XML 1.0);
        # every legal builder program is a distinct operation sequence whose tree was walked with all lookups
        "distinct_nontrivial": docs + _sum(rs, "builder_programs_checked") + _sum(rs, "ref_wellformed") + _sum(rs, "ref_malformed"),
        "parses": _sum(rs, "parses"),
        "nonvacuity": {
            "documents_namespace_wellformed": _sum(rs, "model_ok"),
            "documents_with_namespace_error": _sum(rs, "model_error"),
            "documents_with_exactly_one_error_cause": _sum(rs, "model_error_single_cause"),
            "error_cause_alone": _prefixed(rs, "model_err_alone:"),
            "xml11_documents": _sum(rs, "docs_xml11"),
            "xml11_wellformed_with_prefix_undeclaration": _sum(rs, "xml11_undeclaration_wellformed"),
            "expat_agreed_on_content": _sum(rs, "expat_content_agrees"),
            "expat_rejected": _sum(rs, "expat_error"),
            "event_streams_or_trees_compared": _sum(rs, "content_compared"),
            "errors_reported_as_expected": _sum(rs, "errors_reported_as_expected"),
            "dom_trees_walked": _sum(rs, "dom_trees_walked"),
            "dom_nodes_checked": _sum(rs, "dom_nodes_checked"),
            "lookupNamespaceURI_calls": _sum(rs, "lookupNamespaceURI_calls"),
            "lookupNamespaceURI_nonnull": _sum(rs, "lookupNamespaceURI_nonnull"),
            "lookupNamespaceURI_empty_string_where_reference_says_null": _sum(rs, "lookupNamespaceURI_empty_string_for_null"),
            "lookupPrefix_calls": _sum(rs, "lookupPrefix_calls"),
            "lookupPrefix_nonnull": _sum(rs, "lookupPrefix_nonnull"),
            "lookupPrefix_several_acceptable": _sum(rs, "lookupPrefix_several_acceptable"),
            "isDefaultNamespace_calls": _sum(rs, "isDefaultNamespace_calls"),
            "isDefaultNamespace_true": _sum(rs, "isDefaultNamespace_true"),
            "builder_programs_checked": _sum(rs, "builder_programs_checked"),
            "builder_programs_with_inapplicable_step": _sum(rs, "builder_programs_with_inapplicable_step"),
            "dtd_rich_documents_vs_expat_ns_mode": _sum(rs, "ref_wellformed") + _sum(rs, "ref_malformed"),
            "known_defect_hits_skipped_outside_witness_space": _prefixed(rs, "known_defect_hits:"),
        },
    }


SPEC = dict(
    level="exploration",
    rule="Documents are trees of elements, each element an independent choice of a SHAPE = element prefix {none,p,q,xml,xmlns,undeclared r} x a subset (pairwise "
         "distinct attribute names) of the 15 declarations {xmlns=u1|u2|''|XML-URI|XMLNS-URI, xmlns:p=u1|u2|''|XML-URI|XMLNS-URI, xmlns:q=u1, xmlns:xml=XML-URI|u1, "
         "xmlns:xmlns=XMLNS-URI|u1} x an attribute set over {x, p:x, q:x, xml:x, r:x, xmlns:s='v', p:y} x a placement (attributes after / before / around the "
         "declarations). Shape alphabets: full = 6 prefixes x all <=2-declaration subsets x 17 attribute sets (<=2 attributes) x <=3 placements (25386); mid2 = <=2 "
         "declarations x <=1 attribute x 2 placements (7686); mid = <=1 declaration x <=1 attribute x 2 placements (1212); leaf (588), small (63); env = all 32 "
         "error-free root environments with <=3 declarations (envs/env6/env4: 12/6/4 of them). Spaces, each the complete product of its alphabets: one = a single "
         "element x {empty-element tag, start/end tag}; two = root x child, the child rendered twice (as <b/> and <b>t</b>); three = root x middle x leaf (leaf twice); "
         "sib = root x first child (declaration) x {empty, text} x following sibling (usage) for scope leaks; ladder = 15..73 prefix declarations on one element, along "
         "a nesting chain of the same depth and root/child combinations (prefix-map growth 16,20,25,31,38,47,58,72; element stack 32; SAX2 prefix stacks 30/10) and 31..130 "
         "attributes with an expanded-name collision at (first,last)/(first,second)/(middle,last)/(last two)/(first,middle) (hashed duplicate check above 100). A document that "
         "contains xmlns:p='' is run as XML 1.0 (error) and as XML 1.1 (un-declaration); the small spaces are run completely in both versions. quick: depth <= 2; thorough: depth <= 3. "
         "Every document x version is parsed by {SAX2 namespace-prefixes on, SAX2 off, SAX1+namespaces, DOM, DOMLS} x {IG, WF, DG, SG} and compared with (1) an independent "
         "scoping-stack model (verdict by construction; expanded name of every element and attribute; startPrefixMapping in document order before startElement, "
         "endPrefixMapping in reverse order after endElement; xmlns attributes present iff namespace-prefixes / SAX1 / DOM) which itself must agree with (2) expat 2.5 in "
         "namespace mode on every XML 1.0 document (verdict and events), and (3) on every node of every XercesDOMParser tree: nodeName/namespaceURI/prefix/localName/value and "
         "lookupNamespaceURI x {null,p,q,r,s,xml,xmlns}, lookupPrefix / isDefaultNamespace x {null,'',u1,u2,v,XML-URI,XMLNS-URI} against the DOM L3 Core Appendix B "
         "algorithms re-implemented over a reference tree. build = every sequence of <= k operations from a 24-operation alphabet (createElementNS / createElement / "
         "setAttributeNS incl. xmlns declarations / setAttribute / text / cursor-up / setPrefix) on an empty DOMDocument, same node and lookup checks, no parser involved "
         "(k=3 quick, 4 thorough). witness = the minimal repro of every entry of the driver's KNOWN_DEFECTS list, checked strictly. Plans (part = space:alphabets, ':v11' = all "
         "documents also as XML 1.1): quick = witness, one:mid, one:small:v11, one:attr2, two:env6:mid, two:env:use2, sib:env4:decl1:use, ladder:quick, build:3; thorough = witness, "
         "one:full, two:env:mid, two:env:use2, two:env4:mid2, two:envs:small:v11, three:env6:midmod:leaf, sib:env6:decl1:use, ladder:full, build:4. Non-trivial = (document, version) "
         "pairs classified by the model + legal builder programs. dtd-defaulted-declarations = the DTD-rich structured space of drv/parsex.cpp (12 prologs x 5 root "
         "attribute variants x words <= k over 40 content items, k=1 quick / 2 thorough), one prolog of which declares xmlns / xmlns:p through ATTLIST defaults and #FIXED "
         "values that the instance overrides (root variant xmlns:p='urn:doc' p:a='1') or relies on (<p:k p:b='2'>, <c/> with a defaulted xmlns): verdict and expanded names of every "
         "API x scanner configuration against expat in namespace mode.",
    trusted_base=["expat 2.5.0 (namespace mode, Namespaces 1.0) as second oracle for XML 1.0 documents", "drv/c06_model.hpp (scoping stack, Appendix B)", "clang 14 ASan+UBSan"],
    assumptions=[
        "XML 1.1 documents (prefix un-declaration) are judged by the scoping-stack model only: expat implements Namespaces 1.0",
        "namespace URI reported by SAX2 for xmlns* attributes (namespace-prefixes on) is not compared: SAX2 leaves it to the xmlns-uris feature; DOM must use http://www.w3.org/2000/xmlns/ (compared)",
        "lookupNamespaceURI: a returned empty string is accepted where Appendix B says null (DOM L3 Core 1.3.3: an empty namespace URI and null are the same thing); counted as "
        "lookupNamespaceURI_empty_string_where_reference_says_null",
        "lookupNamespaceURI('') (empty, non-null prefix) is executed but not compared: the interface only defines null and real prefixes",
        "lookupPrefix: when several declaration attributes of the same element qualify, any of them is accepted (NamedNodeMap order; the interface text says 'implementation dependent'); "
        "the element's own prefix first and nearest-element-first are enforced as in Appendix B",
        "endPrefixMapping in exact reverse order of startPrefixMapping is what the check expects (stricter than SAX2's 'order not guaranteed'; it is what the assignment asks and what both "
        "Xerces and expat do)",
        "builder programs that put a DOM Level 1 and a namespace-aware attribute of the same nodeName on one element are skipped (documented as unpredictable mixing)",
        "discrepancies matching the driver's KNOWN_DEFECTS predicates are counted (known_defect_hits) instead of raised in the enumeration spaces; the witness space checks one minimal "
        "repro per defect strictly, so the check fails until each is fixed in /repo or listed in known_findings.json (match on the violation field 'defect')",
    ],
    coverage=_coverage,
    # One driver process per tier runs the whole plan (comma-separated parts; part syntax in drv/c06_ns.cpp: make_part): starting a
    # sanitized process costs 10-20 s on this box, and one case range balances the workers better.  Per-part case counts are the
    # counters "cases:<part>"; alphabet sizes are under bounds.parts in the evidence.
    runs=dict(
        quick=[_ns("quick-plan-depth2", "--space", "multi", "--parts",
                   "witness,one:mid,one:small:v11,one:attr2,two:env6:mid,two:env:use2,sib:env4:decl1:use,ladder:quick,build:3"),
               _px("dtd-defaulted-declarations", "--space", "s4", "--k", 1)],
        thorough=[_ns("thorough-plan-depth3", "--space", "multi", "--parts",
                      "witness,one:full,two:env:mid,two:env:use2,two:env4:mid2,two:envs:small:v11,three:env6:midmod:leaf,sib:env6:decl1:use,ladder:full,build:4"),
                  _px("dtd-defaulted-declarations", "--space", "s4", "--k", 2)],
    ),
    manifest=dict(
        text="Every document of the stated shape products (depth <= 2 quick / <= 3 thorough), the map-growth and >100-attribute ladders and every DOM builder program <= k steps is "
             "executed on the real library under all 20 API x scanner configurations and must agree with an independent scoping-stack model, with expat in namespace mode, and "
             "with the DOM L3 Appendix B lookup algorithms on every node.",
        note="trusted: expat 2.5.0, the ~150-line reference model; XML 1.1 un-declaration judged by construction only; see assumptions",
        technique="bounded-exhaustive enumeration of namespace-declaration/usage shape products, ladders and DOM builder programs against a reference scoping stack, expat (NS mode) and "
                  "re-implemented DOM L3 Appendix B lookups"),
)
