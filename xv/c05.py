"""C05 - transcoders and encoding detection decode every supported encoding exactly.

Drivers: drv/c05_xcode.cpp (transcoder API level), drv/c05_docs.cpp (document level), shared drv/c05_ref.hpp + drv/c05_enc.hpp.
Python side (run_pycodecs): the intrinsic single-byte tables dumped by the C++ driver are compared with Python's codecs, a second
reference that shares nothing with either Xerces or ICU."""
import codecs, json, os, subprocess, sys

from .checks import _sum
from . import build


def _sumprefix(results, prefix):
    t = 0
    for r in results:
        for k, v in r.get("counters", {}).items():
            if k.startswith(prefix):
                t += v
    return t


def _coverage(rs):
    known = {}
    for r in rs:
        for k, v in r.get("counters", {}).items():
            if k.startswith("known_defect:"):
                known[k[13:]] = known.get(k[13:], 0) + v
    parts = {
        # byte strings that are not plain ASCII: rejected, deferred (incomplete), or well-formed with a multi-byte sequence
        "utf8_nontrivial_strings": _sum(rs, "rejected") + _sum(rs, "decoded+deferred-incomplete") + _sum(rs, "deferred-illformed-short") + _sum(rs, "wellformed_with_multibyte"),
        "utf8_strings_total": _sum(rs, "strings"),
        "scalar_x_encoding_encoded": _sum(rs, "encoded_ok"),
        "scalar_x_encoding_reported_unrepresentable": _sumprefix(rs, "unrepresentable_reported:"),
        "encode_block_variants": _sum(rs, "srcblock_variants_ok") + _sum(rs, "outblock_variants_ok"),
        "utf16_unit_pairs": _sum(rs, "utf16_pairs_decoded") // 2,
        "ucs4_values": _sum(rs, "ucs4_decoded_bmp") + _sum(rs, "ucs4_decoded_supplementary") + _sumprefix(rs, "ucs4_rejected:") + known.get("ucs4-out-of-range-decoded", 0) + known.get("ucs4-surrogate-decoded", 0),
        "single_byte_page_entries": _sum(rs, "sbcs_byte_decoded") + _sum(rs, "sbcs_undefined_byte_rejected") + _sum(rs, "py_bytes_compared"),
        "multibyte_sequences": _sumprefix(rs, "mbcs:") + known.get("icu-illegal-input-substituted", 0),
        "split_streams_cut_inside_character": _sum(rs, "split_streams_cut_inside_character"),
        "split_streams_total": _sum(rs, "split_streams_ok"),
        "document_variants_equal_to_baseline": _sum(rs, "legal_variants_equal_to_baseline"),
        "contradictory_declarations_reported": _sum(rs, "contradiction_reported_fatal") + _sum(rs, "contradiction_reported_content_kept"),
        "illegal_sequences_in_documents_rejected": _sum(rs, "bad_sequence_rejected"),
        "utf16_document_pairs": _sumprefix(rs, "surr_"),
    }
    nontrivial = (parts["utf8_nontrivial_strings"] + parts["scalar_x_encoding_encoded"] + parts["scalar_x_encoding_reported_unrepresentable"] + parts["utf16_unit_pairs"] +
                  parts["ucs4_values"] + parts["single_byte_page_entries"] + parts["multibyte_sequences"] + parts["split_streams_cut_inside_character"] +
                  parts["document_variants_equal_to_baseline"] + parts["contradictory_declarations_reported"] + parts["illegal_sequences_in_documents_rejected"] +
                  parts["utf16_document_pairs"])
    parts["distinct_nontrivial"] = nontrivial
    parts["known_defect_hits"] = known
    return parts


# ---------------------------------------------------------------------------------------------- python-side reference (codecs)
PY_CODECS = {"ISO-8859-1": "latin_1", "US-ASCII": "ascii", "WINDOWS-1252": "cp1252", "IBM037": "cp037", "IBM1140": "cp1140"}
# bytes Windows-1252 leaves undefined: Xerces (like ICU and the WHATWG/Microsoft "best fit" table) maps them to the C1 controls of the
# same value, Python rejects them.  The references disagree among themselves, so either answer is accepted there (DESIGN C05 narrowing).
CP1252_UNDEFINED = {0x81, 0x8D, 0x8F, 0x90, 0x9D}


def _compare_tables(dump):
    counters = {"py_bytes_compared": 0, "py_bytes_undefined_in_python_accepted": 0, "py_encode_entries_compared": 0, "py_known_defect:table-fallback-mapping": 0,
                "py_known_defect:table-nul-unrepresentable": 0}
    viol = []
    for enc, t in dump["tables"].items():
        codec = PY_CODECS.get(enc)
        if not codec:
            continue
        for b in range(256):
            x = t["decode"][b]   # code unit or -1 (exception)
            try:
                want = ord(bytes([b]).decode(codec))
            except UnicodeDecodeError:
                want = -1
            if want == -1 and enc == "WINDOWS-1252" and b in CP1252_UNDEFINED and x in (b, -1):
                counters["py_bytes_undefined_in_python_accepted"] += 1
                continue
            counters["py_bytes_compared"] += 1
            if x != want:
                viol.append({"case": len(viol), "kind": "py-decode-table", "encoding": enc, "byte": "%02X" % b, "expected": "%04X" % want if want >= 0 else "reject",
                             "observed": "%04X" % x if x >= 0 else "exception"})
        enc_map = {int(k): v for k, v in t["encode"].items()}   # cp -> byte for every BMP code point Xerces says it can transcode
        for cp in range(0x10000):
            if 0xD800 <= cp <= 0xDFFF:
                continue
            try:
                wb = chr(cp).encode(codec)[0]
            except UnicodeEncodeError:
                wb = None
            if wb is None and enc == "WINDOWS-1252" and cp in CP1252_UNDEFINED:
                continue
            xb = enc_map.get(cp)
            counters["py_encode_entries_compared"] += 1
            if xb == wb:
                continue
            if cp == 0 and xb is None and enc not in ("ISO-8859-1", "US-ASCII"):
                counters["py_known_defect:table-nul-unrepresentable"] += 1
                continue
            if wb is None and xb is not None and enc not in ("ISO-8859-1", "US-ASCII"):
                # one-way best-fit mapping (known defect): the byte must decode to a different character
                if t["decode"][xb] != cp:
                    counters["py_known_defect:table-fallback-mapping"] += 1
                    continue
            viol.append({"case": len(viol), "kind": "py-encode-table", "encoding": enc, "cp": "U+%04X" % cp, "expected": None if wb is None else "%02X" % wb,
                         "observed": None if xb is None else "%02X" % xb})
    return counters, viol


def run_pycodecs(run, tier, out_path, env):
    exe = build.ensure_driver("c05_xcode", run.get("flavor", "asan"))
    dump_path = out_path + ".dump"
    rc = subprocess.call([exe, "--space", "dumptables", "--dump", dump_path], env=env, stdout=subprocess.DEVNULL)
    if rc != 0:
        raise RuntimeError("c05_xcode --space dumptables exited with %d" % rc)
    dump = json.load(open(dump_path))
    os.unlink(dump_path)
    counters, viol = _compare_tables(dump)
    counters["evaluations"] = len([e for e in dump["tables"] if e in PY_CODECS])
    counters["violations"] = len(viol)
    json.dump({"space": run["name"], "total": counters["evaluations"], "wall_s": 0, "counters": counters, "violations": viol[:60],
               "samples": [{"python": sys.version.split()[0], "codecs": PY_CODECS}]}, open(out_path, "w"))


def replay(body):
    env = dict(os.environ)
    env.update(build.SAN_ENV)
    out = "/verif/build/run/c05-pycodecs-replay.json"
    run_pycodecs({"name": "pycodecs"}, "quick", out, env)
    r = json.load(open(out))
    for v in r["violations"]:
        print("  violation:", json.dumps(v))
    print("  violations=%d" % r["counters"]["violations"])
    return 1 if r["counters"]["violations"] else 0


# ---------------------------------------------------------------------------------------------- runs
X = "c05_xcode"
DOC = "c05_docs"


def _x(name, *args, **kw):
    return dict(name=name, driver=X, args=list(args), **kw)


def _d(name, *args, **kw):
    return dict(name=name, driver=DOC, args=list(args), **kw)


WITNESSES = [
    _x("witness-known-defects", "--space", "witness"),
    _x("witness-icu-unrepresentable-overread", "--space", "overread"),
    _d("witness-ucs4-bom-shift-overread", "--space", "ucs4bom"),
    _d("witness-contradictory-endian-decl-misaligned-read", "--space", "misaligned"),
]

SPEC = dict(
    level="exploration",
    rule="Transcoder level (public API makeNewTranscoderFor -> transcodeFrom/transcodeTo/canTranscodeTo, TranscodeFromStr/ToStr), each item one distinct case: "
         "(1) UTF-8 decode: every byte string of length <= 2, every 3-byte string (thorough: all 2^24; quick: first byte C0..FF or one of 00,41,7F,80,BF, all second and third bytes: 69 x 65536) plus, quick: every 4-byte string over the 32 boundary bytes of Unicode Table 3-7 (32^4) and every 4-byte "
         "string with first byte F0/F1/F4/F5 and second byte from 6 boundary values (24 x 65536); every string of length 2..4 over those 32 boundary bytes whose first byte is >= 80, placed behind 31, 32, 33 and 40 ASCII characters in the same call (3.9 M strings; a deferred error must be raised by the next call); thorough: every 4-byte string whose first byte is C0..FF (2^30) or one of "
         "00,41,7F,80,BF (5 x 2^24); compared (units, bytesEaten, charSizes, exception) with a hand-written 9-state Table 3-7 DFA. "
         "(2) encode: EVERY Unicode scalar value (1,112,064) x 22 encodings: canTranscodeTo, transcodeTo (throw and replacement mode), decode(encode(c))==c, source blocks of 1..8 units "
         "ending inside the surrogate pair, output blocks of 1..8 bytes (quick: block variants and exception mode for every BMP code point and every 16th/64th supplementary one; thorough: all); reference = arithmetic for UTF-8/16/32, ICU ucnv (STOP callbacks, no fallbacks, round trip required) for code pages. "
         "(3) UTF-16LE/BE: 32 (quick) / all 65536 (thorough) first units x ALL 65536 second units, odd byte counts, output blocks 1..8. "
         "(4) UCS-4LE/BE: one call per 32-bit value: every value < 0x120000 (quick) / < 0x1000000 (thorough) plus the byte-class^4 product (20 classes quick, 91 thorough). "
         "(5) every byte of 11 single-byte encodings and 52 alias spellings; every 1- and 2-byte (and incomplete-prefix 3/4-byte) sequence of 6 ICU multi-byte encodings. "
         "(6) split: every word of length <= 3 (quick) / 4 (thorough) over 8 characters (1..4 bytes, BMP and supplementary) x 22 encodings x every split offset x every maxChars, every "
         "prefix through TranscodeFromStr, TranscodeToStr, source blocks 1..4 x output blocks 1..8. "
         "Tiny external entities: external general entities and external DTD subsets whose whole payload is 1..8 characters (12 payloads incl. one supplementary character and blanks) "
         "in UTF-8 / UTF-16LE / UTF-16BE / UCS-4LE / UCS-4BE, without (UTF-8) and with byte-order mark: content equal to the inline form (the document entity can never be that short). "
         "Document level: 22 documents (two larger than every reader buffer) x 22 encodings x BOM {absent,present} x declaration {absent, canonical, alias spellings, generic family name, "
         "contradictory family} -> SAX2 dump equal to the UTF-8 baseline dump or fatal; legal variants must succeed; contradictions must be reported; 49 illegal/over-long/surrogate/"
         "out-of-range sequences x 8 syntactic positions plus 19 truncated tails at end of input must be fatal; UTF-16 documents whose text is a unit pair (18 first units x 182 / 65536 second units x LE/BE). "
         "Non-trivial = cases that are not plain ASCII pass-through (see coverage parts).",
    trusted_base=["hand-written Unicode Table 3-7 DFA and UTF-16/UTF-32 arithmetic (drv/c05_ref.hpp)", "ICU 72 ucnv_* called directly as code-page reference (independent of Xerces' intrinsic "
                  "tables; for ICU-provided encodings it is independent of Xerces' ICUTranscoder wrapper, not of the mapping tables)", "Python 3.11 codecs (latin_1, ascii, cp1252, cp037, cp1140) as "
                  "second table reference", "clang 14 ASan/UBSan; g++ 12 -O2 ('fast' flavor) only for the 10^9-case UTF-8 and UTF-16 enumerations of the thorough tier, 1/256 slice repeated under asan"],
    assumptions=[
        "encoder input is well-formed UTF-16 (unpaired surrogates are not code points an encoder must map)",
        "UTF-16 transcoder level is a unit copy (XMLCh is the UTF-16 code unit): rejection of unpaired surrogates is checked where it happens, in the scanner (spaces surr and bad)",
        "a decoder may defer (consume nothing, no exception) an already ill-formed sequence while fewer bytes are available than its lead byte announces, and may stop in front of an "
        "ill-formed sequence after having produced characters; XMLReader then supplies more bytes or reports Trans_BadSrcSeq at end of input (checked in space bad, position end-of-input)",
        "maxChars=1 in front of a supplementary character legitimately yields no progress; the streaming harness then offers 2 slots",
        "Windows-1252 bytes 81 8D 8F 90 9D: ICU and Xerces map them to C1 controls, Python rejects them; either is accepted (references disagree among themselves)",
        "private-use code points with an ICU vendor one-way mapping (e.g. U+F86F in Shift_JIS): ICU always applies it; accepted, counted as pua_vendor_oneway_mapping_accepted",
        "charSizes of a surrogate pair produced by the ICU wrapper are compared per character (sum), the API text does not say which unit carries the count",
        "ICU-provided encodings: a listed 11 (ISO-8859-2/15, KOI8-R, windows-1251, IBM500, Shift_JIS, EUC-JP, GB2312, Big5, EUC-KR, GB18030), stateful ones (ISO-2022-*, UTF-7) excluded",
        "KNOWN_DEFECTS (drv/c05_ref.hpp): cases whose behaviour is exactly a listed genuine defect are counted as known_defect:<id> in the large spaces and reported once each by the witness runs",
    ],
    coverage=_coverage,
    runs=dict(
        quick=[
            _x("utf8-decode", "--space", "utf8dec", "--mode", "quick"),
            _x("utf8-decode-after-decoded-characters", "--space", "utf8dec", "--mode", "padded"),
            _x("encode-every-scalar", "--space", "enc", "--encs", "all", "--thin", 16),
            _x("utf16-unit-pairs", "--space", "utf16", "--mode", "quick"),
            _x("ucs4-values", "--space", "ucs4", "--mode", "quick"),
            _x("single-byte-pages", "--space", "sbcs"),
            dict(name="single-byte-pages-python-codecs", python="c05.run_pycodecs", needs_lib=True),
            _x("icu-multibyte-sequences", "--space", "mbcs"),
            _x("split-streams", "--space", "split", "--k", 3),
            _d("documents", "--space", "docs", "--mode", "quick"),
            _d("tiny-external-entities", "--space", "tinyent"),
            _d("illegal-sequences-in-documents", "--space", "bad"),
            _d("utf16-document-pairs", "--space", "surr", "--mode", "quick"),
        ] + WITNESSES,
        thorough=[
            _x("utf8-decode-2^30", "--space", "utf8dec", "--mode", "thorough", flavor="fast"),
            _x("utf8-decode-asan-slice", "--space", "utf8dec", "--mode", "slice4", "--slice", 128),
            _x("utf8-decode-asan-quick", "--space", "utf8dec", "--mode", "quick"),
            _x("utf8-decode-after-decoded-characters", "--space", "utf8dec", "--mode", "padded"),
            _x("encode-every-scalar", "--space", "enc", "--encs", "all", "--thin", 1),
            _x("utf16-all-unit-pairs", "--space", "utf16", "--mode", "thorough", flavor="fast"),
            _x("utf16-unit-pairs-asan", "--space", "utf16", "--mode", "quick"),
            _x("ucs4-values", "--space", "ucs4", "--mode", "thorough"),
            _x("single-byte-pages", "--space", "sbcs"),
            dict(name="single-byte-pages-python-codecs", python="c05.run_pycodecs", needs_lib=True),
            _x("icu-multibyte-sequences", "--space", "mbcs"),
            _x("split-streams-k4", "--space", "split", "--k", 4),
            _d("documents", "--space", "docs", "--mode", "thorough"),
            _d("tiny-external-entities", "--space", "tinyent"),
            _d("illegal-sequences-in-documents", "--space", "bad"),
            _d("documents-cut-inside-character", "--space", "trunc"),
            _d("utf16-document-pairs", "--space", "surr", "--mode", "thorough"),
        ] + WITNESSES,
    ),
    manifest=dict(
        text="Bounded-exhaustive: every byte string <= 3 (and 2^30 four-byte strings) through the UTF-8 decoder, every Unicode scalar through 22 encoders, every UTF-16 unit pair, 2^24 UCS-4 "
             "values, every byte/2-byte sequence of the code pages, every split offset x maxChars of mixed words, and a document x encoding x BOM x declaration matrix, each compared with an "
             "independent reference (Table 3-7 DFA, arithmetic, ICU ucnv, Python codecs) or with the UTF-8 baseline dump.",
        note="ICU is the reference for code pages (for ICU-provided encodings only Xerces' wrapper is independent of it); genuine defects found are listed in KNOWN_DEFECTS and reported by witness runs.",
        technique="bounded-exhaustive enumeration of byte strings / scalar values / unit pairs / split schedules / document variants against independent reference decoders and encoders",
    ),
)
